"""C12 — compilation is deterministic.

proof:   coq/C12/Props.v: every hash-iteration site as a function of the iteration order; per-site
         theorems `Permutation o1 o2 -> out o1 = out o2` (sorted / keyed sites) or `_refuted` + complement.
tie:     (1) source scan (vharness run c12 scan: syn + local type inference) over src/frontend, src/backend,
         src/cli: every hash-iteration site must be in SITES below with its schema; a site that is modelled
         as sorted must still be followed by a sort.  (2) correspondence: the site models evaluated in Coq
         (vm_compute) against the real diagnostics / generated files of the same programs.
oracle:  the same inputs compiled in >= 8 fresh processes (fresh hash seeds), different cwd / HOME / LANG /
         TZ / irrelevant variable: bytes of Cargo.toml, src/**, check diagnostics, emit-rust, fmt output."""
import concurrent.futures
import hashlib
import json
import os
import re
import shutil
import subprocess

import vlib

# --------------------------------------------------------------------------------------------- sites
# (file, fn, receiver, kind, n) -> (schema, coq definition / theorem, why)
#   emit     : output produced while iterating (unsorted)           -> refuted, class = >= 2 items
#   sorted   : keys collected, sorted, then rendered                -> C12_sorted_site_deterministic
#   acc-sort : pushes accumulated in iteration order, sorted later   -> C12_nested_layout_deterministic
#   keyed    : per-key writes (files / map inserts), read by key only -> C12_keyed_writes_deterministic
#   memo     : memoised resolver called per key; needs 'answer independent of memo state' -> C12_memo_site_deterministic
S = "src/"
SITES = {
    (S + "backend/project.rs", "ProjectGenerator::generate_cargo_toml", "self.rust_crate_deps", "method:iter", 1):
        ("sorted", "manifest_site / C12_manifest_deterministic", "dependency lines of Cargo.toml: entries sorted by crate name"),
    (S + "frontend/typechecker/check_expr/calls.rs", "TypeChecker::check_model_or_class_constructor_call", "fields", "method:iter", 1):
        ("sorted", "ctor_site / C12_ctor_diag_deterministic", "missing-required-field diagnostics: names sorted"),
    (S + "frontend/typechecker/check_decl.rs", "TypeChecker::check_trait_conformance_model", "trait_info.methods", "method:iter", 1):
        ("sorted", "trait_site / C12_trait_diag_deterministic", "missing trait method diagnostics (model): methods sorted by name"),
    (S + "frontend/typechecker/check_decl.rs", "TypeChecker::check_trait_conformance", "trait_info.methods", "method:iter", 1):
        ("sorted", "trait_site / C12_trait_diag_deterministic", "missing trait method diagnostics (class): methods sorted by name"),
    (S + "frontend/module.rs", "ModuleCollector::modules", "self.loaded", "method:values", 1):
        ("emit", "collector_modules_site / C12_collector_modules_refuted", "iterator handed to the caller; library API without a caller"),
    (S + "cli/test_runner.rs", "run_tests", "all_fixtures", "method:iter", 1):
        ("sorted", "fixture_listing_site / C12_fixture_sites_deterministic", "`incan test -v` fixture listing: sorted by name"),
    (S + "cli/test_runner.rs", "get_autouse_fixtures", "fixtures", "method:values", 1):
        ("sorted", "autouse_site / C12_fixture_sites_deterministic", "autouse fixtures: names sorted"),
    (S + "backend/project.rs", "ProjectGenerator::generate_multi", "modules", "method:keys", 1):
        ("sorted", "multi_mods_site / C12_sorted_site_deterministic", "mod declarations of main.rs"),
    (S + "backend/project.rs", "ProjectGenerator::generate_nested", "top_level_modules", "method:into_iter", 1):
        ("sorted", "top_level_site / C12_nested_layout_deterministic", "top-level mod declarations"),
    (S + "frontend/typechecker/collect.rs", "TypeChecker::validate_import_visibility", "exported_names", "method:iter", 1):
        ("sorted", "hint_site / C12_sorted_site_deterministic", "hint listing public exports"),
    (S + "backend/project.rs", "ProjectGenerator::generate_nested", "dir_submodules", "method:values_mut", 1):
        ("sorted", "mod_rs_site / C12_nested_layout_deterministic", "each value sorted + deduplicated in place"),
    (S + "backend/project.rs", "ProjectGenerator::generate_nested", "modules", "method:keys", 1):
        ("acc-sort", "dir_pushes / C12_nested_layout_deterministic", "pushes into dir_submodules / top_level set, sorted afterwards"),
    (S + "backend/project.rs", "ProjectGenerator::generate_multi", "modules", "for", 1):
        ("keyed", "write_all / C12_keyed_writes_deterministic", "one file per module name"),
    (S + "backend/project.rs", "ProjectGenerator::generate_nested", "dir_submodules", "for", 1):
        ("keyed", "write_all / C12_keyed_writes_deterministic", "one mod.rs per directory"),
    (S + "backend/project.rs", "ProjectGenerator::generate_nested", "modules", "for", 1):
        ("keyed", "write_all / C12_keyed_writes_deterministic", "one file per module path"),
    (S + "backend/ir/mod.rs", "FunctionRegistry::merge", "other.signatures", "for", 1):
        ("keyed", "write_all / C12_keyed_writes_deterministic", "map merged into map, read by key"),
    (S + "backend/ir/emit/program.rs", "IrEmitter::emit_program", "static_str_const_exprs", "method:keys", 1):
        ("memo", "memo_all / C12_memo_site_deterministic (refuted without its hypothesis: C12_memo_site_refuted)",
         "memoised resolution; order-free IF the resolver's answer does not depend on the memo state — re-validated per run by the "
         "differential probe on long const chains (st_consts, st_consts2: emit-many + 8 processes)"),
    (S + "backend/ir/emit/program.rs", "IrEmitter::emit_program", "cache", "extend-into-hash", 1):
        ("keyed", "write_all / C12_keyed_writes_deterministic", "map extended by map"),
    (S + "backend/ir/codegen.rs", "IrCodegen::collect_rust_crates", "crates", "for", 1):
        ("keyed", "write_all / C12_keyed_writes_deterministic", "set inserted into set"),
    (S + "frontend/typechecker/collect.rs", "TypeChecker::collect_class", "collect_fields(&class.fields,&self.symbols)", "extend-into-hash", 1):
        ("keyed", "write_all / C12_keyed_writes_deterministic", "map extended by map"),
    (S + "frontend/typechecker/collect.rs", "TypeChecker::collect_class", "collect_methods(&class.methods,&self.symbols)", "extend-into-hash", 1):
        ("keyed", "write_all / C12_keyed_writes_deterministic", "map extended by map"),
}

ESC = "\x1b"
HDR = ESC + "[1m" + ESC + "[31m"
RE_MISSING = re.compile(r"Missing required field '([^']+)' when constructing '([^']+)'")
RE_TRAIT = re.compile(r"Trait '([^']+)' requires (?:method '([^']+)' to be implemented|'[^']+'::\w+ to match its signature)")
FIXED = ("incan_stdlib", "incan_derive", "serde", "serde_json", "axum", "tokio")


def zs(text):
    return vlib.zlist([ord(c) for c in text])


def coq_list(items):
    return "[" + "; ".join(items) + "]"


def unz(l):
    return "".join(chr(c) for c in l)


# --------------------------------------------------------------------------------------------- cases
KNOWN_CRATES = ["rand", "regex", "anyhow", "thiserror", "tracing", "log", "env_logger", "futures", "bytes", "itertools", "uuid", "chrono", "time", "clap"]
UNKNOWN_CRATES = ["foobarbaz", "zzz_unknown", "my_crate"]
WORDS = ["alpha", "beta", "gamma", "delta", "eps", "zeta", "eta", "theta", "iota", "kappa", "lam", "mu", "nu", "xi"]


def case_crates(rng, name, k, serde=False, asyn=False, unknown=0):
    crates = rng.sample(KNOWN_CRATES, k) + rng.sample(UNKNOWN_CRATES, unknown)
    rng.shuffle(crates)
    src = "".join("import rust::%s\n" % c for c in crates) + "\n"
    if serde:
        src += "@derive(Serialize)\nmodel P:\n    x: int\n\n"
    if asyn:
        src += "async def f() -> int:\n    return 1\n\n"
    src += "def main() -> None:\n    println(1)\n"
    return {"name": name, "kind": "crates", "files": {"main.incn": src}, "crates": crates, "serde": serde, "tokio": asyn,
            "cmds": ["check", "emit", "build", "fmt-diff"]}


def case_ctor(rng, name, nfields, ndefault, nprovided):
    fields = rng.sample(WORDS, nfields)
    defaults = set(rng.sample(fields, ndefault))
    provided = rng.sample(fields, nprovided)
    src = "model Pt:\n" + "".join("    %s: int%s\n" % (f, " = 0" if f in defaults else "") for f in fields)
    src += "\ndef main() -> None:\n    p = Pt(%s)\n    println(1)\n" % ", ".join("%s=1" % f for f in provided)
    return {"name": name, "kind": "ctor", "files": {"main.incn": src}, "ty": "Pt", "fields": [(f, f in defaults) for f in fields],
            "provided": provided, "cmds": ["check", "emit", "build"]}


def case_trait(rng, name, nmeth, nbody, nimpl, klass, nmismatch=0):
    ms = rng.sample(WORDS, nmeth)
    body = set(rng.sample(ms, nbody))
    rest = [m for m in ms if m not in body]
    impl = set(rng.sample(rest, min(nimpl, len(rest))))
    rest = [m for m in rest if m not in impl]
    mism = set(rng.sample(rest, min(nmismatch, len(rest))))
    src = "trait Shape:\n"
    for m in ms:
        src += "    def %s(self) -> int:%s\n" % (m, "\n        return 1" if m in body else " ...")
    src += "\n%s Sq with Shape:\n    s: int\n" % ("class" if klass else "model")
    for m in ms:
        if m in impl:
            src += "    def %s(self) -> int:\n        return 2\n" % m
        if m in mism:
            src += "    def %s(self, extra: int) -> str:\n        return \"x\"\n" % m
    src += "\ndef main() -> None:\n    println(1)\n"
    return {"name": name, "kind": "trait", "files": {"main.incn": src}, "tr": "Shape", "ty": "Sq",
            "methods": [(m, 0 if m in body else 1 if m in impl else 3 if m in mism else 2) for m in ms], "cmds": ["check", "emit", "build"]}


def case_multi(rng, name, paths):
    files = {}
    imports = []
    for i, p in enumerate(paths):
        files["/".join(p) + ".incn"] = "pub def f%d() -> int:\n    return %d\n" % (i, i)
        imports.append("from %s import f%d" % (".".join(p), i))
    rng.shuffle(imports)
    files["main.incn"] = "\n".join(imports) + "\n\ndef main() -> None:\n" + "".join("    println(f%d())\n" % i for i in range(len(paths)))
    return {"name": name, "kind": "multi", "files": files, "paths": paths, "cmds": ["check", "emit", "build", "fmt-diff", "collector"]}


def case_fmt(name):
    src = "model   User :\n    name:str\n    age :int=3\n\ndef  add( a:int,b:int )->int:\n    x=a+b\n    return   x\n\ndef main()->None:\n    u=User(name='a')\n    println(add(1,2))\n"
    return {"name": name, "kind": "fmt", "files": {"main.incn": src, "other.incn": "def g()->int:\n    return 1\n"}, "cmds": ["check", "emit", "fmt-diff", "fmt-check"]}


def case_hint(name):
    files = {"util.incn": "pub def zed() -> int:\n    return 1\npub def alpha() -> int:\n    return 2\npub def mid() -> int:\n    return 3\npub const K: int = 1\ndef hidden() -> int:\n    return 4\n",
             "main.incn": "from util import hidden\n\ndef main() -> None:\n    println(hidden())\n"}
    return {"name": name, "kind": "hint", "files": files, "exports": ["zed", "alpha", "mid", "K"], "cmds": ["check", "emit"]}


def case_fixtures(name):
    src = ""
    for i, f in enumerate(["db", "tmpdir", "client", "cfg", "clock", "zeta", "alpha"]):
        src += "@fixture%s\ndef %s(%s) -> int:\n    return 1\n\n" % (
            "(autouse=true)" if i % 2 == 0 else ("(scope=\"module\")" if i % 3 == 0 else ""), f, "db: int" if f == "client" else "")
    src += "def test_one(cfg: int) -> None:\n    assert 1 == 1\n"
    fx = [(f, i % 2 == 0) for i, f in enumerate(["db", "tmpdir", "client", "cfg", "clock", "zeta", "alpha"])]
    return {"name": name, "kind": "fixtures", "files": {"test_fx.incn": src}, "cmds": ["test"], "entry": ".", "fixtures": fx}


WEB_METHODS = ["GET", "POST", "PUT", "DELETE", "PATCH"]


def case_web(rng, name, nroutes, max_methods):
    """web program: several routes, each with 1..max_methods HTTP methods (mixed spellings, duplicates), JSON models"""
    src = "from web import App, route, Response, Json\n\n@derive(Serialize)\nmodel Item:\n    id: int\n    name: str\n\n"
    for i in range(nroutes):
        k = 1 + (i % max_methods)
        ms = rng.sample(WEB_METHODS, k)
        if i % 4 == 3:
            ms.append(ms[0].lower())
        if i % 3 == 0:
            src += "@route(\"/r%d\", methods=[%s])\nasync def h%d() -> Response:\n    return Response.ok()\n\n" % (i, ", ".join('"%s"' % m for m in ms), i)
        elif i % 3 == 1:
            src += "@route(\"/api/%d/{id}\", methods=[%s])\nasync def h%d(id: int) -> Json[Item]:\n    return Json(Item(id=id, name=\"n\"))\n\n" % (
                i, ", ".join('"%s"' % m for m in ms), i)
        else:
            src += "@route(\"/plain%d\")\nasync def h%d() -> Response:\n    return Response.html(\"<p>%d</p>\")\n\n" % (i, i, i)
    src += "def main() -> None:\n    app = App()\n    app.run(port=8080)\n"
    return {"name": name, "kind": "web", "files": {"main.incn": src}, "cmds": ["check", "emit", "build", "emit-many"], "nroutes": nroutes}


def case_chain(name, n):
    src = 'const C0: str = "c"\n' + "".join('const C%d: str = C%d + "-%d"\n' % (i, i - 1, i) for i in range(1, n))
    src += "\ndef main() -> None:\n    println(C%d)\n" % (n - 1) if n else "\ndef main() -> None:\n    println(1)\n"
    return {"name": name, "kind": "chain", "files": {"main.incn": src}, "cmds": ["emit", "emit-many"], "n": n}


def case_misc():
    """shapes the examples never use: duplicate / unknown constructor fields, non-ASCII text, import cycle, duplicate imports"""
    out = []
    out.append({"name": "ms_dupfield", "kind": "misc", "cmds": ["check", "emit"], "files": {"main.incn":
        "model P:\n    a: int\n    b: int\n    c: int\n\ndef main() -> None:\n    p = P(a=1, a=2, zz=3, yy=4)\n    println(1)\n"}})
    out.append({"name": "ms_unicode", "kind": "misc", "cmds": ["check", "emit", "build", "fmt-diff", "emit-many"], "files": {"main.incn":
        "const GREETING: str = \"h\u00e9llo \u4e16\u754c \U0001F600\"\nconst G2: str = GREETING + \" \u00fc\"\n\nmodel Pe:\n    name: str\n    other: str\n\n"
        "def main() -> None:\n    p = Pe()\n    println(f\"{G2} \u00e7a\")\n"}})
    out.append({"name": "ms_unicode_id", "kind": "misc", "cmds": ["check", "emit", "fmt-diff"], "files": {"main.incn":
        "model P\u00e9:\n    n\u00e4me: str\n\ndef main() -> None:\n    println(1)\n"}})
    out.append({"name": "ms_cycle", "kind": "misc", "cmds": ["check", "emit", "build", "collector"], "files": {
        "main.incn": "from a import fa\n\ndef main() -> None:\n    println(fa())\n",
        "a.incn": "from b import fb\n\npub def fa() -> int:\n    return fb()\n", "b.incn": "from a import fa\n\npub def fb() -> int:\n    return 1\n"}})
    out.append({"name": "ms_dupimport", "kind": "misc", "cmds": ["check", "emit", "build"], "files": {"main.incn":
        "import rust::rand\nfrom rust::rand import random\nimport rust::rand as r2\nfrom rust::std::collections import HashMap\nimport rust::regex\n\ndef main() -> None:\n    println(1)\n"}})
    out.append({"name": "ms_empty", "kind": "misc", "cmds": ["check", "emit", "fmt-diff"], "files": {"main.incn": ""}})
    return out


def corpus_cases(chk):
    """the repository's own programs (examples, codegen snapshots, fixtures, stdlib) as oracle input"""
    roots = ["examples", "tests/codegen_snapshots", "tests/fixtures", "stdlib", "benchmarks"]
    found = []
    for r in roots:
        for d, dirs, files in os.walk(os.path.join(vlib.REPO, r)):
            dirs.sort()
            for f in sorted(files):
                if f.endswith(".incn"):
                    found.append(os.path.join(d, f))
    if chk.tier == "quick":
        found = sorted(chk.rng.sample(found, min(24, len(found))))
    cases = []
    for i, path in enumerate(found):
        d = os.path.dirname(path)
        files = {}
        for dd, dirs, fs in os.walk(d):
            for f in fs:
                if f.endswith(".incn") and len(files) < 40:
                    try:
                        files[os.path.relpath(os.path.join(dd, f), d)] = open(os.path.join(dd, f), encoding="utf-8").read()
                    except (OSError, UnicodeDecodeError):
                        pass
        cases.append({"name": "cp%03d" % i, "kind": "corpus", "files": files, "entry": os.path.basename(path),
                      "cmds": ["emit"] if chk.tier == "quick" else ["check", "emit", "fmt-diff", "emit-many"], "origin": os.path.relpath(path, vlib.REPO)})
    return cases


def stress_cases(n=64, chain=200):
    """inputs that put MANY keys into every hash-iteration site, so that an order dependence shows
    with high probability in a handful of processes"""
    cases = []
    names = ["k%02d" % i for i in range(n)]
    # static-str const resolver (emit_program: static_str_const_exprs / cache) — a long chain
    src = 'const C0: str = "c"\n' + "".join('const C%d: str = C%d + "-%d"\n' % (i, i - 1, i) for i in range(1, chain))
    src += "\ndef main() -> None:\n    println(C%d)\n" % (chain - 1)
    cases.append({"name": "st_consts", "kind": "stress", "files": {"main.incn": src}, "cmds": ["emit", "build", "emit-many"]})
    # independent consts + a diamond (several consts built from the same ones)
    src = "".join('const A%d: str = "a%d"\n' % (i, i) for i in range(n)) + "".join('const B%d: str = A%d + A%d\n' % (i, i, (i * 7 + 3) % n) for i in range(n))
    src += "".join('const D%d: str = B%d + B%d\n' % (i, i, (i * 5 + 1) % n) for i in range(n)) + "\ndef main() -> None:\n    println(D0)\n"
    cases.append({"name": "st_consts2", "kind": "stress", "files": {"main.incn": src}, "cmds": ["emit", "emit-many"]})
    # constructor with n missing fields / n provided
    src = "model Big:\n" + "".join("    %s: int\n" % f for f in names) + "\ndef main() -> None:\n    b = Big()\n    println(1)\n"
    cases.append({"name": "st_ctor", "kind": "ctor", "files": {"main.incn": src}, "ty": "Big", "fields": [(f, False) for f in names], "provided": [],
                  "cmds": ["check", "emit", "build"]})
    src = "model Big:\n" + "".join("    %s: int\n" % f for f in names) + "\ndef main() -> None:\n    b = Big(%s)\n    println(b.k00)\n" % ", ".join("%s=1" % f for f in names)
    cases.append({"name": "st_ctor_ok", "kind": "stress", "files": {"main.incn": src}, "cmds": ["check", "emit", "build", "emit-many"]})
    # trait with n required methods: none implemented (model) / all implemented (class)
    tr = "trait Wide:\n" + "".join("    def %s(self) -> int: ...\n" % m for m in names)
    cases.append({"name": "st_trait", "kind": "trait", "tr": "Wide", "ty": "Sq", "methods": [(m, 2) for m in names], "cmds": ["check", "emit"],
                  "files": {"main.incn": tr + "\nmodel Sq with Wide:\n    s: int\n\ndef main() -> None:\n    println(1)\n"}})
    impl = "".join("    def %s(self) -> int:\n        return 1\n" % m for m in names)
    cases.append({"name": "st_trait_ok", "kind": "stress", "cmds": ["check", "emit", "build", "emit-many"],
                  "files": {"main.incn": tr + "\nclass Sq with Wide:\n    s: int\n" + impl + "\ndef main() -> None:\n    println(1)\n"}})
    # class inheritance: parent fields/methods merged into the child's maps
    src = "class Base:\n" + "".join("    %s: int\n" % f for f in names[:32]) + "".join("    def g%s(self) -> int:\n        return self.%s\n" % (f, f) for f in names[:32])
    src += "\nclass Child extends Base:\n    extra: int\n\ndef main() -> None:\n    println(1)\n"
    cases.append({"name": "st_inherit", "kind": "stress", "files": {"main.incn": src}, "cmds": ["check", "emit", "emit-many"]})
    # n modules in 8 directories, each with functions and rust imports (generate_nested, FunctionRegistry::merge, collect_rust_crates)
    files, imports, calls = {}, [], []
    for i in range(n):
        pth = ["pkg%d" % (i % 8), "m%02d" % i]
        files["/".join(pth) + ".incn"] = ("import rust::%s\n\n" % KNOWN_CRATES[i % len(KNOWN_CRATES)]) + "".join(
            "pub def f%02d_%d() -> int:\n    return %d\n" % (i, j, j) for j in range(4))
        imports.append("from %s import f%02d_0" % (".".join(pth), i))
        calls.append("    println(f%02d_0())\n" % i)
    files["main.incn"] = "\n".join(imports) + "\n\ndef main() -> None:\n" + "".join(calls)
    cases.append({"name": "st_modules", "kind": "multi", "files": files, "paths": [["pkg%d" % (i % 8), "m%02d" % i] for i in range(n)],
                  "cmds": ["check", "emit", "build", "collector", "emit-many"]})
    # hint with n exports
    util = "".join("pub def %s() -> int:\n    return 1\n" % m for m in names) + "def hidden() -> int:\n    return 4\n"
    cases.append({"name": "st_hint", "kind": "hint", "exports": list(names), "cmds": ["check"],
                  "files": {"util.incn": util, "main.incn": "from util import hidden\n\ndef main() -> None:\n    println(hidden())\n"}})
    # n fixtures
    src = "".join("@fixture(autouse=true)\ndef %s() -> int:\n    return 1\n\n" % f for f in names) + "def test_one() -> None:\n    assert 1 == 1\n"
    cases.append({"name": "st_fixtures", "kind": "fixtures", "files": {"test_fx.incn": src}, "cmds": ["test"], "entry": ".", "fixtures": [(f, True) for f in names]})
    # every known crate
    src = "".join("import rust::%s\n" % c for c in KNOWN_CRATES) + "\n@derive(Serialize)\nmodel P:\n    x: int\n\nasync def f() -> int:\n    return 1\n\ndef main() -> None:\n    println(1)\n"
    cases.append({"name": "st_crates", "kind": "crates", "files": {"main.incn": src}, "crates": list(KNOWN_CRATES), "serde": True, "tokio": True,
                  "cmds": ["check", "emit", "build", "emit-many"]})
    return cases


def gen_cases(chk):
    rng = chk.rng
    big = chk.tier != "quick"
    cases = [
        case_crates(rng, "cr0", 0), case_crates(rng, "cr1", 1), case_crates(rng, "cr1s", 1, serde=True, asyn=True),
        case_crates(rng, "cr3", 3), case_crates(rng, "cr5", 5, serde=True), case_crates(rng, "cr4u", 3, unknown=1, asyn=True),
        case_ctor(rng, "ct0", 4, 1, 3), case_ctor(rng, "ct1", 4, 1, 2), case_ctor(rng, "ct3", 5, 1, 1), case_ctor(rng, "ct5", 6, 0, 1),
        case_trait(rng, "tr0", 3, 1, 2, False), case_trait(rng, "tr1", 3, 1, 1, False), case_trait(rng, "tr3", 5, 1, 1, False),
        case_trait(rng, "tr4c", 5, 0, 1, True), case_trait(rng, "tr5m", 7, 1, 1, False, nmismatch=3), case_trait(rng, "tr6mc", 6, 0, 2, True, nmismatch=2),
        case_multi(rng, "mf1", [["util"]]),
        case_multi(rng, "mf5", [["db", "models"], ["db", "conn"], ["util"], ["svc", "api", "v1"], ["svc", "api", "v2"], ["svc", "core"], ["zeta"]]),
        case_fmt("fmt"), case_hint("hint"), case_fixtures("fx"),
        {"name": "crb", "kind": "crates", "crates": ["tokio", "rand", "serde", "serde_json"], "serde": True, "tokio": True, "cmds": ["check", "emit", "build"],
         "files": {"main.incn": "import rust::tokio\nimport rust::rand\nimport rust::serde\nimport rust::serde_json\n\n@derive(Serialize)\nmodel P:\n    x: int\n\n"
                                "async def f() -> int:\n    return 1\n\ndef main() -> None:\n    println(1)\n"}},
        case_web(rng, "web1", 1, 1), case_web(rng, "web2", 2, 2), case_web(rng, "web6", 6, 5), case_web(rng, "web17", 17, 5),
    ] + stress_cases() + [case_chain("ch%d" % n, n) for n in (1, 2, 16, 17, 18, 19, 33, 65)] + case_misc() + corpus_cases(chk)
    if big:
        for i in range(12):
            cases.append(case_crates(rng, "crx%d" % i, rng.randint(0, 6), serde=rng.random() < .5, asyn=rng.random() < .5, unknown=rng.randint(0, 2)))
            cases.append(case_ctor(rng, "ctx%d" % i, rng.randint(2, 8), rng.randint(0, 2), rng.randint(0, 2)))
            cases.append(case_trait(rng, "trx%d" % i, rng.randint(2, 7), rng.randint(0, 2), rng.randint(0, 2), rng.random() < .5))
            n = rng.randint(2, 8)
            paths = []
            while len(paths) < n:
                p = [rng.choice(["a", "b", "c", "d"]) for _ in range(rng.randint(1, 3))]
                # a path must not be a strict prefix of another (file vs directory) and not duplicate
                if all(p != q and p != q[:len(p)] and q != p[:len(q)] for q in paths):
                    paths.append(p)
            cases.append(case_multi(rng, "mfx%d" % i, paths))
    return cases


# --------------------------------------------------------------------------------------------- running
ENVS = [
    {"HOME": "/nonexistent/h0", "LANG": "C", "TZ": "UTC", "VERIF_IRRELEVANT": "0"},
    {"HOME": "/tmp", "LANG": "en_US.UTF-8", "TZ": "Asia/Tokyo", "VERIF_IRRELEVANT": "one"},
    {"HOME": "/root", "LANG": "de_DE.UTF-8", "LC_ALL": "de_DE.UTF-8", "TZ": "America/Los_Angeles", "VERIF_IRRELEVANT": "2"},
    {"HOME": "/", "LANG": "ja_JP.UTF-8", "TZ": "Europe/Berlin", "VERIF_IRRELEVANT": "x" * 300},
    {"HOME": "/nonexistent/h4", "LANG": "POSIX", "TZ": "Pacific/Chatham", "VERIF_IRRELEVANT": ""},
    {"HOME": "/var", "LANG": "tr_TR.UTF-8", "LC_ALL": "tr_TR.UTF-8", "TZ": "UTC", "COLUMNS": "20"},
    {"HOME": "/nonexistent/h6", "LANG": "C.UTF-8", "TZ": ":/etc/localtime", "TERM": "dumb"},
    {"HOME": "/dev/null", "LANG": "zh_CN.UTF-8", "TZ": "Africa/Nairobi", "USER": "someoneelse"},
]


def write_tree(root, files):
    for rel, text in files.items():
        p = os.path.join(root, rel)
        os.makedirs(os.path.dirname(p), exist_ok=True)
        with open(p, "w") as f:
            f.write(text)


def read_tree(root):
    out = {}
    for d, dirs, files in os.walk(root):
        dirs.sort()
        if os.path.basename(d) == "target":
            dirs[:] = []
            continue
        for f in sorted(files):
            p = os.path.join(d, f)
            try:
                out[os.path.relpath(p, root)] = open(p, "rb").read().decode("utf-8", "replace")
            except OSError:
                pass
    return out


def slot_env(i, stub):
    env = dict(os.environ)
    for k in ("HOME", "LANG", "LC_ALL", "TZ", "VERIF_IRRELEVANT", "COLUMNS", "TERM", "USER"):
        env.pop(k, None)
    env.update(ENVS[i % len(ENVS)])
    env["PATH"] = stub + ":" + env.get("PATH", "")
    env["VERIF_RUN_SLOT"] = str(i)
    return env


def job_args(case, cmd, rep=0):
    entry = case.get("entry", "main.incn")
    rel = os.path.join("cases", case["name"], entry) if entry != "." else os.path.join("cases", case["name"])
    out_rel = None
    if cmd == "build":
        out_rel = os.path.join("out", "%s.%d" % (case["name"], rep))
        return [rel, out_rel], out_rel
    if cmd in ("fmt-diff", "fmt-check"):
        return [os.path.join("cases", case["name"])], None
    if cmd == "emit-many":
        return [rel, "8"], None
    return [rel], None


def run_slot(binary, scratch, jobs, i, stub):
    """Run all (case, cmd, rep) jobs of slot i in ONE fresh process (own cwd + environment).
    Returns {(name, cmd, rep): observable result}."""
    root = os.path.join(scratch, "w%d" % i)
    lines, outs = [], []
    for case, cmd, rep in jobs:
        args, out_rel = job_args(case, cmd, rep)
        if out_rel:
            shutil.rmtree(os.path.join(root, out_rel), ignore_errors=True)
        outs.append(out_rel)
        lines.append(json.dumps({"cmd": cmd, "args": args}))
    try:
        p = subprocess.run([binary, "run", "c12", "cli-batch"], cwd=root, env=slot_env(i, stub), input=("\n".join(lines) + "\n").encode(),
                           capture_output=True, timeout=1200)
    except subprocess.TimeoutExpired:
        raise vlib.Infra("c12 cli-batch slot %d timed out" % i)
    so, se = p.stdout.decode("utf-8", "replace"), p.stderr.decode("utf-8", "replace")
    if p.returncode != 0:
        raise vlib.Infra("c12 cli-batch slot %d failed rc=%d: %s" % (i, p.returncode, se[-1500:]))
    res = {}
    for k, (case, cmd, rep) in enumerate(jobs):
        rx = re.compile(r"@@C12-BEGIN %d\n(.*?)\n@@C12-END %d (-?\d+)\n" % (k, k), re.S)
        mo, me = rx.search(so), rx.search(se)
        if not mo or not me:
            raise vlib.Infra("c12 cli-batch: missing markers for job %d (%s %s)" % (k, case["name"], cmd))
        # absolute paths of the scratch root are the run's own location, not compiler output
        r = {"rc": int(mo.group(2)), "stdout": mo.group(1).replace(os.path.realpath(root), "<root>"),
             "stderr": me.group(1).replace(os.path.realpath(root), "<root>"), "files": {}}
        if r["rc"] == 2 and "c12 cli: unknown command" in r["stderr"]:
            raise vlib.Infra("harness c12 cli does not know %s" % cmd)
        if outs[k]:
            r["files"] = read_tree(os.path.join(root, outs[k]))
            r["stdout"] = r["stdout"].replace(outs[k], "<out>")
        if cmd == "test":
            # wall-clock timings are not part of the property: keep the fixture listing only
            m = re.search(r"Discovered \d+ fixture\(s\):\n((?:  - .*\n)*)", r["stdout"])
            r["stdout"] = m.group(0) if m else "<no fixture listing>"
            r["stderr"] = ""
            r["rc"] = 0
        res[(case["name"], cmd, rep)] = r
    return res


def digest(res):
    return hashlib.sha1(json.dumps(res, sort_keys=True).encode()).hexdigest()


def blocks(stderr):
    """split rendered diagnostics into one block per diagnostic"""
    parts, cur = [], []
    for line in stderr.split("\n"):
        if line.startswith(HDR) and cur:
            parts.append("\n".join(cur))
            cur = []
        cur.append(line)
    if cur:
        parts.append("\n".join(cur))
    return [p.rstrip("\n") for p in parts if p.strip()]


def dep_section(manifest):
    m = re.search(r"\[dependencies\]\n(.*?)\n\n", manifest, re.S)
    return m.group(1).split("\n") if m else []


def classify(case, cmd, results):
    """results: list of observable results that are not all equal.  Returns (class id | None, explanation)."""
    a = results[0]
    diff_keys = set()
    for r in results[1:]:
        for k in ("rc", "stdout", "stderr"):
            if r[k] != a[k]:
                diff_keys.add(k)
        for f in set(a["files"]) | set(r["files"]):
            if a["files"].get(f) != r["files"].get(f):
                diff_keys.add("file:" + f)
    if cmd == "collector" and diff_keys <= {"stdout"}:
        if all(sorted(r["stdout"].split("\n")) == sorted(a["stdout"].split("\n")) for r in results) and len(a["stdout"].strip().split("\n")) >= 2:
            return "collector-order", "ModuleCollector::collect returns modules in hash order"
    if cmd == "test" and diff_keys <= {"stdout"}:
        if all(sorted(r["stdout"].split("\n")) == sorted(a["stdout"].split("\n")) for r in results) and a["stdout"].count("  - ") >= 2:
            return "fixture-order", "`incan test -v` lists fixtures in hash order"
    if diff_keys == {"file:Cargo.toml"}:
        secs = [dep_section(r["files"]["Cargo.toml"]) for r in results]
        rest = [re.sub(r"\[dependencies\]\n.*?\n\n", "", r["files"]["Cargo.toml"], flags=re.S) for r in results]
        hashed = [l for l in secs[0] if l.split(" = ")[0] not in FIXED]
        fixed_part = [[l for l in s if l.split(" = ")[0] in FIXED] for s in secs]
        if (all(sorted(s) == sorted(secs[0]) for s in secs) and all(x == rest[0] for x in rest) and all(f == fixed_part[0] for f in fixed_part)
                and len(hashed) >= 2):
            return "manifest-order", "Cargo.toml lists the %d `rust::` dependencies in hash order" % len(hashed)
    if diff_keys == {"stderr"} and all(r["stderr"].startswith("Code generation error: typecheck failed (") for r in results):
        # emit-rust shows the count and the FIRST diagnostic only
        ms = [re.match(r"Code generation error: typecheck failed \((\d+) errors\): (.*)", r["stderr"].strip()) for r in results]
        if all(ms) and len({m.group(1) for m in ms}) == 1 and int(ms[0].group(1)) >= 2:
            if all(RE_MISSING.fullmatch(m.group(2)) for m in ms) and len({RE_MISSING.fullmatch(m.group(2)).group(2) for m in ms}) == 1:
                return "diag-order", "the first of several 'Missing required field' diagnostics (hash order) is shown by --emit-rust"
            if all(RE_TRAIT.fullmatch(m.group(2)) for m in ms) and len({RE_TRAIT.fullmatch(m.group(2)).group(1) for m in ms}) == 1:
                return "diag-order-trait", "the first of several 'requires method' diagnostics (hash order) is shown by --emit-rust"
    if diff_keys == {"stderr"}:
        bl = [blocks(r["stderr"]) for r in results]
        if all(sorted(b) == sorted(bl[0]) for b in bl) and all(len(b) == len(bl[0]) for b in bl):
            moved = set()
            for b in bl[1:]:
                for x, y in zip(bl[0], b):
                    if x != y:
                        moved.add(x)
                        moved.add(y)
            if moved and all(RE_MISSING.search(x.split("\n")[0]) for x in moved) and len({RE_MISSING.search(x).group(2) for x in moved}) == 1 and len(moved) >= 2:
                return "diag-order", "several 'Missing required field' diagnostics of one constructor call come out in hash order"
            if moved and all(RE_TRAIT.search(x.split("\n")[0]) for x in moved) and len(moved) >= 2:
                # the moved blocks of one adoption site share header line 2 (location)
                return "diag-order-trait", "several 'requires method' diagnostics of one trait adoption come out in hash order"
    return None, "outputs differ in " + ", ".join(sorted(diff_keys))


# --------------------------------------------------------------------------------------------- scan tie
def scan_tie(binary):
    out = vlib.run_harness(binary, ["run", "c12", "scan", vlib.REPO], "")
    sites, problems, accepted = [], [], []
    for line in out.split("\n"):
        if not line.strip():
            continue
        d = json.loads(line)
        if "error" in d:
            problems.append({"what": "scan", "message": "cannot parse %s: %s" % (d.get("file"), d["error"])})
            continue
        sites.append(d)
    seen = set()
    for d in sites:
        key = (d["file"], d["fn"], d["recv"], d["kind"], d["n"])
        seen.add(key)
        if key not in SITES and d["sorted_after"]:
            # collect-then-sort is the recognised safe shape (C12_sorted_site_deterministic); the
            # multi-process diff still observes its output
            accepted.append("%s:%d %s `%s` (%s)" % (d["file"], d["line"], d["fn"], d["recv"], d["kind"]))
            continue
        if key not in SITES:
            problems.append({"what": "unknown hash-iteration site", "site": "%s:%d %s iterates `%s` (%s)%s" % (
                d["file"], d["line"], d["fn"], d["recv"], d["kind"], " [type decided by field name only]" if d["ambiguous"] else ""),
                "message": "a HashMap/HashSet is iterated at a place the C12 model does not know; its output may depend on the hash seed"})
            continue
        schema = SITES[key][0]
        if schema == "sorted" and not d["sorted_after"]:
            problems.append({"what": "site no longer sorted", "site": "%s:%d %s `%s`" % (d["file"], d["line"], d["fn"], d["recv"]),
                             "message": "the model (%s) assumes a sort between the iteration and the output; none found" % SITES[key][1]})
    gone = [k for k in SITES if k not in seen]
    return sites, problems, gone, accepted


# --------------------------------------------------------------------------------------------- main
def repo_version():
    m = re.search(r'(?m)^version\s*=\s*"([^"]+)"', open(os.path.join(vlib.REPO, "Cargo.toml")).read())
    return m.group(1) if m else "?"


def model_terms(cases, observed):
    """Coq terms for the correspondence run: one per (case) that has a site model."""
    root = os.path.realpath(vlib.REPO)
    ver = repo_version()
    terms, meta = [], []
    for c in cases:
        if c["kind"] == "ctor":
            t = "(render_ctor %s %s %s, ([] : str), ([] : list str))" % (
                zs(c["ty"]), coq_list([zs(p) for p in c["provided"]]),
                coq_list(["(%s, %s)" % (zs(f), "true" if d else "false") for f, d in c["fields"]]))
        elif c["kind"] == "trait":
            t = "(render_trait %s %s %s, ([] : str), ([] : list str))" % (
                zs(c["tr"]), zs(c.get("ty", "Sq")), coq_list(["(%s, %d)" % (zs(m), st) for m, st in c["methods"]]))
        elif c["kind"] == "fixtures":
            fl = coq_list(["(%s, %s)" % (zs(f), "true" if a else "false") for f, a in reversed(c["fixtures"])])
            t = "(fixture_listing_site %s, ([] : str), autouse_site %s)" % (fl, fl)
        elif c["kind"] == "multi":
            dirs = sorted({tuple(p[:i]) for p in c["paths"] for i in range(1, len(p))})
            c["dirs"] = dirs
            order = coq_list([coq_list([zs(x) for x in p]) for p in c["paths"]])
            t = "(([] : list str), fst (render_layout %s %s), snd (render_layout %s %s))" % (
                coq_list([coq_list([zs(x) for x in d]) for d in dirs]), order, coq_list([coq_list([zs(x) for x in d]) for d in dirs]), order)
        elif c["kind"] == "crates":
            man = observed.get(c["name"])
            if man is None:
                continue
            specs = dict(l.partition(" = ")[::2] for l in dep_section(man))
            # any order will do (the writer sorts): the order of the imports, reversed
            ol = coq_list(["(%s, %s)" % (zs(n), "Some %s" % zs(specs[n]) if n in specs else "None") for n in reversed(c["crates"])])
            t = "(([] : list str), render_manifest %s %s %s %s %s false %s, ([] : list str))" % (
                zs(c["name"] if False else "main"), zs(root), zs(ver), "true" if c["serde"] else "false", "true" if c["tokio"] else "false", ol)
        else:
            continue
        terms.append(t)
        meta.append(c)
    return terms, meta


def run(chk):
    chk.trusted = [
        "Coq 8.16.1 kernel (coqc; vm_compute for closed witnesses)",
        "vharness c12 scan: syn parser + the local type inference that decides which expressions are HashMap/HashSet (name-based fallback flagged as ambiguous); it cannot see iteration hidden behind untyped closure parameters or inside Vec<HashMap> elements",
        "vharness c12 cli: calls incan::cli::commands::{check_file,emit_rust,build_file,format_files}, test_runner::run_tests directly (clap and banner bypassed)",
        "the OS process model: a fresh RandomState per process; 8 processes per input and command (16 for known-finding witnesses)",
        "the assignment of each scanned site to a schema in checks/c12.py SITES (read from the code by hand; `sorted` sites are re-checked for a following sort)",
        "rustc/std: everything that does not iterate a hash table is deterministic (covered by the multi-process diff only)",
    ]
    chk.assumptions = [
        "iteration order of a std HashMap/HashSet = an arbitrary permutation of its keys, fixed within one table instance",
        "schema `keyed` sites: the written files / merged maps are only read by key afterwards",
        "ModuleCollector::modules() (hash-ordered iterator) is a library API without a caller",
    ]
    res = chk.proof_stage("C12", allow_axioms=())
    binary = vlib.build_harness("debug")

    # ---- tie 1: source scan
    sites, problems, gone, accepted = scan_tie(binary)
    if accepted:
        chk.notes.append("new hash-iteration sites accepted because a sort follows: %s" % accepted)
    chk.coverage["sites_scanned"] = len(sites)
    chk.coverage["sites_by_schema"] = {}
    for d in sites:
        key = (d["file"], d["fn"], d["recv"], d["kind"], d["n"])
        sc = SITES.get(key, ("UNKNOWN",))[0]
        chk.coverage["sites_by_schema"][sc] = chk.coverage["sites_by_schema"].get(sc, 0) + 1
    if gone:
        chk.notes.append("modelled sites no longer present in the source: %s" % ["%s %s %s" % (k[0], k[1], k[2]) for k in gone])

    # ---- cases
    cases = gen_cases(chk)
    runs = 8 if chk.tier == "quick" else 12
    scratch = os.path.join(vlib.BUILD, "c12-%d" % os.getpid())
    shutil.rmtree(scratch, ignore_errors=True)
    stub = os.path.join(scratch, "stubbin")
    os.makedirs(stub)
    with open(os.path.join(stub, "cargo"), "w") as f:
        f.write("#!/bin/sh\nexit 0\n")
    os.chmod(os.path.join(stub, "cargo"), 0o755)
    try:
        # known-finding witnesses run with the generated cases (twice per process: two table instances)
        wcases = []
        for f in chk.findings:
            if f.get("status") not in ("known", "fixed"):
                continue
            w = f.get("witness", {})
            wcases.append((f, {"name": "kf_" + f["id"].replace("-", "_"), "files": w.get("files", {}), "entry": w.get("entry", "main.incn"),
                               "kind": "witness", "cmds": [w.get("command", "check")]}))
        for i in range(runs):
            for c in cases + [w for _, w in wcases]:
                write_tree(os.path.join(scratch, "w%d" % i, "cases", c["name"]), c["files"])
        jobs = [(c, cmd, 0) for c in cases for cmd in c["cmds"]] + [(w, w["cmds"][0], rep) for _, w in wcases for rep in (0, 1)]
        results = {}
        with concurrent.futures.ThreadPoolExecutor(max_workers=12) as ex:
            for i, r in enumerate(ex.map(lambda i: run_slot(binary, scratch, jobs, i, stub), range(runs))):
                for (name, cmd, rep), v in r.items():
                    results[(name, cmd, i, rep)] = v

        # ---- oracle: all runs of one (case, command) must be byte-identical
        fails, known_seen, dist = [], {}, {}
        by_name = {c["name"]: c for c in cases}
        listed = {f["id"] for f in chk.findings if f.get("status") == "known"}
        for c in cases:
            for cmd in c["cmds"]:
                rs = [results[(c["name"], cmd, i, 0)] for i in range(runs)]
                ds = [digest(r) for r in rs]
                nd = len(set(ds))
                dist["%s/%s" % (c["kind"], cmd)] = dist.get("%s/%s" % (c["kind"], cmd), 0) + 1
                chk.count_case((c["name"], cmd, c["files"]), nontrivial=True)
                chk.evaluations += runs - 1
                if cmd == "emit-many":
                    bad = [r for r in rs if r["rc"] == 0 and "distinct outputs: 1\n" not in r["stdout"] + "\n"]
                    if bad:
                        fails.append({"case": c["name"], "command": cmd, "files": c["files"], "runs": runs,
                                      "why": "generating the same program 8 times in one process gives different Rust: " + bad[0]["stdout"][:600],
                                      "run_0": summarize(bad[0])})
                        continue
                if nd == 1:
                    continue
                cls, why = classify(c, cmd, rs)
                if cls and cls in listed:
                    known_seen.setdefault(cls, (c["name"], cmd, why, nd))
                    continue
                j = next(k for k in range(runs) if ds[k] != ds[0])
                fails.append({"case": c["name"], "command": cmd, "files": c["files"], "distinct_outputs": nd, "runs": runs,
                              "why": why + (" (class %s, not listed as known)" % cls if cls else ""),
                              "run_0": summarize(rs[0]), "run_%d" % j: summarize(rs[j]), "env_0": ENVS[0], "env_%d" % j: ENVS[j % len(ENVS)]})
        chk.coverage["distribution"] = dist
        chk.coverage["processes_per_input"] = runs
        chk.coverage["rule"] = ("each (program, command) is run in %d fresh processes with different cwd/HOME/LANG/TZ; a case is one (program, command); "
                                "distinct by program text + command; every case reaches the compiler (non-trivial)") % runs
        for c in cases[:4]:
            chk.sample("%s: %s" % (c["name"], list(c["files"].values())[-1][:120].replace("\n", "\\n")))

        # ---- tie 2: correspondence model <-> implementation
        observed = {}
        for c in cases:
            if c["kind"] == "crates":
                r = results[(c["name"], "build", 0, 0)]
                observed[c["name"]] = r["files"].get("Cargo.toml")
        corr_bad = []
        model_ok = vlib.coq_build(["C12/Model.vo"])[0]
        n_corr = 0
        if model_ok:
            terms, meta = model_terms(cases, observed)
            req = "From Coq Require Import ZArith List String.\nImport ListNotations.\nFrom Verif Require Import C15.Model C12.Model.\nOpen Scope Z_scope."
            vals = vlib.coq_eval(req, "list str * str * list str", "fun x => x", terms, tag="c12", shard=8)
            for c, v in zip(meta, vals):
                msgs, text, texts = [unz(x) for x in v[0]], unz(v[1]), [unz(x) for x in v[2]]
                for i in range(runs):
                    n_corr += 1
                    if c["kind"] in ("ctor", "trait"):
                        r = results[(c["name"], "check", i, 0)]
                        rx = RE_MISSING if c["kind"] == "ctor" else RE_TRAIT
                        real = [m.group(0) for m in rx.finditer(r["stderr"])]
                        ok = real == msgs  # the sites sort by name: exact order
                        if not ok:
                            corr_bad.append({"case": c["name"], "site": c["kind"], "model": msgs, "impl": real, "run": i})
                    elif c["kind"] == "fixtures":
                        r = results[(c["name"], "test", i, 0)]
                        real = ["  - " + x for x in re.findall(r"(?m)^  - (\w+):", r["stdout"])]
                        if real != msgs or texts != sorted(f for f, a in c["fixtures"] if a):
                            corr_bad.append({"case": c["name"], "site": "fixtures", "model": [msgs, texts], "impl": real, "run": i})
                    elif c["kind"] == "multi":
                        r = results[(c["name"], "build", i, 0)]
                        main = r["files"].get("src/main.rs", "")
                        real_top = "".join(l + "\n" for l in main.split("\n") if re.match(r"^mod \w+;$", l))
                        real_mods = [r["files"].get("src/" + "/".join(d) + "/mod.rs") for d in c["dirs"]]
                        if real_top != text or real_mods != texts:
                            corr_bad.append({"case": c["name"], "site": "generate_nested", "model": [text, texts], "impl": [real_top, real_mods], "run": i})
                    elif c["kind"] == "crates":
                        if i > 0:
                            continue
                        if observed.get(c["name"]) != text:
                            corr_bad.append({"case": c["name"], "site": "generate_cargo_toml", "model": text, "impl": observed.get(c["name"])})
            # hint site: sorted export list
            for c in cases:
                if c["kind"] == "hint":
                    want = ", ".join(sorted(c["exports"]))
                    for i in range(runs):
                        n_corr += 1
                        if want not in results[(c["name"], "check", i, 0)]["stderr"]:
                            corr_bad.append({"case": c["name"], "site": "hint", "model": want, "impl": results[(c["name"], "check", i, 0)]["stderr"][-400:]})
        else:
            res["tie_ok"] = False
            res["broken"].append({"what": "model", "message": "C12/Model.v does not build"})
        arms = {}

        def hit(a, n=1):
            arms[a] = arms.get(a, 0) + n
        for a in ("ctor_diag_of.has_default", "ctor_diag_of.provided", "ctor_diag_of.missing", "trait_diag_of.HasBody", "trait_diag_of.Implemented",
                  "trait_diag_of.Missing", "trait_diag_of.Mismatch", "emit_site.none", "emit_site.one", "emit_site.many", "ksort.0", "ksort.1", "ksort.many",
                  "pushes_of.dir_match", "pushes_of.no_match", "dedup_adj.duplicate", "dedup_adj.single", "top_level_site", "mod_rs_site",
                  "manifest.rust_dep.Some", "manifest.skip_already_added", "manifest.no_rust_dep", "manifest.serde", "manifest.tokio",
                  "fixture_listing_site", "autouse_site.true", "autouse_site.false", "hint_site", "memo_all(differential)", "collector_site.entry_filtered"):
            arms[a] = 0
        for c in (meta if model_ok else []):
            if c["kind"] == "ctor":
                miss = 0
                for f, d in c["fields"]:
                    if d:
                        hit("ctor_diag_of.has_default")
                    elif f in c["provided"]:
                        hit("ctor_diag_of.provided")
                    else:
                        hit("ctor_diag_of.missing")
                        miss += 1
                hit("emit_site.none" if miss == 0 else "emit_site.one" if miss == 1 else "emit_site.many")
                hit("ksort.many" if len(c["fields"]) > 1 else "ksort.%d" % len(c["fields"]))
            elif c["kind"] == "trait":
                for m, st in c["methods"]:
                    hit("trait_diag_of." + ["HasBody", "Implemented", "Missing", "Mismatch"][st])
                nd = sum(1 for _, st in c["methods"] if st >= 2)
                hit("emit_site.none" if nd == 0 else "emit_site.one" if nd == 1 else "emit_site.many")
            elif c["kind"] == "multi":
                hit("top_level_site")
                for d in c["dirs"]:
                    hit("mod_rs_site")
                    subs = [p[len(d)] for p in c["paths"] if len(p) > len(d) and tuple(p[:len(d)]) == tuple(d)]
                    hit("pushes_of.dir_match", len(subs))
                    hit("pushes_of.no_match", len(c["paths"]) - len(subs))
                    hit("dedup_adj.duplicate" if len(set(subs)) < len(subs) else "dedup_adj.single")
                tops = [p[0] for p in c["paths"]]
                hit("dedup_adj.duplicate" if len(set(tops)) < len(tops) else "dedup_adj.single")
            elif c["kind"] == "crates":
                n = len([x for x in c["crates"] if x not in FIXED])
                hit("manifest.rust_dep.Some", n)
                hit("manifest.skip_already_added", len(c["crates"]) - n)
                if n == 0:
                    hit("manifest.no_rust_dep")
                hit("ksort.many" if len(c["crates"]) > 1 else "ksort.%d" % len(c["crates"]))
                if c["serde"]:
                    hit("manifest.serde")
                if c["tokio"]:
                    hit("manifest.tokio")
            elif c["kind"] == "fixtures":
                hit("fixture_listing_site")
                hit("autouse_site.true", sum(1 for _, a in c["fixtures"] if a))
                hit("autouse_site.false", sum(1 for _, a in c["fixtures"] if not a))
        for c in cases:
            if c["kind"] == "hint":
                hit("hint_site")
            if "emit-many" in c["cmds"] and c["kind"] in ("stress", "chain"):
                hit("memo_all(differential)")
            if "collector" in c["cmds"]:
                hit("collector_site.entry_filtered")
        chk.coverage["model_arm_hits"] = arms
        zero = [a for a, n in arms.items() if n == 0]
        if zero and model_ok:
            chk.notes.append("GENERATOR BUG: model arms never reached: %s" % zero)
        chk.coverage["traces_validated_against_impl"] = n_corr
        chk.coverage["correspondence_mismatches"] = len(corr_bad)

        # ---- known findings: the witnesses ran in every process, twice
        for f, wc in wcases:
            cmd = wc["cmds"][0]
            rs = [results[(wc["name"], cmd, i, rep)] for i in range(runs) for rep in (0, 1)]
            if len({digest(r) for r in rs}) > 1:
                cls, why = classify(wc, cmd, rs)
                if cls == f["id"] and f.get("status") == "known":
                    chk.known(f["id"], "%s: %s" % (f["id"], f["summary"]))
                else:
                    fails.append({"case": wc["name"], "command": cmd, "files": wc["files"], "distinct_outputs": len({digest(r) for r in rs}),
                                  "why": ("the repaired defect %s is back: %s" % (f["id"], why)) if f.get("status") == "fixed"
                                  else "witness of %s varies, but not within its class: %s" % (f["id"], why),
                                  "run_0": summarize(rs[0])})
        chk.coverage["known_classes_seen_in_generated_cases"] = {k: {"case": v[0], "command": v[1], "distinct_outputs": v[3]} for k, v in known_seen.items()}
    finally:
        shutil.rmtree(scratch, ignore_errors=True)

    for f in fails[:20]:
        chk.violation("failing-input", f)
    if not fails:
        if corr_bad:
            chk.violation("correspondence-broken", {"theorem_or_tie": "C12 site models vs real output", "cases": corr_bad[:10]}, no_input=True)
        if problems:
            chk.violation("tie-broken", {"theorem_or_tie": "C12 source scan: hash-iteration sites vs model", "problems": problems[:20]}, no_input=True)
        if not res["proofs_ok"] or not res["tie_ok"]:
            chk.violation("proof-broken", {"theorem_or_tie": res["broken"]}, no_input=True)
    elif problems:
        chk.notes.append("scan problems: %s" % problems[:5])


def summarize(r):
    return {"rc": r["rc"], "stdout": r["stdout"][-1500:], "stderr": r["stderr"][-3000:],
            "files": {k: (v if k == "Cargo.toml" or len(v) < 1500 else hashlib.sha1(v.encode()).hexdigest()) for k, v in r["files"].items()}}


def replay(path):
    data = json.load(open(path))
    binary = vlib.build_harness("debug")
    scratch = os.path.join(vlib.BUILD, "c12-replay-%d" % os.getpid())
    stub = os.path.join(scratch, "stubbin")
    os.makedirs(stub, exist_ok=True)
    with open(os.path.join(stub, "cargo"), "w") as f:
        f.write("#!/bin/sh\nexit 0\n")
    os.chmod(os.path.join(stub, "cargo"), 0o755)
    rc = 0
    try:
        for v in data["violations"]:
            d = v["detail"]
            if "files" not in d:
                print(json.dumps(d, indent=1))
                continue
            c = {"name": d["case"], "files": d["files"], "entry": "." if any(k.startswith("test_") for k in d["files"]) else "main.incn"}
            for i in range(8):
                write_tree(os.path.join(scratch, "w%d" % i, "cases", c["name"]), c["files"])
            rs = [run_slot(binary, scratch, [(c, d["command"], 0)], i, stub)[(c["name"], d["command"], 0)] for i in range(8)]
            ds = [digest(r) for r in rs]
            print("case %s command %s: %d distinct outputs in 8 processes" % (c["name"], d["command"], len(set(ds))))
            for i in range(8):
                if ds[i] != ds[0] or i == 0:
                    print("--- run %d env %s" % (i, ENVS[i % len(ENVS)]))
                    print(json.dumps(summarize(rs[i]), indent=1)[:3000])
            if len(set(ds)) > 1:
                rc = 1
    finally:
        shutil.rmtree(scratch, ignore_errors=True)
    return rc
