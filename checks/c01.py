"""C01 — compiled programs behave exactly as the Incan source says (MiniIncan fragment).

proof:   coq/C01/Props.v over coq/Core/* (source semantics, lowering+emission model to MiniRust
         token trees, Rust grammar + semantics of the parsed terms, C04 specs for // and %).
tie:     (a) real parser vs the generator's tree (s-expressions), (b) emission model vs the real
         emitted Rust (token-normalised function bodies, library pipeline lex -> parse -> check ->
         IrCodegen), (c) Rust-side model (wrapping i64, helper models) vs the REAL compiled binary.
oracle:  Coq `Dynamic.run` (documented semantics) vs the REAL binary's stdout / exit status / panic
         line, many generated functions batched into one generated program built by the real
         `incan build` path.
Fragment (growth rule, DESIGN 7.3): int/bool expressions with all of + - * // % == != < <= > >= and or
not unary-, parentheses, variables; let/mut/plain/typed and compound assignment at any block depth;
if/elif/else; while; for-in-range (1-3 args); println; pass/break/continue; functions with int params."""
import json
import os
import re
import shutil
import subprocess
import time

import vlib

I64_MIN, I64_MAX = -2**63, 2**63 - 1
CONSTRUCTS = ["several functions per program (int params, int or None result)", "calls f(..) as assignment RHS / println argument / "
              "statement / return value, with positional, keyword (in and out of declaration order) and mixed call-free arguments",
              "return / return e (also early, in branches)", "int literal", "bool literal", "variable", "paren", "unary -", "not", "+ - * // %", "== != < <= > >=",
              "and or", "x = e (new / reassign, any depth)", "let", "mut", "typed binding", "compound += -= *= //= %=",
              "if/elif/else", "while", "for-in-range(1..3 args)", "println(int|bool)", "pass", "break", "continue",
              "def with int params"]

# ------------------------------------------------------------------------------------------------ trees
# expr: ("int", n) ("bool", b) ("var", k) ("paren", e) ("un", "neg"|"not", e) ("bin", op, l, r)
# stmt: ("assign", kind, k, ann, e) ("compound", op, k, e) ("if", c, th, [(c, b)...], el|None) ("while", c, b)
#       ("for", k, [args], b) ("print", e) ("pass",) ("break",) ("continue",)

ARITH = ["+", "-", "*", "//", "%"]
CMP = ["==", "!=", "<", "<=", ">", ">="]
LEVEL = {"or": 1, "and": 2, "not": 3, "==": 4, "!=": 4, "<": 4, "<=": 4, ">": 4, ">=": 4, "+": 6, "-": 6,
         "*": 7, "//": 7, "%": 7, "neg": 9}
COQ_BIN = {"+": "OpAdd", "-": "OpSub", "*": "OpMul", "//": "OpFloorDiv", "%": "OpMod", "==": "OpEq", "!=": "OpNe",
           "<": "OpLt", "<=": "OpLe", ">": "OpGt", ">=": "OpGe", "and": "OpAnd", "or": "OpOr"}
COQ_COP = {"+": "CAdd", "-": "CSub", "*": "CMul", "//": "CFloorDiv", "%": "CMod"}
COQ_KIND = {"inferred": "BInferred", "let": "BLet", "mut": "BMut"}


def level(e):
    if e[0] == "un":
        return LEVEL[e[1]]
    if e[0] == "bin":
        return LEVEL[e[1]]
    return 10


def parenthesize(e, rng, extra=0.12):
    """Insert the ("paren", .) nodes the Incan grammar needs to read the tree back (plus random redundant
    ones): the result IS the source tree (Expr::Paren nodes included)."""
    def wrap(c, need):
        c2 = parenthesize(c, rng, extra)
        if level(c2) < need or rng.random() < extra:
            return ("paren", c2)
        return c2
    k = e[0]
    if k == "paren":
        return ("paren", parenthesize(e[1], rng, extra))
    if k == "un":
        return ("un", e[1], wrap(e[2], LEVEL[e[1]]))
    if k == "bin":
        lv = LEVEL[e[1]]
        rneed = {1: 2, 2: 3, 4: 6, 6: 7, 7: 9}[lv]
        return ("bin", e[1], wrap(e[2], lv), wrap(e[3], rneed))
    return e


RUST_LEVEL = {"or": 5, "and": 6, "==": 7, "!=": 7, "<": 7, "<=": 7, ">": 7, ">=": 7, "+": 11, "-": 11, "*": 12}


def rust_level(e):
    if e[0] == "paren":
        return rust_level(e[1])
    if e[0] == "un":
        return 14
    if e[0] == "bin" and e[1] in RUST_LEVEL:
        return RUST_LEVEL[e[1]]
    return 15          # leaves and helper calls (// and %)


def leaves(e):
    if e[0] in ("int", "bool", "var"):
        return [e]
    if e[0] == "paren":
        return leaves(e[1])
    if e[0] == "un":
        return leaves(e[2])
    return leaves(e[2]) + leaves(e[3])


def etype(e, var_ty):
    k = e[0]
    if k == "int":
        return "int"
    if k == "bool":
        return "bool"
    if k == "var":
        return var_ty(e[1])
    if k == "paren":
        return etype(e[1], var_ty)
    if k == "un":
        return "int" if e[1] == "neg" else "bool"
    return "int" if e[1] in ARITH else "bool"


def make_safe(e, rng, var_ty):
    """Rewrite a tree so that Rust's grammar reads the spliced tokens back as the same tree (no operand binds looser
    than its context, `not`/unary minus only on atoms): the function is then outside Known_C01_grouping."""
    def leafify(x):
        want = etype(x, var_ty)
        ls = [l for l in leaves(x) if etype(l, var_ty) == want]
        vs = [l for l in ls if l[0] == "var"]
        if not ls:
            return ("bool", rng.random() < 0.5) if want == "bool" else ("int", rng.randint(0, 9))
        return rng.choice(vs or ls)
    k = e[0]
    if k == "paren":
        return ("paren", make_safe(e[1], rng, var_ty))
    if k == "un":
        c = make_safe(e[2], rng, var_ty)
        if rust_level(c) < 14:
            c = leafify(c)
        return ("un", e[1], c)
    if k == "bin":
        l, r = make_safe(e[2], rng, var_ty), make_safe(e[3], rng, var_ty)
        if e[1] in RUST_LEVEL:
            lv = RUST_LEVEL[e[1]]
            if rust_level(l) < lv or (lv == 7 and rust_level(l) <= lv):
                l = leafify(l)
            if rust_level(r) <= lv:
                r = leafify(r)
        return ("bin", e[1], l, r)
    return e


def src_expr(e):
    k = e[0]
    if k == "int":
        return str(e[1])
    if k == "bool":
        return "true" if e[1] else "false"
    if k == "var":
        return "v%d" % e[1]
    if k == "paren":
        return "(" + src_expr(e[1]) + ")"
    if k == "un":
        s = src_expr(e[2])
        if e[1] == "not":
            return "not " + s
        return "-" + (" " + s if s.startswith("-") else s)
    return "%s %s %s" % (src_expr(e[2]), e[1], src_expr(e[3]))


def sexp_expr(e):
    k = e[0]
    if k == "int":
        return "(i %d)" % e[1]
    if k == "bool":
        return "(b %s)" % ("true" if e[1] else "false")
    if k == "var":
        return "(v v%d)" % e[1]
    if k == "paren":
        return "(p %s)" % sexp_expr(e[1])
    if k == "un":
        return "(u %s %s)" % (e[1], sexp_expr(e[2]))
    return "(o %s %s %s)" % (e[1], sexp_expr(e[2]), sexp_expr(e[3]))


def coq_expr(e):
    k = e[0]
    if k == "int":
        return "(EInt %s)" % vlib.zlit(e[1])
    if k == "bool":
        return "(EBool %s)" % ("true" if e[1] else "false")
    if k == "var":
        return "(EVar %d)" % e[1]
    if k == "paren":
        return "(EParen %s)" % coq_expr(e[1])
    if k == "un":
        return "(EUn %s %s)" % ("UNeg" if e[1] == "neg" else "UNot", coq_expr(e[2]))
    return "(EBin %s %s %s)" % (COQ_BIN[e[1]], coq_expr(e[2]), coq_expr(e[3]))


def src_call(c, base):
    args = [src_expr(a) for a in c[2]] + ["v%d=%s" % (p, src_expr(a)) for p, a in c[3]]
    return "f%d(%s)" % (base + c[1], ", ".join(args))


def src_c(c, base):
    return src_call(c, base) if c[0] == "call" else src_expr(c)


def sexp_c(c, base):
    if c[0] != "call":
        return sexp_expr(c)
    args = [sexp_expr(a) for a in c[2]] + ["(named v%d %s)" % (p, sexp_expr(a)) for p, a in c[3]]
    return "(c (v f%d)%s)" % (base + c[1], "".join(" " + a for a in args))


def coq_c(c, base):
    if c[0] != "call":
        return "(CPure %s)" % coq_expr(c)
    return "(CCall %d [%s] [%s])" % (base + c[1], "; ".join(coq_expr(a) for a in c[2]),
                                     "; ".join("(%d, %s)" % (p, coq_expr(a)) for p, a in c[3]))


def src_block(b, ind, base=0):
    out = []
    pad = "    " * ind
    for s in b:
        k = s[0]
        if k == "cassign":
            _, kind, x, ann, c = s
            pre = {"inferred": "", "let": "let ", "mut": "mut "}[kind]
            out.append("%s%sv%d%s = %s" % (pad, pre, x, (": " + ann) if ann else "", src_call(c, base)))
        elif k == "cprint":
            out.append("%sprintln(%s)" % (pad, src_call(s[1], base)))
        elif k == "cexpr":
            out.append(pad + src_call(s[1], base))
        elif k == "ret":
            out.append(pad + ("return" if s[1] is None else "return " + src_c(s[1], base)))
        elif k == "assign":
            _, kind, x, ann, e = s
            pre = {"inferred": "", "let": "let ", "mut": "mut "}[kind]
            out.append("%s%sv%d%s = %s" % (pad, pre, x, (": " + ann) if ann else "", src_expr(e)))
        elif k == "compound":
            out.append("%sv%d %s= %s" % (pad, s[2], s[1], src_expr(s[3])))
        elif k == "if":
            out.append("%sif %s:" % (pad, src_expr(s[1])))
            out += src_block(s[2], ind + 1, base)
            for c, b2 in s[3]:
                out.append("%selif %s:" % (pad, src_expr(c)))
                out += src_block(b2, ind + 1, base)
            if s[4] is not None:
                out.append("%selse:" % pad)
                out += src_block(s[4], ind + 1, base)
        elif k == "while":
            out.append("%swhile %s:" % (pad, src_expr(s[1])))
            out += src_block(s[2], ind + 1, base)
        elif k == "for":
            out.append("%sfor v%d in range(%s):" % (pad, s[1], ", ".join(src_expr(a) for a in s[2])))
            out += src_block(s[3], ind + 1, base)
        elif k == "print":
            out.append("%sprintln(%s)" % (pad, src_expr(s[1])))
        else:
            out.append(pad + k)
    return out


def sexp_block(b, base=0):
    return "(" + " ".join(sexp_stmt(s, base) for s in b) + ")"


def sexp_stmt(s, base=0):
    k = s[0]
    if k == "cassign":
        return "(= %s v%d %s %s)" % (s[1], s[2], s[3] or "_", sexp_c(s[4], base))
    if k == "cprint":
        return "(e (c (v println) %s))" % sexp_c(s[1], base)
    if k == "cexpr":
        return "(e %s)" % sexp_c(s[1], base)
    if k == "ret":
        return "(ret)" if s[1] is None else "(ret %s)" % sexp_c(s[1], base)
    if k == "assign":
        return "(= %s v%d %s %s)" % (s[1], s[2], s[3] or "_", sexp_expr(s[4]))
    if k == "compound":
        return "(op= %s v%d %s)" % (s[1], s[2], sexp_expr(s[3]))
    if k == "if":
        elifs = " ".join("(elif %s %s)" % (sexp_expr(c), sexp_block(b, base)) for c, b in s[3])
        el = "(else %s)" % sexp_block(s[4], base) if s[4] is not None else "_"
        return "(if %s %s (%s) %s)" % (sexp_expr(s[1]), sexp_block(s[2], base), elifs, el)
    if k == "while":
        return "(while %s %s)" % (sexp_expr(s[1]), sexp_block(s[2], base))
    if k == "for":
        return "(for v%d (c (v range) %s) %s)" % (s[1], " ".join(sexp_expr(a) for a in s[2]), sexp_block(s[3], base))
    if k == "print":
        return "(e (c (v println) %s))" % sexp_expr(s[1])
    return k


def coq_block(b, base=0):
    return "(blk [" + "; ".join(coq_stmt(s, base) for s in b) + "])"


def coq_stmt(s, base=0):
    k = s[0]
    if k in ("assign", "cassign"):
        ann = {None: "None", "int": "(Some TyInt)", "bool": "(Some TyBool)"}[s[3]]
        return "SAssign %s %d %s %s" % (COQ_KIND[s[1]], s[2], ann, coq_c(s[4], base))
    if k == "cprint":
        return "SPrint %s" % coq_c(s[1], base)
    if k == "cexpr":
        return "SExpr %s" % coq_c(s[1], base)
    if k == "ret":
        return "SReturn None" if s[1] is None else "SReturn (Some %s)" % coq_c(s[1], base)
    if k == "compound":
        return "SCompound %s %d %s" % (COQ_COP[s[1]], s[2], coq_expr(s[3]))
    if k == "if":
        el = "ENone" if s[4] is None else "(EElse %s)" % coq_block(s[4], base)
        for c, b in reversed(s[3]):
            el = "(EElif %s %s %s)" % (coq_expr(c), coq_block(b, base), el)
        return "SIf %s %s %s" % (coq_expr(s[1]), coq_block(s[2], base), el)
    if k == "while":
        return "SWhile %s %s" % (coq_expr(s[1]), coq_block(s[2], base))
    if k == "for":
        a = s[2]
        r = ["(R1 %s)", "(R2 %s %s)", "(R3 %s %s %s)"][len(a) - 1] % tuple(coq_expr(x) for x in a)
        return "SFor %d %s %s" % (s[1], r, coq_block(s[3], base))
    if k == "print":
        return "SPrint (CPure %s)" % coq_expr(s[1])
    return {"pass": "SPass", "break": "SBreak", "continue": "SContinue"}[k]


class Case:
    """one generated program: an entry function (local id 0) + helper functions (local ids 1..) it may call, and the
    arguments the entry function is called with.  In generated source function <k> of the case placed at `name` = "t<i>"
    is spelled f<10*i+k>."""

    def __init__(self, params, args, body, origin="gen", helpers=None):
        self.params, self.args, self.body, self.origin = params, args, body, origin
        self.helpers = helpers or []          # [(local id, params, returns_int, body)]

    @staticmethod
    def base(name):
        return 10 * int(name[1:])

    def functions(self):
        return [(k, ps, ret, b) for k, ps, ret, b in self.helpers] + [(0, self.params, False, self.body)]

    def source(self, name):
        base, out = self.base(name), []
        for k, ps, ret, b in self.functions():
            sig = ", ".join("v%d: int" % p for p in ps)
            out.append("def f%d(%s) -> %s:\n%s\n" % (base + k, sig, "int" if ret else "None", "\n".join(src_block(b, 1, base))))
        return "\n".join(out)

    def call(self, name):
        return "f%d(%s)" % (self.base(name), ", ".join(str(a) for a in self.args))

    def sexps(self, name="t0"):
        base = self.base(name)
        return {"f%d" % (base + k): "(fn (%s) %s %s)" % (" ".join("v%d:int" % p for p in ps), "int" if ret else "None", sexp_block(b, base))
                for k, ps, ret, b in self.functions()}

    def fn_names(self, name="t0"):
        return ["f%d" % (self.base(name) + k) for k, _, _, _ in self.functions()]

    def coq(self):
        fns = "; ".join("{| fname := %d; fparams := %s; fret := %s; fbody := %s |}" % (k, vlib.zlist(ps), "true" if ret else "false", coq_block(b))
                        for k, ps, ret, b in self.functions())
        return "{| cprog := [%s]; centry := 0; args := %s |}" % (fns, vlib.zlist(self.args))

    def key(self):
        return self.source("t0") + self.call("t0")


# ------------------------------------------------------------------------------------------------ generator

class Gen:
    """Generates functions that satisfy the documented static rules (scopes_and_name_resolution.md,
    numeric_semantics.md) AND that the current checker accepts (it tracks the checker's view of plain
    assignment: `lookup_local`, see DESIGN 12 nested-reassign), so that a generated function is expected to
    build and run."""

    def __init__(self, rng, anchor_p=0.92, paren_extra=0.12):
        self.rng = rng
        self.anchor_p = anchor_p
        self.paren_extra = paren_extra
        self.safe = False
        self.callable = []

    # scopes: list of dicts name -> {"ty","mut","anch"}; shadows: list of sets (checker-only shadow bindings)
    def visible(self, k):
        for sc in reversed(self.scopes):
            if k in sc:
                return sc[k]
        return None

    def vars_of(self, ty, need_mut=False, need_anch=False):
        seen, out = set(), []
        for sc in reversed(self.scopes):
            for k, v in sc.items():
                if k in seen:
                    continue
                seen.add(k)
                if v["ty"] == ty and (v["mut"] or not need_mut) and (v["anch"] or not need_anch):
                    out.append(k)
        return out

    def int_lit(self):
        r = self.rng.random()
        if r < 0.8:
            return ("int", self.rng.randint(0, 12))
        return ("int", self.rng.randint(13, 1000))

    def big_leaf(self):
        """a large literal combined with a parameter: never a closed (constant-foldable) subtree"""
        ps = [k for k, v in self.scopes[0].items() if v["ty"] == "int"]
        big = ("int", self.rng.choice([2**31 - 1, 2**31, 2**32 + 5, 10**12, 2**53 + 1, 2**62, 2**63 - 1, 2**63 - 2, 3037000500]))
        if not ps or self.visible(ps[0]) is not self.scopes[0][ps[0]]:
            return self.int_lit()
        v = ("var", self.rng.choice([p for p in ps if self.visible(p) is self.scopes[0][p]]))
        op = self.rng.choice(["+", "-", "*", "//", "%"])
        return ("bin", op, v, big) if self.rng.random() < 0.6 else ("bin", op, big, v)

    def int_expr(self, d):
        rng = self.rng
        vs = self.vars_of("int")
        r = rng.random()
        if d <= 0 or r < 0.30:
            if vs and rng.random() < 0.6:
                return ("var", rng.choice(vs))
            if rng.random() < 0.06:
                return self.big_leaf()
            return self.int_lit()
        if r < 0.42:
            return ("un", "neg", self.int_expr(d - 1))
        op = rng.choice(ARITH)
        left = self.int_expr(d - 1)
        if op in ("//", "%") and rng.random() < 0.7:
            right = ("int", rng.randint(1, 9))
            if rng.random() < 0.4:
                right = ("un", "neg", right)
        else:
            right = self.int_expr(d - 1)
        return ("bin", op, left, right)

    def bool_expr(self, d):
        rng = self.rng
        vs = self.vars_of("bool")
        r = rng.random()
        if d <= 0 or r < 0.15:
            if vs and rng.random() < 0.6:
                return ("var", rng.choice(vs))
            return ("bool", rng.random() < 0.5)
        if r < 0.30:
            return ("un", "not", self.bool_expr(d - 1))
        if r < 0.55:
            return ("bin", rng.choice(["and", "or"]), self.bool_expr(d - 1), self.bool_expr(d - 1))
        if r < 0.63:
            return ("bin", rng.choice(CMP if rng.random() < 0.3 else ["==", "!="]), self.bool_expr(d - 1), self.bool_expr(d - 1))
        l, rr = self.int_expr(d - 1), self.int_expr(d - 1)
        if rng.random() < self.anchor_p and not (self.anch(l) or self.anch(rr)):
            l = self.anchored(l)
        return ("bin", rng.choice(CMP), l, rr)

    # mirror of C01.Model.anch on the source tree (// and % are helper calls; parens vanish)
    def anch(self, e):
        k = e[0]
        if k == "int":
            return False
        if k == "var":
            v = self.visible(e[1])
            return True if v is None else v["anch"]
        if k == "paren":
            return self.anch(e[1])
        if k == "un":
            return self.anch(e[2])
        if k == "bin":
            if e[1] in ("+", "-", "*"):
                return self.anch(e[2]) or self.anch(e[3])
            return True
        return True

    def anchored(self, e):
        """make the integer chain of e touch an i64 thing (a parameter, a loop variable, a helper result)"""
        av = self.vars_of("int", need_anch=True)
        if av:
            v = ("var", self.rng.choice(av))
            op = self.rng.choice(["+", "-", "*"])
            return ("bin", op, v, e) if self.rng.random() < 0.5 else ("bin", op, e, v)
        return ("bin", "+", ("bin", "%", e, ("int", self.rng.randint(2, 9))), e)

    def top_int(self, d):
        e = self.int_expr(d)
        if self.rng.random() < self.anchor_p and not self.anch(e):
            e = self.anchored(e)
        return e

    def fresh(self, allow_shadow):
        pool = list(range(0, 14))
        self.rng.shuffle(pool)
        for k in pool:
            if k in self.scopes[-1] or k in self.shadows[-1]:
                continue
            if self.visible(k) is None:
                return k
            if allow_shadow:
                return k
        return None

    def fin(self, e):
        if self.safe:
            e = make_safe(e, self.rng, lambda k: (self.visible(k) or {"ty": "int"})["ty"])
        return parenthesize(e, self.rng, self.paren_extra)

    def block(self, depth, in_loop, n, pre=None):
        self.scopes.append(dict(pre or {}))
        self.shadows.append(set())
        out = []
        for _ in range(n):
            out += self.stmt(depth, in_loop)
        if not out:
            out = [("pass",)]
        self.scopes.pop()
        self.shadows.pop()
        return out

    def stmt(self, depth, in_loop):
        rng = self.rng
        if self.callable and rng.random() < 0.2:
            return self.call_stmt()
        r = rng.random()
        if r < 0.22:      # new binding
            kind = rng.choice(["inferred", "let", "mut", "mut"])
            k = self.fresh(allow_shadow=(kind != "inferred"))
            if k is None:
                return [("pass",)]
            ty = "int" if rng.random() < 0.75 else "bool"
            e = self.top_int(2) if ty == "int" else self.bool_expr(2)
            ann = ty if rng.random() < 0.15 else None
            a = self.anch(e)
            st = ("assign", kind, k, ann, self.fin(e))
            self.scopes[-1][k] = {"ty": ty, "mut": kind == "mut", "anch": a}
            return [st]
        if r < 0.40:      # plain reassignment (possibly of an outer variable) or compound assignment
            cands = []
            for ty in ("int", "bool"):
                for k in self.vars_of(ty, need_mut=True):
                    cands.append((k, ty))
            if not cands:
                return [("print", self.fin(self.top_int(2)))]
            k, ty = rng.choice(cands)
            # scope index of the nearest doc binding
            idx = max(i for i, sc in enumerate(self.scopes) if k in sc)
            shadowed_here = k in self.shadows[-1]
            shadowed_between = any(k in self.shadows[i] for i in range(idx, len(self.scopes)))
            if ty == "int" and rng.random() < 0.45 and not shadowed_between:
                op = rng.choice(["+", "-", "*", "//", "%"])
                e = self.int_expr(2)
                if op in ("//", "%") and rng.random() < 0.7:
                    e = ("int", rng.randint(1, 7))
                return [("compound", op, k, self.fin(e))]
            if shadowed_here:
                return [("print", self.fin(("var", k)))]
            e = self.int_expr(2) if ty == "int" else self.bool_expr(2)
            if idx != len(self.scopes) - 1:
                self.shadows[-1].add(k)       # the checker now sees a block-local immutable `k`
            return [("assign", "inferred", k, None, self.fin(e))]
        if r < 0.58:
            e = self.top_int(3) if rng.random() < 0.6 else self.bool_expr(3)
            return [("print", self.fin(e))]
        if r < 0.72 and depth > 0:
            c = self.fin(self.bool_expr(2))
            th = self.block(depth - 1, in_loop, rng.randint(1, 2))
            elifs = []
            while rng.random() < 0.3 and len(elifs) < 2:
                elifs.append((self.fin(self.bool_expr(2)), self.block(depth - 1, in_loop, rng.randint(1, 2))))
            el = self.block(depth - 1, in_loop, rng.randint(1, 2)) if rng.random() < 0.5 else None
            return [("if", c, th, elifs, el)]
        if r < 0.80 and depth > 0:
            return self.while_loop(depth)
        if r < 0.90 and depth > 0:
            k = self.fresh(allow_shadow=False)
            if k is None:
                return [("pass",)]
            n = rng.choice([1, 1, 2, 2, 3])
            args = []
            for i in range(n):
                if i == 2:
                    a = ("int", rng.choice([1, 2, 3, 1, 2, 0])) if rng.random() < 0.9 else self.int_expr(1)
                    if rng.random() < 0.35:
                        a = ("un", "neg", a)
                elif rng.random() < 0.7:
                    a = ("int", rng.randint(0, 6))
                    if rng.random() < 0.2:
                        a = ("un", "neg", a)
                else:
                    a = ("bin", "%", self.int_expr(1), ("int", rng.randint(2, 6)))
                args.append(self.fin(a))
            body = self.block(depth - 1, True, rng.randint(1, 2), pre={k: {"ty": "int", "mut": False, "anch": True}})
            return [("for", k, args, body)]
        if in_loop and r < 0.94:
            return [("if", self.fin(self.bool_expr(1)), [(rng.choice(["break", "continue"]),)], [], None)]
        if r < 0.96:
            return [("pass",)]
        e = self.top_int(3) if rng.random() < 0.5 else self.bool_expr(3)
        return [("print", self.fin(e))]

    def while_loop(self, depth):
        """terminating by construction: a dedicated counter decremented first thing in the body"""
        rng = self.rng
        k = self.fresh(allow_shadow=True)
        if k is None:
            return [("pass",)]
        init = ("bin", "%", self.int_expr(1), ("int", rng.randint(2, 5)))
        self.scopes[-1][k] = {"ty": "int", "mut": True, "anch": True}
        pre = [("assign", "mut", k, None, self.fin(init))]
        dec = ("compound", "-", k, ("int", 1))
        if rng.random() < 0.25:
            cond = ("bool", True)
            guard = [("if", ("bin", "<=", ("var", k), ("int", 0)), [("break",)], [], None)]
            body = guard + [dec] + self.block_inner(depth - 1, rng.randint(1, 2), k)
        else:
            cond = ("bin", ">", ("var", k), ("int", 0))
            if rng.random() < 0.3:
                cond = ("bin", "and", cond, self.bool_expr(1))
            body = [dec] + self.block_inner(depth - 1, rng.randint(1, 2), k)
        return pre + [("while", self.fin(cond), body)]

    def block_inner(self, depth, n, counter):
        # the counter must not be reassigned by the body: hide its mutability while generating it
        ent = None
        for sc in reversed(self.scopes):
            if counter in sc:
                ent = sc[counter]
                break
        old = ent["mut"]
        ent["mut"] = False
        b = self.block(depth, True, n)
        ent["mut"] = old
        return b

    # ---- calls
    def call_expr(self):
        rng = self.rng
        k, ps, ret, _ = rng.choice(self.callable)
        vals = {}
        for p in ps:
            if rng.random() < 0.6:
                vs = self.vars_of("int")
                vals[p] = ("var", rng.choice(vs)) if vs and rng.random() < 0.6 else ("int", rng.randint(0, 12))
            else:
                vals[p] = self.fin(self.int_expr(1))
        mode = rng.choice(["pos", "pos", "kw", "kwrev", "mixed"]) if ps else "pos"
        if mode == "pos":
            return ("call", k, [vals[p] for p in ps], []), ret
        if mode == "kw":
            return ("call", k, [], [(p, vals[p]) for p in ps]), ret
        if mode == "kwrev":
            order = list(reversed(ps))
            return ("call", k, [], [(p, vals[p]) for p in order]), ret
        rest = list(ps[1:])
        rng.shuffle(rest)
        return ("call", k, [vals[ps[0]]], [(p, vals[p]) for p in rest]), ret

    def call_stmt(self):
        rng = self.rng
        c, ret = self.call_expr()
        if not ret:
            return [("cexpr", c)]
        r = rng.random()
        if r < 0.5:
            kind = rng.choice(["inferred", "let", "mut"])
            x = self.fresh(allow_shadow=(kind != "inferred"))
            if x is not None:
                self.scopes[-1][x] = {"ty": "int", "mut": kind == "mut", "anch": True}
                return [("cassign", kind, x, "int" if rng.random() < 0.1 else None, c)]
        if r < 0.9:
            return [("cprint", c)]
        return [("cexpr", c)]

    def gen_function(self, params, ret, n):
        rng = self.rng
        self.scopes = [{p: {"ty": "int", "mut": False, "anch": True} for p in params}]
        self.shadows = [set()]
        body = []
        for _ in range(n):
            body += self.stmt(2, False)
        if ret is None:
            return body
        if rng.random() < 0.4:
            early = ("ret", self.fin(self.top_int(1))) if ret else ("ret", None)
            body.append(("if", self.fin(self.bool_expr(1)), [early], [], None))
            body += self.stmt(1, False)
        if ret:
            if rng.random() < 0.25:
                body.append(("if", self.fin(self.bool_expr(1)), [("ret", self.fin(self.top_int(1)))], [], [("ret", self.fin(self.top_int(1)))]))
            else:
                body.append(("ret", self.fin(self.top_int(2))))
        return body

    def case(self):
        rng = self.rng
        self.safe = rng.random() < 0.6
        helpers = []
        self.callable = []
        for k in range(1, 1 + rng.choice([0, 0, 1, 2, 2])):
            ps = list(range(rng.choice([0, 1, 2, 2, 3])))
            ret = rng.random() < 0.7
            b = self.gen_function(ps, ret, rng.randint(1, 3))
            helpers.append((k, ps, ret, b))
            self.callable.append((k, ps, ret, b))
        np_ = rng.choice([0, 1, 2, 2, 2, 3])
        params = list(range(np_))
        body = self.gen_function(params, None, rng.randint(2, 5))
        if rng.random() < 0.15:
            body.append(("if", self.fin(self.bool_expr(1)), [("ret", None)], [], None))
            body += self.stmt(1, False)
        args = []
        for _ in params:
            r = rng.random()
            if r < 0.7:
                args.append(rng.randint(-9, 9))
            elif r < 0.9:
                args.append(rng.randint(-1000, 1000))
            else:
                args.append(rng.choice([I64_MAX, I64_MIN + 1, 2**31, -2**31, 2**62, 0]))
        return Case(params, args, body, helpers=helpers)


def expr_case(e, params=(), args=()):
    return Case(list(params), list(args), [("print", e)], origin="corpus")


def corpus():
    """fixed inputs that always run first: the witnesses of the known findings and regression shapes"""
    i = lambda n: ("int", n)
    v = lambda k: ("var", k)
    b = lambda o, l, r: ("bin", o, l, r)
    p = lambda e: ("paren", e)
    cs = [
        expr_case(b("*", p(b("+", i(1), i(2))), p(b("-", i(3), i(4))))),                       # grouping witness
        expr_case(("un", "not", b("==", i(1), i(2)))),                                         # not over ==
        expr_case(("un", "neg", p(b("+", v(0), i(2)))), [0], [5]),
        expr_case(b("-", v(0), p(b("-", v(1), i(4)))), [0, 1], [10, 3]),
        expr_case(("un", "not", p(b("and", ("bool", True), ("bool", False))))),
        expr_case(b("and", p(b("or", ("bool", True), ("bool", False))), ("bool", False))),
        expr_case(b("*", b("%", v(0), i(3)), p(b("//", v(1), ("un", "neg", i(2))))), [0, 1], [-7, 7]),
        Case([], [], [("assign", "mut", 1, None, i(2000000000)), ("assign", "inferred", 1, None, b("*", v(1), i(2))),
                      ("print", v(1))], origin="corpus"),                                      # int-fallback witness
        Case([0], [3], [("assign", "mut", 1, None, b("+", v(0), i(1))),
                        ("if", b(">", v(1), i(0)), [("assign", "inferred", 1, None, b("*", v(1), i(10)))], [], None),
                        ("print", v(1))], origin="corpus"),                                    # documented outer reassign
        Case([0], [0], [("print", b("//", i(7), v(0)))], origin="corpus"),                      # ZeroDivisionError
        Case([0], [0], [("for", 1, [i(0), i(3), v(0)], [("print", v(1))])], origin="corpus"),   # ValueError step 0
        Case([0], [-7], [("print", b("//", v(0), i(2))), ("print", b("%", v(0), i(3))), ("print", b("%", i(7), ("un", "neg", i(3))))],
             origin="corpus"),
        # calls: keyword arguments out of declaration order, mixed, early return, a None function
        Case([0], [3], [("cprint", ("call", 1, [], [(1, v(0)), (0, i(2))])), ("cassign", "let", 5, None, ("call", 1, [i(7)], [(1, i(4))])),
                        ("print", v(5)), ("cexpr", ("call", 2, [v(0)], [])), ("cprint", ("call", 1, [i(1), i(2)], []))],
             origin="corpus",
             helpers=[(1, [0, 1], True, [("if", b(">", v(1), i(3)), [("ret", b("-", v(1), v(0)))], [], None), ("ret", b("-", b("*", v(0), i(10)), v(1)))]),
                      (2, [0], False, [("print", b("+", v(0), i(100))), ("if", b(">", v(0), i(0)), [("ret", None)], [], None), ("print", i(0))])]),
    ]
    return cs


# ------------------------------------------------------------------------------------------------ real tokens -> codes

PATHS = {("incan_stdlib", "::", "num", "::", "py_mod_i64"): 10, ("incan_stdlib", "::", "num", "::", "py_mod"): 11,
         ("incan_stdlib", "::", "num", "::", "py_floor_div_i64"): 12, ("incan_stdlib", "::", "num", "::", "py_floor_div"): 13,
         ("incan_stdlib", "::", "iter", "::", "range"): 15}
SIMPLE = {"true": [3], "false": [4], "+": [20], "-": [21], "*": [22], "==": [23], "!=": [24], "<": [25], "<=": [26],
          ">": [27], ">=": [28], "&&": [29], "||": [30], "!": [31], "let": [40], "mut": [41], "if": [42], "else": [43],
          "while": [44], "loop": [45], "for": [46], "in": [47], "break": [48], "continue": [49], "return": [50], "fn": [51], ";": [60], ",": [61],
          "=": [62], "println": [64], '"{}"': [65], "as": [66], "i64": [67], "(": [70], ")": [71], "{": [72], "}": [73]}
PUNCT2 = ["==", "!=", "<=", ">=", "&&", "||", "::", "->"]


def split_punct(t):
    if not t or t[0].isalnum() or t[0] in "_\"'" or t in SIMPLE or t in ("::", "->"):
        return [t]
    out, i = [], 0
    while i < len(t):
        if t[i:i + 2] in PUNCT2:
            out.append(t[i:i + 2])
            i += 2
        else:
            out.append(t[i])
            i += 1
    return out


def real_codes(tokens):
    toks = []
    for t in tokens:
        toks += split_punct(t)
    # prettyplease breaks long argument lists over lines and adds a trailing comma: `f(a, b, )`
    toks = [t for j, t in enumerate(toks) if not (t == "," and j + 1 < len(toks) and toks[j + 1] == ")")]
    out, i = [], 0
    while i < len(toks):
        t = toks[i]
        if t == "incan_stdlib":
            key = tuple(toks[i:i + 5])
            if key in PATHS:
                out.append(PATHS[key])
                i += 5
                continue
        if t == "!" and i > 0 and toks[i - 1] == "println":
            out.append(63)
        elif re.fullmatch(r"v\d+", t):
            out += [2, int(t[1:])]
        elif re.fullmatch(r"f\d+", t):
            out += [5, int(t[1:])]
        elif re.fullmatch(r"\d+", t):
            out += [1, int(t)]
        elif t in SIMPLE:
            out += SIMPLE[t]
        else:
            out += [-1, t]
        i += 1
    return out


def file_codes(fns, names):
    """codes of the emitted function items `fn f(p: i64, ..) [-> i64] { body }` in declaration order"""
    out = []
    for n in names:
        f = fns.get(n)
        if f is None:
            out += [-1, "missing fn " + n]
            continue
        sig = []
        for t in f["sig"]:
            sig += split_punct(t)
        close = len(sig) - 1 - sig[::-1].index(")") if ")" in sig else len(sig)
        params = [t for t in sig[:close] if re.fullmatch(r"v\d+", t)]
        out += [51, 5, int(n[1:]), 70]
        for j, p in enumerate(params):
            out += [2, int(p[1:]), 68, 67] + ([61] if j + 1 < len(params) else [])
        out.append(71)
        if "i64" in sig[close:]:
            out += [69, 67]
        out += [72] + real_codes(f["body"]) + [73]
    return out


# ------------------------------------------------------------------------------------------------ model

REQ = ("From Verif Require Import Base.I64 C04.Model Core.Syntax Core.Dynamic Core.Rust Core.Lower C01.Model.\n"
       "From Coq Require Import ZArith List. Import ListNotations. Open Scope Z_scope.")
MODEL_TYPE = "fcase"
STOPS = {0: "Done", 1: "ZeroDivisionError", 2: "ValueError(range step 0)", 3: "unspecified(overflow)", 4: "panic(other)",
         5: "out-of-fuel", 6: "stuck"}


def eval_model(cases, tag="c01"):
    res = vlib.coq_eval(REQ, MODEL_TYPE, "run_case default_fuel", [c.coq() for c in cases], shard=max(8, (len(cases) + 15) // 16), tag=tag)
    out = []
    for r in res:
        (src_lines, src_stop, rust, flags, codes) = r       # Coq prints left-nested pairs flat
        src = (src_lines, src_stop)
        out.append({"src": ([tuple(x) for x in src[0]], src[1]),
                    "status": rust[0], "rust": ([tuple(x) for x in rust[1][0]], rust[1][1]), "typed": rust[2],
                    "grouping": flags[0], "fallback": flags[1], "calls_wf": flags[2], "codes": list(codes)})
    return out


# ------------------------------------------------------------------------------------------------ real pipeline

def emit_real(binary, sources):
    text = "".join(s.replace("\n", "\\n") + "\n" for s in sources)
    out = vlib.run_harness(binary, ["run", "c01", "emit"], text, timeout=1200).split("\n")
    res = [json.loads(l) for l in out if l]
    if len(res) != len(sources):
        raise vlib.Infra("c01 emit: %d results for %d programs" % (len(res), len(sources)))
    return res


def gen_env():
    e = dict(os.environ)
    e["CARGO_TARGET_DIR"] = os.path.join(vlib.BUILD, "gen-target")
    e["CARGO_NET_OFFLINE"] = "true"
    return e


def scratch_dir(tag):
    d = os.path.join(vlib.BUILD, "%s-run-%d" % (tag, os.getpid()))
    shutil.rmtree(d, ignore_errors=True)
    os.makedirs(d)
    return d


def build_programs(binary, d, progs):
    """progs: list of (stem, source). Builds each with the real `incan build` path (sequentially: one shared
    cargo target dir). Returns {stem: (ok, message, binary_path)}."""
    for stem, src in progs:
        open(os.path.join(d, stem + ".incn"), "w").write(src)
    text = "".join("%s\t%s\n" % (d, stem) for stem, _ in progs)
    env = gen_env()
    t0 = time.time()
    p = subprocess.run([binary, "run", "c01", "build"], input=text, capture_output=True, text=True, env=env, timeout=3600)
    if p.returncode != 0:
        raise vlib.Infra("c01 build runner failed: " + p.stderr[-2000:])
    res = {}
    for l in p.stdout.split("\n"):
        if l.startswith("@@ "):
            parts = l.split(" ", 3)
            stem, ok = parts[1], parts[2] == "ok"
            res[stem] = (ok, (parts[3] if len(parts) > 3 else "").replace("\\n", "\n"), os.path.join(env["CARGO_TARGET_DIR"], "release", stem))
    vlib.log("[c01] built %d generated program(s) in %.1fs" % (len(progs), time.time() - t0))
    for stem, _ in progs:
        if stem not in res:
            raise vlib.Infra("c01 build runner: no verdict for " + stem)
        ok, msg, _ = res[stem]
        if not ok and ("could not resolve" in msg.lower() or "failed to get" in msg or "no space left" in msg.lower()
                       or "Blocking waiting" in msg and "error" not in msg):
            raise vlib.Infra("cargo infrastructure failure while building %s: %s" % (stem, msg[-1500:]))
    return res


def batch_source(names_cases):
    parts = [c.source(n) for n, c in names_cases]
    main = ["def main() -> None:"]
    for n, c in names_cases:
        main.append('    println("@@%s")' % n)
        main.append("    " + c.call(n))
    main.append('    println("@@end")')
    return "\n".join(parts) + "\n" + "\n".join(main) + "\n"


def parse_line(s):
    if s == "true":
        return (1, 1)
    if s == "false":
        return (1, 0)
    try:
        return (0, int(s))
    except ValueError:
        return (9, s)


def run_binary(path, names, timeout=60):
    """Returns {name: (lines, stop)} for the functions that started; stop in 0 Done / 1 ZeroDiv / 2 StepZero /
    4 other panic / 7 timeout / 8 other exit.  Every generated function terminates within milliseconds by construction
    (the model run finished within its fuel); a time-out is retried once with 10 minutes (machine load) before it counts."""
    rc = None
    for limit in (timeout, 600):
        try:
            p = subprocess.run([path], capture_output=True, text=True, timeout=limit)
            rc, out, err = p.returncode, p.stdout, p.stderr
            break
        except subprocess.TimeoutExpired as e:
            rc, out, err = "timeout", (e.stdout or b"").decode("utf-8", "replace") if isinstance(e.stdout, bytes) else (e.stdout or ""), ""
    res, cur = {}, None
    order = []
    for l in out.split("\n"):
        if l.startswith("@@"):
            cur = l[2:]
            if cur != "end":
                res[cur] = [[], 0]
                order.append(cur)
            continue
        if l == "" or cur is None or cur == "end":
            continue
        res[cur][0].append(parse_line(l))
    ended = out.rstrip("\n").endswith("@@end")
    if not (rc == 0 and ended) and order:
        last = order[-1]
        if rc == "timeout":
            res[last][1] = 7
        elif "ZeroDivisionError: float division by zero" in err:
            res[last][1] = 1
        elif "ValueError: range() arg 3 must not be zero" in err:
            res[last][1] = 2
        elif "panicked" in err:
            res[last][1] = 4
        else:
            res[last][1] = 8
    return {k: (v[0], v[1]) for k, v in res.items()}, (rc, err[-400:])


# ------------------------------------------------------------------------------------------------ the check

def load_findings(chk, prop):
    return {f["id"]: f for f in chk.findings if f.get("status") == "known"}


def describe(case, name="t0"):
    return case.source(name) + "# call: " + case.call(name)


def lint_culprits(msg, main_rs):
    """names of the functions in which rustc reported ONLY constant-overflow lint errors; None if the build failed for
    any other reason as well"""
    try:
        lines = open(main_rs).read().split("\n")
    except OSError:
        return None
    starts = [(i + 1, m.group(1)) for i, l in enumerate(lines) for m in [re.match(r"\s*fn (\w+)\(", l)] if m]
    bad = set()
    blocks = re.split(r"\n(?=error|warning)", msg)
    for b in blocks:
        if not b.startswith("error"):
            continue
        if b.startswith("error: could not compile") or b.startswith("error: aborting"):
            continue
        if "this arithmetic operation will overflow" not in b:
            return None
        m = re.search(r"--> src/main\.rs:(\d+):", b)
        if not m:
            return None
        ln = int(m.group(1))
        owner = None
        for st, name in starts:
            if st <= ln:
                owner = name
        if owner is None:
            return None
        bad.add(owner)
    return bad


def clean_gen_target(stems):
    base = os.path.join(vlib.BUILD, "gen-target", "release")
    for stem in stems:
        for sub, pat in (("", stem), ("", stem + ".d"), ("deps", stem + "-"), (".fingerprint", stem + "-")):
            dd = os.path.join(base, sub)
            if not os.path.isdir(dd):
                continue
            for f in os.listdir(dd):
                if (sub == "" and f == pat) or (sub != "" and f.startswith(pat)):
                    fp = os.path.join(dd, f)
                    shutil.rmtree(fp, ignore_errors=True) if os.path.isdir(fp) else os.remove(fp)


def pipeline(chk, binary, cases, known, n_batches, batch_size, n_panic, n_fallback=10):
    """ties + oracle for a list of cases. Returns (fails, corr_bad, stats)."""
    stats = {}
    model_ok = vlib.coq_build(["C01/Model.vo"])[0]
    model = eval_model(cases) if model_ok else None
    stats["model_ok"] = model_ok
    real = emit_real(binary, [c.source("t0") + "def main() -> None:\n    " + c.call("t0") + "\n" for c in cases])
    fails, corr_bad, rejected, dist = [], [], [], {}
    usable, suspects = [], []
    for i, c in enumerate(cases):
        r = real[i]
        if "panic" in r:
            fails.append({"case": describe(c), "why": "the compiler panicked: " + r["panic"], "stage": "front end / codegen"})
            continue
        if r.get("parse") != "ok":
            corr_bad.append({"case": describe(c), "tie": "generator/parser", "real": r.get("parse")})
            continue
        want = c.sexps()
        if {k: r["ast"].get(k) for k in want} != want:
            corr_bad.append({"case": describe(c), "tie": "parser tree (the real parser reads the text differently from the generator's tree)",
                             "real": {k: r["ast"].get(k) for k in want}, "generator": want})
            continue
        if r["check"]:
            rejected.append({"case": describe(c), "checker": r["check"][:2]})
            continue
        m = model[i] if model else None
        if r["gen"] != "ok":
            # the checker accepted, code generation failed: that is C02's failing input; here only the tie is judged
            if m and m["status"] == 0:
                corr_bad.append({"case": describe(c), "tie": "lowering/emission verdict", "real": r["gen"], "model": "ok"})
            continue
        if m:
            if m["status"] == 1:
                corr_bad.append({"case": describe(c), "tie": "lowering verdict", "real": "ok", "model": "lowering error"})
                continue
            rc = file_codes(r["fns"], c.fn_names())
            if rc != m["codes"]:
                k = next((j for j in range(min(len(rc), len(m["codes"]))) if rc[j] != m["codes"][j]), min(len(rc), len(m["codes"])))
                corr_bad.append({"case": describe(c), "tie": "emitted Rust tokens", "first_difference_at": k,
                                 "real": {k: " ".join(r["fns"].get(k, {}).get("body", [])) for k in c.fn_names()}, "real_codes": rc[max(0, k - 6):k + 6], "model_codes": m["codes"][max(0, k - 6):k + 6]})
                # the difference is explained on the real binary: does THIS function still behave as its source says?
                suspects.append(i)
                continue
        usable.append(i)
    stats["emit_text_compared"] = len(usable)
    stats["rejected"] = rejected
    vlib.log("[c01] %d functions: %d usable after parser/emission ties, %d tie mismatches, %d rejected by the checker"
             % (len(cases), len(usable), len(corr_bad), len(rejected)))

    observed, build_fail_known = {}, {}
    if model:
        runnable = [i for i in usable if model[i]["status"] == 0 and model[i]["typed"]]
        done = [i for i in runnable if model[i]["rust"][1] == 0 and model[i]["src"][1] in (0, 3) and not model[i]["fallback"]]
        done.sort(key=lambda i: (cases[i].origin != "corpus",))
        fb = [i for i in runnable if model[i]["rust"][1] == 0 and model[i]["src"][1] in (0, 3) and model[i]["fallback"]]
        fb.sort(key=lambda i: (cases[i].origin != "corpus",))
        pan = [i for i in runnable if model[i]["rust"][1] in (1, 2, 4) and not model[i]["fallback"]]
        pan.sort(key=lambda i: (cases[i].origin != "corpus",))
        progs, layout = [], {}
        tagp = "c01s%dp%d" % (chk.seed % 100000, os.getpid() % 100000)
        for b in range(n_batches):
            chunk = done[b * batch_size:(b + 1) * batch_size]
            if not chunk:
                break
            stem = "%sb%d" % (tagp, b)
            layout[stem] = [("t%d" % i, i) for i in chunk]
        if fb and n_fallback:
            layout[tagp + "f0"] = [("t%d" % i, i) for i in fb[:n_fallback]]
        sus = [i for i in suspects if model[i]["src"][1] == 0 and not model[i]["fallback"] and not model[i]["grouping"]][:60]
        if sus:
            layout[tagp + "m0"] = [("t%d" % i, i) for i in sus]
        for b, i in enumerate(pan[:n_panic]):
            layout["%sz%d" % (tagp, b)] = [("t%d" % i, i)]
        for stem, members in layout.items():
            progs.append((stem, batch_source([(n, cases[i]) for n, i in members])))
        d = scratch_dir("c01")
        try:
            built = build_programs(binary, d, progs)
            # rustc's deny-by-default lint `arithmetic_overflow` rejects functions in which it can fold an overflowing
            # constant computation (the documentation leaves overflow unspecified): drop exactly those functions, rebuild once
            retry = []
            for stem, src in list(progs):
                ok, msg, path = built[stem]
                if ok or "this arithmetic operation will overflow" not in msg:
                    continue
                bad_fns = lint_culprits(msg, os.path.join(d, "out_" + stem, "src", "main.rs"))
                if bad_fns is None:
                    continue
                bad_idx = {int(x[1:]) // 10 for x in bad_fns if re.fullmatch(r"f\d+", x)}
                keep = [(n, i) for n, i in layout[stem] if int(n[1:]) not in bad_idx]
                stats.setdefault("const_overflow_lint", []).extend(describe(cases[i], n) for n, i in layout[stem] if int(n[1:]) in bad_idx)
                if keep:
                    layout[stem + "r"] = keep
                    retry.append((stem + "r", batch_source([(n, cases[i]) for n, i in keep])))
                progs.remove((stem, src))
            if retry:
                built.update(build_programs(binary, d, retry))
                progs += retry
            for stem, src in progs:
                ok, msg, path = built[stem]
                if not ok:
                    if stem.endswith("f0") and ("i32" in msg) and "int-fallback" in known:
                        # members of Known_C01_int_fallback: rustc typed a literal/constant computation as i32 and rejected it
                        build_fail_known["int-fallback"] = msg[-600:]
                        continue
                    corr_bad.append({"case": src[:4000], "tie": "rustc rejected a batch of functions the model types as valid Rust", "real": msg[-2500:]})
                    continue
                obs, (rc, err) = run_binary(path, [n for n, _ in layout[stem]])
                for n, i in layout[stem]:
                    if n in obs:
                        observed[i] = obs[n]
        finally:
            shutil.rmtree(d, ignore_errors=True)
            clean_gen_target([stem for stem, _ in progs])
        vlib.log("[c01] real binaries: %d program(s), %d functions observed" % (len(progs), len(observed)))

    known_hits = {k: [] for k in build_fail_known}
    for i, (lines, stop) in sorted(observed.items()):
        c, m = cases[i], model[i]
        got = (list(lines), stop)
        key = (STOPS.get(m["src"][1], "?"), "grouping" if m["grouping"] else "", "int-fallback" if m["fallback"] else "",
               "calls" if cases[i].helpers else "", "" if m["calls_wf"] else "kwargs-reordered-nonatomic(outside theorem)")
        dist[str(key)] = dist.get(str(key), 0) + 1
        chk.count_case(c.key(), nontrivial=(len(lines) > 0))
        exp_src = (list(m["src"][0]), m["src"][1])
        exp_rust = (list(m["rust"][0]), m["rust"][1])
        if m["src"][1] == 3:     # unspecified from some point on: the defined prefix must still be printed
            bad_oracle = got[0][:len(exp_src[0])] != exp_src[0]
        else:
            bad_oracle = m["src"][1] in (0, 1, 2) and got != exp_src
        if bad_oracle:
            cls = [k for k, flag in (("grouping", m["grouping"]), ("int-fallback", m["fallback"])) if flag]
            listed = [k for k in cls if k in known]
            if listed:
                for k in listed:
                    known_hits.setdefault(k, []).append(i)
                continue
            fails.append({"case": describe(c), "coq_case": c.coq(), "program": batch_source([("t0", c)]),
                          "expected_by_documented_semantics": {"lines": exp_src[0], "stop": STOPS.get(exp_src[1])},
                          "actual_binary": {"lines": got[0], "stop": STOPS.get(got[1], got[1])},
                          "rust_side_model": {"lines": exp_rust[0], "stop": STOPS.get(exp_rust[1])},
                          "classes": cls, "why": "the compiled program does not behave as the source says"})
            continue
        if got != exp_rust and not m["fallback"] and i not in suspects:
            corr_bad.append({"case": describe(c), "tie": "Rust-side model vs real binary", "real": got, "model": exp_rust})
    stats.update({"distribution": dist, "observed": len(observed), "known_hits": known_hits, "model": model})
    return fails, corr_bad, stats


def gen_cases(chk, n_gen):
    g = Gen(chk.rng)
    cases = corpus()
    seen = set(c.key() for c in cases)
    while len(cases) < n_gen:
        c = g.case()
        if c.key() in seen:
            continue
        seen.add(c.key())
        cases.append(c)
    return cases


def run(chk):
    chk.trusted = [
        "Coq 8.16.1 kernel (coqc, vm_compute); no axioms (every theorem closed under the global context)",
        "hand-written models coq/Core/{Dynamic,Lower,Rust}.v: source semantics written from the language reference; lowering+emission "
        "model of lower/{expr,stmt}.rs + emit/{expressions,statements}.rs + determine_binop_plan (tied by the token-text run); "
        "Rust grammar/semantics model (tied by the real-binary run)",
        "C04 kernels regenerated by rs2v (py_mod_i64 / py_floor_div_i64 meaning), Base/I64.v wrapping arithmetic",
        "rustc 1.95 / cargo / LLVM (the real binary is what is observed), proc_macro2 tokenizer, the vharness c01 adapter, this script's differ",
    ]
    chk.assumptions = [
        "scope proved: the MiniIncan fragment listed in coverage.constructs; everything outside it is not covered by C01 yet",
        "integer overflow is not specified by the documentation: source runs ending in `unspecified(overflow)` are excluded from the theorem "
        "and compared only against the Rust-side model (wrapping)",
        "one test function per Coq case; call/return between user functions is outside the Coq fragment",
        "models, lists, lvalue paths, slices, len, calls with keyword arguments, mut list parameters, return values and keyword-like names "
        "(coverage.wide_constructs_oracle_only) are NOT in the Coq model: they are exercised by the differential oracle only, expected output "
        "from the Python reference evaluator in checks/c01.py (WEval)",
    ]
    known = load_findings(chk, "C01")
    res = chk.proof_stage("C01", allow_axioms=(), rs2v_units=["CoreNum", "StdNum"])
    dbg = vlib.build_harness("debug")
    quick = chk.tier == "quick"
    cases = gen_cases(chk, 330 if quick else 2400)
    chk.coverage["constructs"] = CONSTRUCTS
    fails, corr_bad, stats = pipeline(chk, dbg, cases, known, n_batches=1 if quick else 8, batch_size=150, n_panic=4 if quick else 16)
    wfails, wstats = wide_oracle(chk, dbg, 70 if quick else 400, "c01")
    fails += wfails
    chk.coverage["wide_constructs_oracle_only"] = WIDE_CONSTRUCTS
    chk.coverage.update(wstats)
    # finding outside the Coq fragment (calls nested in arguments): replay its witness on the real binary
    if "kwarg-eval-order" in known:
        d = scratch_dir("c01k")
        stem = "c01k%dp%d" % (chk.seed % 100000, os.getpid() % 100000)
        try:
            ok, msg, path = build_programs(dbg, d, [(stem, known["kwarg-eval-order"]["witness"])])[stem]
            if ok:
                p = subprocess.run([path], capture_output=True, text=True, timeout=120)
                if p.stdout.split() == ["2", "1", "1"]:
                    stats["known_hits"]["kwarg-eval-order"] = [0]
        finally:
            shutil.rmtree(d, ignore_errors=True)
            clean_gen_target([stem])
    if not stats["model_ok"]:
        res["tie_ok"] = False
        res["broken"].append({"what": "model", "message": "C01/Model.v no longer builds (C04 kernels changed shape?)"})
    rejected = stats["rejected"]
    chk.coverage["emit_text_compared"] = stats["emit_text_compared"]
    chk.coverage["checker_rejected_valid_functions"] = len(rejected)
    if rejected:
        chk.notes.append({"note": "functions valid by the documented scope rules that the checker rejects (C03 territory, not a C01 failure)",
                          "samples": rejected[:3]})
    chk.coverage["rule"] = ("seeded generator of fragment functions (valid by the documented scope/type rules and accepted by the current checker) + fixed corpus; "
                            "every function: parser-tree tie, emitted-token tie, Coq evaluation of source and Rust-side semantics; functions whose model run "
                            "finishes are batched into one generated program built by the real `incan build` path and run; non-trivial = printed at least one line")
    chk.coverage["distribution"] = stats["distribution"]
    chk.coverage["functions_generated"] = len(cases)
    chk.coverage["functions_run_in_real_binary"] = stats["observed"]
    chk.coverage["traces_validated_against_impl"] = stats["observed"]
    chk.coverage["correspondence_mismatches"] = len(corr_bad)
    chk.coverage["known_class_failures"] = {k: len(v) if isinstance(v, list) else 1 for k, v in stats["known_hits"].items()}
    nc = len(corpus())
    for c in cases[:2] + cases[nc:nc + 4]:
        chk.sample(describe(c))
    for fid, f in known.items():
        if fid in stats["known_hits"]:
            chk.known(fid, "%s: %s" % (fid, f["summary"]))
    for f in fails[:20]:
        chk.violation("failing-input", f)
    if not fails:
        if corr_bad:
            chk.violation("correspondence-broken", {"theorem_or_tie": "C01 model/implementation correspondence", "cases": corr_bad[:10]}, no_input=True)
        if not res["proofs_ok"] or not res["tie_ok"]:
            chk.violation("proof-broken", {"theorem_or_tie": res["broken"]}, no_input=True)


def replay_one(binary, program, coq_case, tag="c01r"):
    """re-run one recorded function: real front end + emission, real build + run, Coq source semantics, Coq Rust-side model"""
    out = {}
    r = emit_real(binary, [program])[0]
    out["real_check"] = r.get("check")
    out["real_codegen"] = r.get("gen")
    out["real_emitted"] = {k: " ".join(v.get("body", [])) for k, v in r.get("fns", {}).items()}
    d = scratch_dir(tag)
    stem = "%sp%d" % (tag, os.getpid() % 100000)
    try:
        ok, msg, path = build_programs(binary, d, [(stem, program)])[stem]
        if ok:
            obs, (rc, err) = run_binary(path, ["t0"])
            out["real_binary"] = {"lines": obs.get("t0", ([], None))[0], "stop": STOPS.get(obs.get("t0", ([], None))[1], obs.get("t0", ([], None))[1]), "exit": rc, "stderr": err}
        else:
            out["real_build"] = msg[-2000:]
    finally:
        shutil.rmtree(d, ignore_errors=True)
        clean_gen_target([stem])
    if coq_case and vlib.coq_build(["C01/Model.vo"])[0]:
        res = vlib.coq_eval(REQ, MODEL_TYPE, "run_case default_fuel", [coq_case], tag=tag)[0]
        out["documented_semantics"] = {"lines": res[0], "stop": STOPS.get(res[1])}
        out["rust_side_model"] = {"status": res[2][0], "lines": res[2][1][0], "stop": STOPS.get(res[2][1][1]), "well_typed": res[2][2]}
        out["classes"] = {"grouping": res[3][0], "int-fallback": res[3][1], "calls_wf": res[3][2]}
    return out


def replay(path):
    data = json.load(open(path))
    binary = vlib.build_harness("debug")
    for v in data["violations"]:
        d = v["detail"]
        if "program" in d:
            print("== case\n" + d.get("case", ""))
            print(json.dumps(replay_one(binary, d["program"], d.get("coq_case")), indent=1, default=str))
            if "expected_by_documented_semantics" in d:
                print("recorded expected:", json.dumps(d["expected_by_documented_semantics"]), "recorded actual:", json.dumps(d.get("actual_binary")))
        else:
            print(json.dumps(d, indent=1)[:6000])
    return 0


# ================================================================================================ wide programs
# Constructs OUTSIDE the Coq fragment, checked by the differential oracle only: the expected output comes from the
# Python reference evaluator below (documented Python-like semantics: value models, lists with negative indices and
# clamping slices, keyword arguments bound by NAME, `mut` list parameters mutate the caller's list), NOT from Coq.
#   models with int fields, nested models (2 levels), List[Model], List[int], List[List[int]];
#   assignment (plain and compound) through every lvalue shape: x, o.f, o.f.g, xs[i], xs[i].f, xs[i].f.g, xs[i].f.g.h, xs[i][j];
#   list indexing (negative too), slicing with small in/out-of-order bounds, len, for-in over lists and slices;
#   user functions with 2-3 int parameters called positionally, with in-order and out-of-order keyword arguments,
#   mixed; `mut` list parameters; return values; function/parameter names also drawn from Rust keywords that Incan
#   does not reserve (where, loop, final, move, ref, box).
WIDE_CONSTRUCTS = ["model with int fields", "nested models (M1.p: M0, M2.q: M1)", "List[int]", "List[Model]", "List[List[int]]",
                   "lvalues x, o.f, o.f.g, xs[i], xs[i].f, xs[i].f.g, xs[i].f.g.h, xs[i][j] (plain and compound)",
                   "negative indices", "slices xs[a:b], xs[a:], xs[:b] with in/out-of-order bounds", "len", "for v in list/slice",
                   "calls: positional / keyword in order / keyword out of order / mixed", "mut List[int] parameter", "return values",
                   "function and parameter names from {where, loop, final, move, ref, box}"]
WIDE_MODELS = """model M0:
    a: int
    b: int

model M1:
    p: M0
    m: int

model M2:
    q: M1
    k: int

"""
KW_FN = ["where", "loop", "final", "move", "ref", "box"]
PLAIN_FN = ["pick", "calc", "mix", "step", "blend", "fold3"]
KW_PARAM = ["final", "move", "ref", "box", "where", "loop"]
PLAIN_PARAM = ["lo", "hi", "k", "n", "aa", "bb"]


def wsrc(e):
    k = e[0]
    if k == "nm":
        return e[1]
    if k == "fld":
        return "%s.%s" % (wsrc(e[1]), e[2])
    if k == "idx":
        return "%s[%s]" % (wsrc(e[1]), wsrc(e[2]))
    if k == "len":
        return "len(%s)" % wsrc(e[1])
    if k == "slice":
        return "%s[%s:%s]" % (wsrc(e[1]), "" if e[2] is None else wsrc(e[2]), "" if e[3] is None else wsrc(e[3]))
    if k == "call":
        args = [wsrc(a) for a in e[2]] + ["%s=%s" % (n, wsrc(a)) for n, a in e[3]]
        return "%s(%s)" % (e[1], ", ".join(args))
    if k == "mk":
        return "%s(%s)" % (e[1], ", ".join("%s=%s" % (n, wsrc(a)) for n, a in e[2]))
    if k == "list":
        return "[" + ", ".join(wsrc(a) for a in e[1]) + "]"
    if k == "int":
        return str(e[1])
    if k == "un":
        s = wsrc(e[2])
        return "-" + (" " + s if s.startswith("-") else s)
    if k == "paren":
        return "(" + wsrc(e[1]) + ")"
    if k == "bin":
        return "%s %s %s" % (wsrc(e[2]), e[1], wsrc(e[3]))
    raise ValueError(k)


def wsrc_block(b, ind):
    pad, out = "    " * ind, []
    for s in b:
        k = s[0]
        if k == "wassign":
            out.append("%s%s%s = %s" % (pad, {"mut": "mut ", "let": "let ", "inferred": ""}[s[1]], s[2], wsrc(s[3])))
        elif k == "lassign":
            out.append("%s%s %s= %s" % (pad, wsrc(s[1]), s[2] or "", wsrc(s[3])))
        elif k == "print":
            out.append("%sprintln(%s)" % (pad, wsrc(s[1])))
        elif k == "forin":
            out.append("%sfor %s in %s:" % (pad, s[1], wsrc(s[2])))
            out += wsrc_block(s[3], ind + 1)
        elif k == "if":
            out.append("%sif %s:" % (pad, wsrc(s[1])))
            out += wsrc_block(s[2], ind + 1)
            if s[3] is not None:
                out.append("%selse:" % pad)
                out += wsrc_block(s[3], ind + 1)
        elif k == "callst":
            out.append(pad + wsrc(s[1]))
        elif k == "ret":
            out.append("%sreturn %s" % (pad, wsrc(s[1])))
        else:
            raise ValueError(k)
    return out


def ends_with_cast(e):
    """the emitted Rust of e ends in `as i64` (a `len(..)` in final position)"""
    k = e[0]
    if k == "len":
        return True
    if k == "paren":
        return ends_with_cast(e[1])
    if k == "un":
        return ends_with_cast(e[2])
    if k == "bin" and e[1] not in ("//", "%"):
        return ends_with_cast(e[3])
    return False


class Ret(Exception):
    def __init__(self, v):
        self.v = v


class WEval:
    """reference evaluator (documented semantics) for wide programs"""

    def __init__(self, helpers):
        self.helpers = helpers          # name -> (params [(name, kind)], body)
        self.out = []

    def ev(self, e, env):
        k = e[0]
        if k == "int":
            return e[1]
        if k == "nm":
            return env[e[1]]
        if k == "fld":
            return self.ev(e[1], env)[e[2]]
        if k == "idx":
            return self.ev(e[1], env)[self.ev(e[2], env)]          # Python negative indexing = list_get's
        if k == "len":
            return len(self.ev(e[1], env))
        if k == "slice":
            xs = self.ev(e[1], env)
            a = None if e[2] is None else self.ev(e[2], env)
            b = None if e[3] is None else self.ev(e[3], env)
            return list(xs[a:b])
        if k == "mk":
            return {n: self.ev(a, env) for n, a in e[2]}
        if k == "list":
            return [self.ev(a, env) for a in e[1]]
        if k == "paren":
            return self.ev(e[1], env)
        if k == "un":
            return -self.ev(e[2], env)
        if k == "bin":
            l, r = self.ev(e[2], env), self.ev(e[3], env)
            return {"+": lambda: l + r, "-": lambda: l - r, "*": lambda: l * r, "//": lambda: l // r, "%": lambda: l % r,
                    "==": lambda: l == r, "!=": lambda: l != r, "<": lambda: l < r, "<=": lambda: l <= r, ">": lambda: l > r,
                    ">=": lambda: l >= r}[e[1]]()
        if k == "call":
            params, body = self.helpers[e[1]]
            vals = [self.ev(a, env) for a in e[2]]
            kw = {n: self.ev(a, env) for n, a in e[3]}
            loc = {}
            pos = list(vals)
            for pn, kind in params:               # keyword arguments bind by name, the rest positionally in order
                if pn in kw:
                    loc[pn] = kw[pn]
                else:
                    loc[pn] = pos.pop(0)
                if kind == "list":                # a non-`mut` list parameter is the callee's own copy
                    loc[pn] = list(loc[pn])
            try:
                self.run(body, loc)
            except Ret as r:
                return r.v
            return None
        raise ValueError(k)

    def assign(self, lv, v, env):
        if lv[0] == "nm":
            env[lv[1]] = v
        elif lv[0] == "fld":
            self.ev(lv[1], env)[lv[2]] = v
        else:
            self.ev(lv[1], env)[self.ev(lv[2], env)] = v

    def run(self, b, env):
        for s in b:
            k = s[0]
            if k == "wassign":
                env[s[2]] = self.ev(s[3], env)
            elif k == "lassign":
                v = self.ev(s[3], env)
                if s[2]:
                    v = self.ev(("bin", s[2], s[1], ("int", v)), env)
                self.assign(s[1], v, env)
            elif k == "print":
                self.out.append((0, self.ev(s[1], env)))
            elif k == "forin":
                for x in list(self.ev(s[2], env)):
                    env[s[1]] = x
                    self.run(s[3], env)
            elif k == "if":
                if self.ev(s[1], env):
                    self.run(s[2], env)
                elif s[3] is not None:
                    self.run(s[3], env)
            elif k == "callst":
                self.ev(s[1], env)
            elif k == "ret":
                raise Ret(self.ev(s[1], env))


class WideSuite:
    """a set of helper functions (defined once per generated program) + test functions that use them"""

    def __init__(self, rng, n_cases):
        self.rng = rng
        names = rng.sample(KW_FN, 4) + rng.sample(PLAIN_FN, 3)
        rng.shuffle(names)
        self.helpers, self.helper_src = {}, []
        self.int_fns, self.mut_fns, self.list_fns = [], [], []
        for i, fn in enumerate(names):
            kind = "int" if i < 4 else ("mut" if i < 6 else "list")
            self.make_helper(fn, kind)
        self.cases = [self.case() for _ in range(n_cases)]

    def pnames(self, n):
        pool = self.rng.sample(KW_PARAM, 3) + self.rng.sample(PLAIN_PARAM, 3)
        return self.rng.sample(pool, n)

    def make_helper(self, fn, kind):
        rng = self.rng
        if kind == "int":
            ps = self.pnames(rng.choice([2, 3, 3]))
            # an asymmetric combination: swapping two arguments changes the result
            terms = [("bin", "*", ("nm", p), ("int", c)) for p, c in zip(ps, rng.sample([1, 3, 7, 10, 100], len(ps)))]
            e = terms[0]
            for t in terms[1:]:
                e = ("bin", rng.choice(["+", "-"]), e, t)
            if rng.random() < 0.4:
                e = ("bin", "%", ("paren", e), ("int", rng.choice([97, 1009])))
            body = [("ret", e)]
            params = [(p, "int") for p in ps]
            sig = ", ".join("%s: int" % p for p in ps) + ") -> int"
            self.int_fns.append(fn)
        elif kind == "mut":
            ps = self.pnames(2)
            xs, k = ps
            body = [("lassign", ("idx", ("nm", xs), ("nm", k)), rng.choice(["+", "*", None]), ("int", rng.randint(2, 9))),
                    ("lassign", ("idx", ("nm", xs), ("int", 0)), "+", ("nm", k))]
            params = [(xs, "mutlist"), (k, "int")]
            sig = "mut %s: List[int], %s: int) -> None" % (xs, k)
            self.mut_fns.append(fn)
        else:
            ps = self.pnames(2)
            xs, k = ps
            body = [("wassign", "mut", "acc", ("nm", k)),
                    ("forin", "vv", ("nm", xs), [("lassign", ("nm", "acc"), "+", ("bin", "*", ("nm", "vv"), ("int", 2)))]),
                    ("ret", ("nm", "acc"))]
            params = [(xs, "list"), (k, "int")]
            sig = "%s: List[int], %s: int) -> int" % (xs, k)
            self.list_fns.append(fn)
        self.helpers[fn] = (params, body)
        self.helper_src.append("def %s(%s:\n%s\n" % (fn, sig, "\n".join(wsrc_block(body, 1))))

    # ---- test functions
    def lit(self):
        return ("int", self.rng.randint(0, 60))

    def mk0(self):
        return ("mk", "M0", [("a", self.lit()), ("b", self.lit())])

    def mk1(self):
        return ("mk", "M1", [("p", self.mk0()), ("m", self.lit())])

    def mk2(self):
        return ("mk", "M2", [("q", self.mk1()), ("k", self.lit())])

    def case(self):
        rng = self.rng
        self.vars = {}
        self.has_ys = False
        body = []
        decl = [("o0", "M0", self.mk0()), ("o1", "M1", self.mk1()), ("o2", "M2", self.mk2())]
        nx = rng.randint(3, 6)
        decl.append(("xs", ("ints", nx), ("list", [self.lit() for _ in range(nx)])))
        nm = rng.randint(1, 3)
        decl.append(("ms", ("L", "M1", nm), ("list", [self.mk1() for _ in range(nm)])))
        nz = rng.randint(1, 2)
        decl.append(("zs", ("L", "M2", nz), ("list", [self.mk2() for _ in range(nz)])))
        ng, ni = rng.randint(1, 3), rng.randint(1, 3)
        decl.append(("g", ("grid", ng, ni), ("list", [("list", [self.lit() for _ in range(ni)]) for _ in range(ng)])))
        rng.shuffle(decl)
        for n, t, e in decl[:rng.randint(4, 7)]:
            self.vars[n] = t
            body.append(("wassign", "mut", n, e))
        for _ in range(rng.randint(5, 10)):
            body += self.stmt()
        body += self.dump()
        return body

    def index(self, n):
        i = self.rng.randrange(n)
        if self.rng.random() < 0.3:
            i -= n
        return ("int", i) if i >= 0 else ("un", "neg", ("int", -i))

    def int_paths(self, lv_only=False):
        """all int-valued places reachable from the declared variables"""
        out = []
        for n, t in self.vars.items():
            base = ("nm", n)
            if t == "M0":
                out += [("fld", base, f) for f in "ab"]
            elif t == "M1":
                out += [("fld", base, "m")] + [("fld", ("fld", base, "p"), f) for f in "ab"]
            elif t == "M2":
                out += [("fld", base, "k"), ("fld", ("fld", base, "q"), "m")] + [("fld", ("fld", ("fld", base, "q"), "p"), f) for f in "ab"]
            elif t[0] == "ints":
                out += [("idx", base, self.index(t[1])) for _ in range(2)]
            elif t[0] == "L":
                el = ("idx", base, self.index(t[2]))
                if t[1] == "M1":
                    out += [("fld", el, "m")] + [("fld", ("fld", el, "p"), f) for f in "ab"]
                else:
                    out += [("fld", el, "k"), ("fld", ("fld", el, "q"), "m")] + [("fld", ("fld", ("fld", el, "q"), "p"), f) for f in "ab"]
            elif t[0] == "grid":
                out.append(("idx", ("idx", base, self.index(t[1])), self.index(t[2])))
        return out

    def bound(self):
        b = self.rng.randint(-7, 7)
        return ("int", b) if b >= 0 else ("un", "neg", ("int", -b))

    def slice_of(self, n):
        r = self.rng.random()
        a = None if r < 0.15 else self.bound()
        b = None if 0.15 <= r < 0.3 else self.bound()
        return ("slice", ("nm", n), a, b)

    def call(self, small):
        rng = self.rng
        fn = rng.choice(self.int_fns)
        params = [p for p, _ in self.helpers[fn][0]]
        vals = {p: small() for p in params}
        mode = rng.choice(["pos", "kw", "kwrev", "mixed", "kwrev"])
        if mode == "pos":
            return ("call", fn, [vals[p] for p in params], [])
        if mode == "kw":
            return ("call", fn, [], [(p, vals[p]) for p in params])
        if mode == "kwrev":
            order = list(params)
            while order == params:
                rng.shuffle(order)
            return ("call", fn, [], [(p, vals[p]) for p in order])
        rest = params[1:]
        rng.shuffle(rest)
        return ("call", fn, [vals[params[0]]], [(p, vals[p]) for p in rest])

    def int_expr(self, d=2):
        rng = self.rng
        r = rng.random()
        paths = self.int_paths()
        if d <= 0 or r < 0.35:
            return rng.choice(paths) if paths and rng.random() < 0.75 else self.lit()
        lists = [n for n, t in self.vars.items() if t[0] == "ints"]
        if r < 0.45 and lists:
            n = rng.choice(lists)
            return ("len", ("nm", n)) if rng.random() < 0.4 else ("len", self.slice_of(n))
        if r < 0.62:
            return self.call(lambda: self.int_expr(0))
        if r < 0.68 and lists and self.list_fns:
            n = rng.choice(lists)
            fn = rng.choice(self.list_fns)
            (xs, _), (k, _) = self.helpers[fn][0]
            arg = ("nm", n) if rng.random() < 0.5 else self.slice_of(n)
            return ("call", fn, [arg, self.lit()], []) if rng.random() < 0.5 else ("call", fn, [], [(k, self.lit()), (xs, arg)])
        op = rng.choice(["+", "-", "+", "*"])
        l, rr = self.int_expr(d - 1), self.int_expr(d - 1)
        if op == "*":
            rr = ("int", rng.randint(0, 9))
        # operands of the same or tighter binding only (outside the grouping finding)
        if op == "-" and rr[0] == "bin":
            rr = ("int", rng.randint(0, 9))
        if op == "*" and l[0] == "bin":
            l = ("int", rng.randint(0, 9))
        return ("bin", op, l, rr)

    def stmt(self):
        rng = self.rng
        r = rng.random()
        paths = self.int_paths()
        lists = [n for n, t in self.vars.items() if t[0] == "ints"]
        if r < 0.45 and paths:
            lv = rng.choice(paths)
            op = rng.choice([None, None, "+", "-", "*"])
            e = self.int_expr(2) if op is None else self.int_expr(1)
            if op == "*":
                e = ("int", rng.randint(0, 3))
            if op == "-":
                e = self.int_expr(0)       # `x -= a - b` is emitted as `x = x - a - b` (finding grouping): atoms only
            return [("lassign", lv, op, e)]
        if r < 0.58:
            return [("print", self.int_expr(2))]
        if r < 0.70 and lists:
            n = rng.choice(lists)
            it = self.slice_of(n) if rng.random() < 0.8 else ("nm", n)
            return [("forin", "w", it, [("print", ("bin", "+", ("nm", "w"), self.lit()))])]
        if r < 0.82 and lists and self.mut_fns:
            n = rng.choice(lists)
            fn = rng.choice(self.mut_fns)
            (xs, _), (k, _) = self.helpers[fn][0]
            i = self.index(self.vars[n][1])
            c = ("call", fn, [("nm", n), i], []) if rng.random() < 0.5 else \
                (("call", fn, [], [(k, i), (xs, ("nm", n))]) if rng.random() < 0.5 else ("call", fn, [("nm", n)], [(k, i)]))
            return [("callst", c)]
        if r < 0.90:
            c = ("bin", rng.choice(["<", ">", "==", "!=", "<=", ">="]), self.int_expr(1), self.int_expr(1))
            # (`len(xs) < n` was C02's finding len-lt — emitted `xs.len() as i64 < n` — until the fix: commit that groups a left
            #  operand ending in a cast; it is generated like any other comparison now)
            return [("if", c, [("print", self.int_expr(1))], [("print", self.int_expr(1))] if rng.random() < 0.5 else None)]
        if lists and not self.has_ys:
            n = rng.choice(lists)
            self.has_ys = True
            return [("wassign", "let", "ys", self.slice_of(n)), ("print", ("len", ("nm", "ys"))),
                    ("forin", "w", ("nm", "ys"), [("print", ("nm", "w"))])]
        return [("print", self.int_expr(2))]

    def dump(self):
        out = []
        for n, t in sorted(self.vars.items()):
            base = ("nm", n)
            if t in ("M0", "M1", "M2"):
                saved, self.vars = self.vars, {n: t}
                out += [("print", p) for p in self.int_paths()]
                self.vars = saved
            elif t[0] == "ints":
                out.append(("forin", "w", base, [("print", ("nm", "w"))]))
            elif t[0] == "L":
                for i in range(t[2]):
                    el = ("idx", base, ("int", i))
                    if t[1] == "M1":
                        out += [("print", ("fld", el, "m"))] + [("print", ("fld", ("fld", el, "p"), f)) for f in "ab"]
                    else:
                        out += [("print", ("fld", el, "k")), ("print", ("fld", ("fld", el, "q"), "m"))] + \
                               [("print", ("fld", ("fld", ("fld", el, "q"), "p"), f)) for f in "ab"]
            elif t[0] == "grid":
                for i in range(t[1]):
                    out.append(("forin", "w", ("idx", base, ("int", i)), [("print", ("nm", "w"))]))
        return out

    def expected(self, i):
        ev = WEval(self.helpers)
        ev.run(self.cases[i], {})
        return ev.out

    def fn_source(self, i, name):
        return "def %s() -> None:\n%s\n" % (name, "\n".join(wsrc_block(self.cases[i], 1)))

    def prelude(self):
        return WIDE_MODELS + "\n".join(self.helper_src) + "\n"

    def program(self, idxs):
        parts = [self.prelude()] + [self.fn_source(i, "w%d" % i) for i in idxs]
        main = ["def main() -> None:"]
        for i in idxs:
            main += ['    println("@@w%d")' % i, "    w%d()" % i]
        main.append('    println("@@end")')
        return "\n".join(parts) + "\n" + "\n".join(main) + "\n"


def wide_culprits(msg, main_rs):
    try:
        lines = open(main_rs).read().split("\n")
    except OSError:
        return set()
    starts = [(i + 1, m.group(1)) for i, l in enumerate(lines) for m in [re.match(r"\s*(?:pub )?fn (?:r#)?(\w+)\(", l)] if m]
    out = set()
    for b in re.split(r"\n(?=error|warning)", msg):
        if not b.startswith("error") or b.startswith("error: could not compile") or b.startswith("error: aborting"):
            continue
        m = re.search(r"--> src/main\.rs:(\d+):", b)
        if m:
            owner = None
            for st, name in starts:
                if st <= int(m.group(1)):
                    owner = name
            if owner:
                out.add(owner)
    return out


def wide_oracle(chk, binary, n_cases, tag):
    """Builds one generated program of wide test functions with the real `incan build` path, runs it, compares every
    function's output with the reference evaluator. Returns (fails, stats)."""
    suite = WideSuite(chk.rng, n_cases)
    idxs = list(range(n_cases))
    fails, stats = [], {"wide_functions": n_cases}
    # every function alone through the real front end: must parse, check and generate
    progs = [suite.prelude() + suite.fn_source(i, "t0") + "def main() -> None:\n    t0()\n" for i in idxs]
    real = emit_real(binary, progs)
    ok_idx = []
    for i in idxs:
        r = real[i]
        why = None
        if "panic" in r:
            why = "the compiler panicked: " + r["panic"]
        elif r.get("parse") != "ok":
            why = "valid program rejected by the parser: %s" % r.get("parse")
        elif r["check"]:
            why = "valid program rejected by the checker: %s" % r["check"][:2]
        elif r["gen"] != "ok" or not r.get("syn"):
            why = "the checker accepts this program but code generation fails: %s" % r["gen"]
        if why:
            fails.append({"case": progs[i], "program": progs[i], "why": why, "oracle": "python reference evaluator (wide constructs, outside the Coq fragment)"})
        else:
            ok_idx.append(i)
    stem = "%sw%dp%d" % (tag, chk.seed % 100000, os.getpid() % 100000)
    d = scratch_dir(tag + "w")
    try:
        src = suite.program(ok_idx)
        ok, msg, path = build_programs(binary, d, [(stem, src)])[stem]
        if not ok:
            bad = wide_culprits(msg, os.path.join(d, "out_" + stem, "src", "main.rs"))
            errs = "\n".join(b for b in re.split(r"\n(?=error|warning)", msg) if b.startswith("error"))[:2500]
            culprits = [i for i in ok_idx if "w%d" % i in bad]
            for i in (culprits or ok_idx[:2])[:8]:
                fails.append({"case": suite.prelude() + suite.fn_source(i, "t0"), "program": progs[i], "stage": "rustc",
                              "expected": suite.expected(i), "actual": errs,
                              "why": "the checker accepts this program, code generation succeeds, rustc rejects the generated Rust",
                              "oracle": "python reference evaluator (wide constructs, outside the Coq fragment)"})
            stats["wide_built"] = False
            # the other functions are still compared: rebuild once without the functions rustc rejected
            ok_idx = [i for i in ok_idx if i not in culprits] if culprits else []
            if ok_idx:
                clean_gen_target([stem])
                stem = stem + "r"
                ok, msg, path = build_programs(binary, d, [(stem, suite.program(ok_idx))])[stem]
        if ok:
            stats["wide_built"] = stats.get("wide_built", True)
            obs, (rc, err) = run_binary(path, ["w%d" % i for i in ok_idx])
            n_ok = 0
            for i in ok_idx:
                exp = suite.expected(i)
                got = obs.get("w%d" % i)
                chk.count_case(("wide", suite.fn_source(i, "t0")), nontrivial=True)
                if got is None or got[1] != 0 or list(got[0]) != exp:
                    fails.append({"case": suite.prelude() + suite.fn_source(i, "t0"), "program": progs[i],
                                  "expected_by_reference_evaluator": exp, "actual_binary": got,
                                  "why": "the compiled program does not behave as the source says",
                                  "oracle": "python reference evaluator (wide constructs, outside the Coq fragment)"})
                else:
                    n_ok += 1
            stats["wide_functions_agreeing"] = n_ok
    finally:
        shutil.rmtree(d, ignore_errors=True)
        clean_gen_target([stem])
    vlib.log("[c01] wide oracle: %d functions, %d failures" % (n_cases, len(fails)))
    return fails, stats
