"""C01 — compiled programs behave exactly as the Incan source says (MiniIncan fragment).

proof:   coq/C01/Props.v over coq/Core/* (source semantics, lowering+emission model to MiniRust
         token trees, Rust grammar + semantics of the parsed terms, C04 specs for // and %).
tie:     (a) real parser vs the generator's tree (s-expressions), (b) emission model vs the real
         emitted Rust (token-normalised function bodies, library pipeline lex -> parse -> check ->
         IrCodegen), (c) Rust-side model (wrapping i64, helper models) vs the REAL compiled binary.
oracle:  Coq `Dynamic.run` (documented semantics) vs the REAL binary's stdout / exit status / panic
         line, many generated functions batched into one generated program built by the real
         `incan build` path.
Fragment (growth rule, DESIGN 7.3): int/bool expressions with all of + - * // % == != < <= > >= and or
not unary-, parentheses, variables; let/mut/plain/typed and compound assignment at any block depth;
if/elif/else; while; for-in-range (1-3 args); println; pass/break/continue; functions with int params."""
import json
import os
import re
import shutil
import subprocess
import time

import vlib

I64_MIN, I64_MAX = -2**63, 2**63 - 1
LADDER_SIZES = [0, 1, 2, 3, 5]          # numbers of elif branches generated for if/elif ladders
LADDER_SCALE = [16, 17, 63, 64, 65]     # scale points for the fixed ladder corpus (255 / 256: see report, not run)
CONSTRUCTS = ["several functions per program (int params, int or None result)", "calls f(..) as assignment RHS / println argument / "
              "statement / return value, with positional, keyword (in and out of declaration order) and mixed call-free arguments",
              "return / return e (also early, in branches)", "int literal", "bool literal", "variable", "paren", "unary -", "not", "+ - * // %", "== != < <= > >=",
              "and or", "x = e (new / reassign, any depth)", "let", "mut", "typed binding", "compound += -= *= //= %=",
              "if/elif/else", "while", "for-in-range(1..3 args)", "println(int|bool)", "pass", "break", "continue",
              "def with int params"]

# ------------------------------------------------------------------------------------------------ trees
# expr: ("int", n) ("bool", b) ("var", k) ("paren", e) ("un", "neg"|"not", e) ("bin", op, l, r)
# stmt: ("assign", kind, k, ann, e) ("compound", op, k, e) ("if", c, th, [(c, b)...], el|None) ("while", c, b)
#       ("for", k, [args], b) ("print", e) ("pass",) ("break",) ("continue",)

ARITH = ["+", "-", "*", "//", "%"]
CMP = ["==", "!=", "<", "<=", ">", ">="]
LEVEL = {"or": 1, "and": 2, "not": 3, "==": 4, "!=": 4, "<": 4, "<=": 4, ">": 4, ">=": 4, "+": 6, "-": 6,
         "*": 7, "//": 7, "%": 7, "neg": 9}
COQ_BIN = {"+": "OpAdd", "-": "OpSub", "*": "OpMul", "//": "OpFloorDiv", "%": "OpMod", "==": "OpEq", "!=": "OpNe",
           "<": "OpLt", "<=": "OpLe", ">": "OpGt", ">=": "OpGe", "and": "OpAnd", "or": "OpOr"}
COQ_COP = {"+": "CAdd", "-": "CSub", "*": "CMul", "//": "CFloorDiv", "%": "CMod"}
COQ_KIND = {"inferred": "BInferred", "let": "BLet", "mut": "BMut"}


def level(e):
    if e[0] == "un":
        return LEVEL[e[1]]
    if e[0] == "bin":
        return LEVEL[e[1]]
    return 10


def parenthesize(e, rng, extra=0.12):
    """Insert the ("paren", .) nodes the Incan grammar needs to read the tree back (plus random redundant
    ones): the result IS the source tree (Expr::Paren nodes included)."""
    def wrap(c, need):
        c2 = parenthesize(c, rng, extra)
        if level(c2) < need or rng.random() < extra:
            return ("paren", c2)
        return c2
    k = e[0]
    if k == "paren":
        return ("paren", parenthesize(e[1], rng, extra))
    if k == "un":
        return ("un", e[1], wrap(e[2], LEVEL[e[1]]))
    if k == "bin":
        lv = LEVEL[e[1]]
        rneed = {1: 2, 2: 3, 4: 6, 6: 7, 7: 9}[lv]
        return ("bin", e[1], wrap(e[2], lv), wrap(e[3], rneed))
    return e


RUST_LEVEL = {"or": 5, "and": 6, "==": 7, "!=": 7, "<": 7, "<=": 7, ">": 7, ">=": 7, "+": 11, "-": 11, "*": 12}


def rust_level(e):
    if e[0] == "paren":
        return rust_level(e[1])
    if e[0] == "un":
        return 14
    if e[0] == "bin" and e[1] in RUST_LEVEL:
        return RUST_LEVEL[e[1]]
    return 15          # leaves and helper calls (// and %)


def leaves(e):
    if e[0] in ("int", "bool", "var"):
        return [e]
    if e[0] == "paren":
        return leaves(e[1])
    if e[0] == "un":
        return leaves(e[2])
    return leaves(e[2]) + leaves(e[3])


def etype(e, var_ty):
    k = e[0]
    if k == "int":
        return "int"
    if k == "bool":
        return "bool"
    if k == "var":
        return var_ty(e[1])
    if k == "paren":
        return etype(e[1], var_ty)
    if k == "un":
        return "int" if e[1] == "neg" else "bool"
    return "int" if e[1] in ARITH else "bool"


def make_safe(e, rng, var_ty):
    """Rewrite a tree so that Rust's grammar reads the spliced tokens back as the same tree (no operand binds looser
    than its context, `not`/unary minus only on atoms): the function is then outside Known_C01_grouping."""
    def leafify(x):
        want = etype(x, var_ty)
        ls = [l for l in leaves(x) if etype(l, var_ty) == want]
        vs = [l for l in ls if l[0] == "var"]
        if not ls:
            return ("bool", rng.random() < 0.5) if want == "bool" else ("int", rng.randint(0, 9))
        return rng.choice(vs or ls)
    k = e[0]
    if k == "paren":
        return ("paren", make_safe(e[1], rng, var_ty))
    if k == "un":
        c = make_safe(e[2], rng, var_ty)
        if rust_level(c) < 14:
            c = leafify(c)
        return ("un", e[1], c)
    if k == "bin":
        l, r = make_safe(e[2], rng, var_ty), make_safe(e[3], rng, var_ty)
        if e[1] in RUST_LEVEL:
            lv = RUST_LEVEL[e[1]]
            if rust_level(l) < lv or (lv == 7 and rust_level(l) <= lv):
                l = leafify(l)
            if rust_level(r) <= lv:
                r = leafify(r)
        return ("bin", e[1], l, r)
    return e


def src_expr(e):
    k = e[0]
    if k == "int":
        return str(e[1])
    if k == "bool":
        return "true" if e[1] else "false"
    if k == "var":
        return "v%d" % e[1]
    if k == "paren":
        return "(" + src_expr(e[1]) + ")"
    if k == "un":
        s = src_expr(e[2])
        if e[1] == "not":
            return "not " + s
        return "-" + (" " + s if s.startswith("-") else s)
    return "%s %s %s" % (src_expr(e[2]), e[1], src_expr(e[3]))


def sexp_expr(e):
    k = e[0]
    if k == "int":
        return "(i %d)" % e[1]
    if k == "bool":
        return "(b %s)" % ("true" if e[1] else "false")
    if k == "var":
        return "(v v%d)" % e[1]
    if k == "paren":
        return "(p %s)" % sexp_expr(e[1])
    if k == "un":
        return "(u %s %s)" % (e[1], sexp_expr(e[2]))
    return "(o %s %s %s)" % (e[1], sexp_expr(e[2]), sexp_expr(e[3]))


def coq_expr(e):
    k = e[0]
    if k == "int":
        return "(EInt %s)" % vlib.zlit(e[1])
    if k == "bool":
        return "(EBool %s)" % ("true" if e[1] else "false")
    if k == "var":
        return "(EVar %d)" % e[1]
    if k == "paren":
        return "(EParen %s)" % coq_expr(e[1])
    if k == "un":
        return "(EUn %s %s)" % ("UNeg" if e[1] == "neg" else "UNot", coq_expr(e[2]))
    return "(EBin %s %s %s)" % (COQ_BIN[e[1]], coq_expr(e[2]), coq_expr(e[3]))


def src_call(c, base):
    args = [src_expr(a) for a in c[2]] + ["v%d=%s" % (p, src_expr(a)) for p, a in c[3]]
    return "f%d(%s)" % (base + c[1], ", ".join(args))


def src_c(c, base):
    return src_call(c, base) if c[0] == "call" else src_expr(c)


def sexp_c(c, base):
    if c[0] != "call":
        return sexp_expr(c)
    args = [sexp_expr(a) for a in c[2]] + ["(named v%d %s)" % (p, sexp_expr(a)) for p, a in c[3]]
    return "(c (v f%d)%s)" % (base + c[1], "".join(" " + a for a in args))


def coq_c(c, base):
    if c[0] != "call":
        return "(CPure %s)" % coq_expr(c)
    return "(CCall %d [%s] [%s])" % (base + c[1], "; ".join(coq_expr(a) for a in c[2]),
                                     "; ".join("(%d, %s)" % (p, coq_expr(a)) for p, a in c[3]))


def src_block(b, ind, base=0):
    out = []
    pad = "    " * ind
    for s in b:
        k = s[0]
        if k == "cassign":
            _, kind, x, ann, c = s
            pre = {"inferred": "", "let": "let ", "mut": "mut "}[kind]
            out.append("%s%sv%d%s = %s" % (pad, pre, x, (": " + ann) if ann else "", src_call(c, base)))
        elif k == "cprint":
            out.append("%sprintln(%s)" % (pad, src_call(s[1], base)))
        elif k == "cexpr":
            out.append(pad + src_call(s[1], base))
        elif k == "ret":
            out.append(pad + ("return" if s[1] is None else "return " + src_c(s[1], base)))
        elif k == "assign":
            _, kind, x, ann, e = s
            pre = {"inferred": "", "let": "let ", "mut": "mut "}[kind]
            out.append("%s%sv%d%s = %s" % (pad, pre, x, (": " + ann) if ann else "", src_expr(e)))
        elif k == "compound":
            out.append("%sv%d %s= %s" % (pad, s[2], s[1], src_expr(s[3])))
        elif k == "if":
            out.append("%sif %s:" % (pad, src_expr(s[1])))
            out += src_block(s[2], ind + 1, base)
            for c, b2 in s[3]:
                out.append("%selif %s:" % (pad, src_expr(c)))
                out += src_block(b2, ind + 1, base)
            if s[4] is not None:
                out.append("%selse:" % pad)
                out += src_block(s[4], ind + 1, base)
        elif k == "while":
            out.append("%swhile %s:" % (pad, src_expr(s[1])))
            out += src_block(s[2], ind + 1, base)
        elif k == "for":
            out.append("%sfor v%d in range(%s):" % (pad, s[1], ", ".join(src_expr(a) for a in s[2])))
            out += src_block(s[3], ind + 1, base)
        elif k == "print":
            out.append("%sprintln(%s)" % (pad, src_expr(s[1])))
        else:
            out.append(pad + k)
    return out


def sexp_block(b, base=0):
    return "(" + " ".join(sexp_stmt(s, base) for s in b) + ")"


def sexp_stmt(s, base=0):
    k = s[0]
    if k == "cassign":
        return "(= %s v%d %s %s)" % (s[1], s[2], s[3] or "_", sexp_c(s[4], base))
    if k == "cprint":
        return "(e (c (v println) %s))" % sexp_c(s[1], base)
    if k == "cexpr":
        return "(e %s)" % sexp_c(s[1], base)
    if k == "ret":
        return "(ret)" if s[1] is None else "(ret %s)" % sexp_c(s[1], base)
    if k == "assign":
        return "(= %s v%d %s %s)" % (s[1], s[2], s[3] or "_", sexp_expr(s[4]))
    if k == "compound":
        return "(op= %s v%d %s)" % (s[1], s[2], sexp_expr(s[3]))
    if k == "if":
        elifs = " ".join("(elif %s %s)" % (sexp_expr(c), sexp_block(b, base)) for c, b in s[3])
        el = "(else %s)" % sexp_block(s[4], base) if s[4] is not None else "_"
        return "(if %s %s (%s) %s)" % (sexp_expr(s[1]), sexp_block(s[2], base), elifs, el)
    if k == "while":
        return "(while %s %s)" % (sexp_expr(s[1]), sexp_block(s[2], base))
    if k == "for":
        return "(for v%d (c (v range) %s) %s)" % (s[1], " ".join(sexp_expr(a) for a in s[2]), sexp_block(s[3], base))
    if k == "print":
        return "(e (c (v println) %s))" % sexp_expr(s[1])
    return k


def coq_block(b, base=0):
    return "(blk [" + "; ".join(coq_stmt(s, base) for s in b) + "])"


def coq_stmt(s, base=0):
    k = s[0]
    if k in ("assign", "cassign"):
        ann = {None: "None", "int": "(Some TyInt)", "bool": "(Some TyBool)"}[s[3]]
        return "SAssign %s %d %s %s" % (COQ_KIND[s[1]], s[2], ann, coq_c(s[4], base))
    if k == "cprint":
        return "SPrint %s" % coq_c(s[1], base)
    if k == "cexpr":
        return "SExpr %s" % coq_c(s[1], base)
    if k == "ret":
        return "SReturn None" if s[1] is None else "SReturn (Some %s)" % coq_c(s[1], base)
    if k == "compound":
        return "SCompound %s %d %s" % (COQ_COP[s[1]], s[2], coq_expr(s[3]))
    if k == "if":
        el = "ENone" if s[4] is None else "(EElse %s)" % coq_block(s[4], base)
        for c, b in reversed(s[3]):
            el = "(EElif %s %s %s)" % (coq_expr(c), coq_block(b, base), el)
        return "SIf %s %s %s" % (coq_expr(s[1]), coq_block(s[2], base), el)
    if k == "while":
        return "SWhile %s %s" % (coq_expr(s[1]), coq_block(s[2], base))
    if k == "for":
        a = s[2]
        r = ["(R1 %s)", "(R2 %s %s)", "(R3 %s %s %s)"][len(a) - 1] % tuple(coq_expr(x) for x in a)
        return "SFor %d %s %s" % (s[1], r, coq_block(s[3], base))
    if k == "print":
        return "SPrint (CPure %s)" % coq_expr(s[1])
    return {"pass": "SPass", "break": "SBreak", "continue": "SContinue"}[k]


class Case:
    """one generated program: an entry function (local id 0) + helper functions (local ids 1..) it may call, and the
    arguments the entry function is called with.  In generated source function <k> of the case placed at `name` = "t<i>"
    is spelled f<10*i+k>."""

    def __init__(self, params, args, body, origin="gen", helpers=None):
        self.params, self.args, self.body, self.origin = params, args, body, origin
        self.helpers = helpers or []          # [(local id, params, returns_int, body)]

    @staticmethod
    def base(name):
        return 10 * int(name[1:])

    def functions(self):
        return [(k, ps, ret, b) for k, ps, ret, b in self.helpers] + [(0, self.params, False, self.body)]

    def source(self, name):
        base, out = self.base(name), []
        for k, ps, ret, b in self.functions():
            sig = ", ".join("v%d: int" % p for p in ps)
            out.append("def f%d(%s) -> %s:\n%s\n" % (base + k, sig, "int" if ret else "None", "\n".join(src_block(b, 1, base))))
        return "\n".join(out)

    def call(self, name):
        return "f%d(%s)" % (self.base(name), ", ".join(str(a) for a in self.args))

    def sexps(self, name="t0"):
        base = self.base(name)
        return {"f%d" % (base + k): "(fn (%s) %s %s)" % (" ".join("v%d:int" % p for p in ps), "int" if ret else "None", sexp_block(b, base))
                for k, ps, ret, b in self.functions()}

    def fn_names(self, name="t0"):
        return ["f%d" % (self.base(name) + k) for k, _, _, _ in self.functions()]

    def coq(self):
        fns = "; ".join("{| fname := %d; fparams := %s; fret := %s; fbody := %s |}" % (k, vlib.zlist(ps), "true" if ret else "false", coq_block(b))
                        for k, ps, ret, b in self.functions())
        return "{| cprog := [%s]; centry := 0; args := %s |}" % (fns, vlib.zlist(self.args))

    def key(self):
        return self.source("t0") + self.call("t0")


# ------------------------------------------------------------------------------------------------ generator

class Gen:
    """Generates functions that satisfy the documented static rules (scopes_and_name_resolution.md,
    numeric_semantics.md) AND that the current checker accepts (it tracks the checker's view of plain
    assignment: `lookup_local`, see DESIGN 12 nested-reassign), so that a generated function is expected to
    build and run."""

    def __init__(self, rng, anchor_p=0.92, paren_extra=0.12):
        self.rng = rng
        self.anchor_p = anchor_p
        self.paren_extra = paren_extra
        self.safe = False
        self.callable = []

    # scopes: list of dicts name -> {"ty","mut","anch"}; shadows: list of sets (checker-only shadow bindings)
    def visible(self, k):
        for sc in reversed(self.scopes):
            if k in sc:
                return sc[k]
        return None

    def vars_of(self, ty, need_mut=False, need_anch=False):
        seen, out = set(), []
        for sc in reversed(self.scopes):
            for k, v in sc.items():
                if k in seen:
                    continue
                seen.add(k)
                if v["ty"] == ty and (v["mut"] or not need_mut) and (v["anch"] or not need_anch):
                    out.append(k)
        return out

    def int_lit(self):
        r = self.rng.random()
        if r < 0.8:
            return ("int", self.rng.randint(0, 12))
        return ("int", self.rng.randint(13, 1000))

    def big_leaf(self):
        """a large literal combined with a parameter: never a closed (constant-foldable) subtree"""
        ps = [k for k, v in self.scopes[0].items() if v["ty"] == "int"]
        big = ("int", self.rng.choice([2**31 - 1, 2**31, 2**32 + 5, 10**12, 2**53 + 1, 2**62, 2**63 - 1, 2**63 - 2, 3037000500]))
        if not ps or self.visible(ps[0]) is not self.scopes[0][ps[0]]:
            return self.int_lit()
        v = ("var", self.rng.choice([p for p in ps if self.visible(p) is self.scopes[0][p]]))
        op = self.rng.choice(["+", "-", "*", "//", "%"])
        return ("bin", op, v, big) if self.rng.random() < 0.6 else ("bin", op, big, v)

    def int_expr(self, d):
        rng = self.rng
        vs = self.vars_of("int")
        r = rng.random()
        if d <= 0 or r < 0.30:
            if vs and rng.random() < 0.6:
                return ("var", rng.choice(vs))
            if rng.random() < 0.06:
                return self.big_leaf()
            return self.int_lit()
        if r < 0.42:
            return ("un", "neg", self.int_expr(d - 1))
        op = rng.choice(ARITH)
        left = self.int_expr(d - 1)
        if op in ("//", "%") and rng.random() < 0.7:
            right = ("int", rng.randint(1, 9))
            if rng.random() < 0.4:
                right = ("un", "neg", right)
        else:
            right = self.int_expr(d - 1)
        return ("bin", op, left, right)

    def bool_expr(self, d):
        rng = self.rng
        vs = self.vars_of("bool")
        r = rng.random()
        if d <= 0 or r < 0.15:
            if vs and rng.random() < 0.6:
                return ("var", rng.choice(vs))
            return ("bool", rng.random() < 0.5)
        if r < 0.30:
            return ("un", "not", self.bool_expr(d - 1))
        if r < 0.55:
            return ("bin", rng.choice(["and", "or"]), self.bool_expr(d - 1), self.bool_expr(d - 1))
        if r < 0.63:
            return ("bin", rng.choice(CMP if rng.random() < 0.3 else ["==", "!="]), self.bool_expr(d - 1), self.bool_expr(d - 1))
        l, rr = self.int_expr(d - 1), self.int_expr(d - 1)
        if rng.random() < self.anchor_p and not (self.anch(l) or self.anch(rr)):
            l = self.anchored(l)
        return ("bin", rng.choice(CMP), l, rr)

    # mirror of C01.Model.anch on the source tree (// and % are helper calls; parens vanish)
    def anch(self, e):
        k = e[0]
        if k == "int":
            return False
        if k == "var":
            v = self.visible(e[1])
            return True if v is None else v["anch"]
        if k == "paren":
            return self.anch(e[1])
        if k == "un":
            return self.anch(e[2])
        if k == "bin":
            if e[1] in ("+", "-", "*"):
                return self.anch(e[2]) or self.anch(e[3])
            return True
        return True

    def anchored(self, e):
        """make the integer chain of e touch an i64 thing (a parameter, a loop variable, a helper result)"""
        av = self.vars_of("int", need_anch=True)
        if av:
            v = ("var", self.rng.choice(av))
            op = self.rng.choice(["+", "-", "*"])
            return ("bin", op, v, e) if self.rng.random() < 0.5 else ("bin", op, e, v)
        return ("bin", "+", ("bin", "%", e, ("int", self.rng.randint(2, 9))), e)

    def top_int(self, d):
        e = self.int_expr(d)
        if self.rng.random() < self.anchor_p and not self.anch(e):
            e = self.anchored(e)
        return e

    def fresh(self, allow_shadow):
        pool = list(range(0, 14))
        self.rng.shuffle(pool)
        for k in pool:
            if k in self.scopes[-1] or k in self.shadows[-1]:
                continue
            if self.visible(k) is None:
                return k
            if allow_shadow:
                return k
        return None

    def fin(self, e):
        if self.safe:
            e = make_safe(e, self.rng, lambda k: (self.visible(k) or {"ty": "int"})["ty"])
        return parenthesize(e, self.rng, self.paren_extra)

    def block(self, depth, in_loop, n, pre=None):
        self.scopes.append(dict(pre or {}))
        self.shadows.append(set())
        out = []
        for _ in range(n):
            out += self.stmt(depth, in_loop)
        if not out:
            out = [("pass",)]
        self.scopes.pop()
        self.shadows.pop()
        return out

    def stmt(self, depth, in_loop):
        rng = self.rng
        if self.callable and rng.random() < 0.2:
            return self.call_stmt()
        r = rng.random()
        if r < 0.22:      # new binding
            kind = rng.choice(["inferred", "let", "mut", "mut"])
            k = self.fresh(allow_shadow=(kind != "inferred"))
            if k is None:
                return [("pass",)]
            ty = "int" if rng.random() < 0.75 else "bool"
            e = self.top_int(2) if ty == "int" else self.bool_expr(2)
            ann = ty if rng.random() < 0.15 else None
            a = self.anch(e)
            st = ("assign", kind, k, ann, self.fin(e))
            self.scopes[-1][k] = {"ty": ty, "mut": kind == "mut", "anch": a}
            return [st]
        if r < 0.40:      # plain reassignment (possibly of an outer variable) or compound assignment
            cands = []
            for ty in ("int", "bool"):
                for k in self.vars_of(ty, need_mut=True):
                    cands.append((k, ty))
            if not cands:
                return [("print", self.fin(self.top_int(2)))]
            k, ty = rng.choice(cands)
            # scope index of the nearest doc binding
            idx = max(i for i, sc in enumerate(self.scopes) if k in sc)
            shadowed_here = k in self.shadows[-1]
            shadowed_between = any(k in self.shadows[i] for i in range(idx, len(self.scopes)))
            if ty == "int" and rng.random() < 0.45 and not shadowed_between:
                op = rng.choice(["+", "-", "*", "//", "%"])
                e = self.int_expr(2)
                if op in ("//", "%") and rng.random() < 0.7:
                    e = ("int", rng.randint(1, 7))
                return [("compound", op, k, self.fin(e))]
            if shadowed_here:
                return [("print", self.fin(("var", k)))]
            e = self.int_expr(2) if ty == "int" else self.bool_expr(2)
            if idx != len(self.scopes) - 1:
                self.shadows[-1].add(k)       # the checker now sees a block-local immutable `k`
            return [("assign", "inferred", k, None, self.fin(e))]
        if r < 0.58:
            e = self.top_int(3) if rng.random() < 0.6 else self.bool_expr(3)
            return [("print", self.fin(e))]
        if r < 0.64 and depth > 0:
            lad = self.ladder(depth, in_loop)
            if lad is not None:
                return lad
        if r < 0.72 and depth > 0:
            c = self.fin(self.bool_expr(2))
            th = self.block(depth - 1, in_loop, rng.randint(1, 2))
            elifs = []
            while rng.random() < 0.3 and len(elifs) < 2:
                elifs.append((self.fin(self.bool_expr(2)), self.block(depth - 1, in_loop, rng.randint(1, 2))))
            el = self.block(depth - 1, in_loop, rng.randint(1, 2)) if rng.random() < 0.5 else None
            return [("if", c, th, elifs, el)]
        if r < 0.80 and depth > 0:
            return self.while_loop(depth)
        if r < 0.90 and depth > 0:
            k = self.fresh(allow_shadow=False)
            if k is None:
                return [("pass",)]
            n = rng.choice([1, 1, 2, 2, 3])
            args = []
            for i in range(n):
                if i == 2:
                    a = ("int", rng.choice([1, 2, 3, 1, 2, 0])) if rng.random() < 0.9 else self.int_expr(1)
                    if rng.random() < 0.35:
                        a = ("un", "neg", a)
                elif rng.random() < 0.7:
                    a = ("int", rng.randint(0, 6))
                    if rng.random() < 0.2:
                        a = ("un", "neg", a)
                else:
                    a = ("bin", "%", self.int_expr(1), ("int", rng.randint(2, 6)))
                args.append(self.fin(a))
            body = self.block(depth - 1, True, rng.randint(1, 2), pre={k: {"ty": "int", "mut": False, "anch": True}})
            return [("for", k, args, body)]
        if in_loop and r < 0.94:
            return [("if", self.fin(self.bool_expr(1)), [(rng.choice(["break", "continue"]),)], [], None)]
        if r < 0.96:
            return [("pass",)]
        e = self.top_int(3) if rng.random() < 0.5 else self.bool_expr(3)
        return [("print", self.fin(e))]

    def ladder(self, depth, in_loop):
        """if/elif ladder with 0,1,2,3 or 5 elifs whose conditions OVERLAP (descending / ascending thresholds or divisibility
        tests on one anchored int variable): which branch runs depends on the order the conditions are tested in"""
        rng = self.rng
        vs = self.vars_of("int", need_anch=True)
        if not vs:
            return None
        v = ("var", rng.choice(vs))
        n = rng.choice(LADDER_SIZES) + 1
        kind = rng.choice(["desc", "asc", "mod"])
        if kind == "desc":
            conds = [("bin", ">=", v, ("int", t)) for t in sorted(rng.sample(range(-9, 12), n), reverse=True)]
        elif kind == "asc":
            conds = [("bin", "<", v, ("int", t)) for t in sorted(rng.sample(range(-8, 13), n))]
        else:
            conds = [("bin", "==", ("bin", "%", v, ("int", m)), ("int", 0)) for m in rng.sample([2, 3, 4, 5, 6, 7, 8, 9], n)]
        conds = [c if c[3][1] >= 0 or c[1] == "==" else ("bin", c[1], c[2], ("un", "neg", ("int", -c[3][1]))) for c in conds]
        self.ladders = getattr(self, "ladders", 0) + 1
        mk = lambda i: [("print", ("int", 500 + i))] if rng.random() < 0.7 or depth < 2 else self.block(depth - 1, in_loop, 1)
        th = mk(0)
        elifs = [(self.fin(c), mk(i + 1)) for i, c in enumerate(conds[1:])]
        el = mk(n) if rng.random() < 0.6 else None
        return [("if", self.fin(conds[0]), th, elifs, el)]

    def while_loop(self, depth):
        """terminating by construction: a dedicated counter decremented first thing in the body"""
        rng = self.rng
        k = self.fresh(allow_shadow=True)
        if k is None:
            return [("pass",)]
        init = ("bin", "%", self.int_expr(1), ("int", rng.randint(2, 5)))
        self.scopes[-1][k] = {"ty": "int", "mut": True, "anch": True}
        pre = [("assign", "mut", k, None, self.fin(init))]
        dec = ("compound", "-", k, ("int", 1))
        if rng.random() < 0.25:
            cond = ("bool", True)
            guard = [("if", ("bin", "<=", ("var", k), ("int", 0)), [("break",)], [], None)]
            body = guard + [dec] + self.block_inner(depth - 1, rng.randint(1, 2), k)
        else:
            cond = ("bin", ">", ("var", k), ("int", 0))
            if rng.random() < 0.3:
                cond = ("bin", "and", cond, self.bool_expr(1))
            body = [dec] + self.block_inner(depth - 1, rng.randint(1, 2), k)
        return pre + [("while", self.fin(cond), body)]

    def block_inner(self, depth, n, counter):
        # the counter must not be reassigned by the body: hide its mutability while generating it
        ent = None
        for sc in reversed(self.scopes):
            if counter in sc:
                ent = sc[counter]
                break
        old = ent["mut"]
        ent["mut"] = False
        b = self.block(depth, True, n)
        ent["mut"] = old
        return b

    # ---- calls
    def call_expr(self):
        rng = self.rng
        k, ps, ret, _ = rng.choice(self.callable)
        vals = {}
        for p in ps:
            if rng.random() < 0.6:
                vs = self.vars_of("int")
                vals[p] = ("var", rng.choice(vs)) if vs and rng.random() < 0.6 else ("int", rng.randint(0, 12))
            else:
                vals[p] = self.fin(self.int_expr(1))
        mode = rng.choice(["pos", "pos", "kw", "kwrev", "mixed"]) if ps else "pos"
        if mode == "pos":
            return ("call", k, [vals[p] for p in ps], []), ret
        if mode == "kw":
            return ("call", k, [], [(p, vals[p]) for p in ps]), ret
        if mode == "kwrev":
            order = list(reversed(ps))
            return ("call", k, [], [(p, vals[p]) for p in order]), ret
        rest = list(ps[1:])
        rng.shuffle(rest)
        return ("call", k, [vals[ps[0]]], [(p, vals[p]) for p in rest]), ret

    def call_stmt(self):
        rng = self.rng
        c, ret = self.call_expr()
        if not ret:
            return [("cexpr", c)]
        r = rng.random()
        if r < 0.5:
            kind = rng.choice(["inferred", "let", "mut"])
            x = self.fresh(allow_shadow=(kind != "inferred"))
            if x is not None:
                self.scopes[-1][x] = {"ty": "int", "mut": kind == "mut", "anch": True}
                return [("cassign", kind, x, "int" if rng.random() < 0.1 else None, c)]
        if r < 0.9:
            return [("cprint", c)]
        return [("cexpr", c)]

    def gen_function(self, params, ret, n):
        rng = self.rng
        self.scopes = [{p: {"ty": "int", "mut": False, "anch": True} for p in params}]
        self.shadows = [set()]
        body = []
        for _ in range(n):
            body += self.stmt(2, False)
        if ret is None:
            return body
        if rng.random() < 0.4:
            early = ("ret", self.fin(self.top_int(1))) if ret else ("ret", None)
            body.append(("if", self.fin(self.bool_expr(1)), [early], [], None))
            body += self.stmt(1, False)
        if ret:
            if rng.random() < 0.25:
                body.append(("if", self.fin(self.bool_expr(1)), [("ret", self.fin(self.top_int(1)))], [], [("ret", self.fin(self.top_int(1)))]))
            else:
                body.append(("ret", self.fin(self.top_int(2))))
        return body

    def case(self):
        rng = self.rng
        self.safe = rng.random() < 0.6
        helpers = []
        self.callable = []
        for k in range(1, 1 + rng.choice([0, 0, 1, 2, 2])):
            ps = list(range(rng.choice([0, 1, 2, 2, 3])))
            ret = rng.random() < 0.7
            b = self.gen_function(ps, ret, rng.randint(1, 3))
            helpers.append((k, ps, ret, b))
            self.callable.append((k, ps, ret, b))
        np_ = rng.choice([0, 1, 2, 2, 2, 3])
        params = list(range(np_))
        body = self.gen_function(params, None, rng.randint(2, 5))
        if rng.random() < 0.15:
            body.append(("if", self.fin(self.bool_expr(1)), [("ret", None)], [], None))
            body += self.stmt(1, False)
        args = []
        for _ in params:
            r = rng.random()
            if r < 0.7:
                args.append(rng.randint(-9, 9))
            elif r < 0.9:
                args.append(rng.randint(-1000, 1000))
            else:
                args.append(rng.choice([I64_MAX, I64_MIN + 1, 2**31, -2**31, 2**62, 0]))
        return Case(params, args, body, helpers=helpers)


def expr_case(e, params=(), args=()):
    return Case(list(params), list(args), [("print", e)], origin="corpus")


def corpus():
    """fixed inputs that always run first: the witnesses of the known findings and regression shapes"""
    i = lambda n: ("int", n)
    v = lambda k: ("var", k)
    b = lambda o, l, r: ("bin", o, l, r)
    p = lambda e: ("paren", e)
    cs = [
        expr_case(b("*", p(b("+", i(1), i(2))), p(b("-", i(3), i(4))))),                       # grouping witness
        expr_case(("un", "not", b("==", i(1), i(2)))),                                         # not over ==
        expr_case(("un", "neg", p(b("+", v(0), i(2)))), [0], [5]),
        expr_case(b("-", v(0), p(b("-", v(1), i(4)))), [0, 1], [10, 3]),
        expr_case(("un", "not", p(b("and", ("bool", True), ("bool", False))))),
        expr_case(b("and", p(b("or", ("bool", True), ("bool", False))), ("bool", False))),
        expr_case(b("*", b("%", v(0), i(3)), p(b("//", v(1), ("un", "neg", i(2))))), [0, 1], [-7, 7]),
        Case([], [], [("assign", "mut", 1, None, i(2000000000)), ("assign", "inferred", 1, None, b("*", v(1), i(2))),
                      ("print", v(1))], origin="corpus"),                                      # int-fallback witness
        Case([0], [3], [("assign", "mut", 1, None, b("+", v(0), i(1))),
                        ("if", b(">", v(1), i(0)), [("assign", "inferred", 1, None, b("*", v(1), i(10)))], [], None),
                        ("print", v(1))], origin="corpus"),                                    # documented outer reassign
        Case([0], [0], [("print", b("//", i(7), v(0)))], origin="corpus"),                      # ZeroDivisionError
        Case([0], [0], [("for", 1, [i(0), i(3), v(0)], [("print", v(1))])], origin="corpus"),   # ValueError step 0
        Case([0], [-7], [("print", b("//", v(0), i(2))), ("print", b("%", v(0), i(3))), ("print", b("%", i(7), ("un", "neg", i(3))))],
             origin="corpus"),
        # calls: keyword arguments out of declaration order, mixed, early return, a None function
        Case([0], [3], [("cprint", ("call", 1, [], [(1, v(0)), (0, i(2))])), ("cassign", "let", 5, None, ("call", 1, [i(7)], [(1, i(4))])),
                        ("print", v(5)), ("cexpr", ("call", 2, [v(0)], [])), ("cprint", ("call", 1, [i(1), i(2)], []))],
             origin="corpus",
             helpers=[(1, [0, 1], True, [("if", b(">", v(1), i(3)), [("ret", b("-", v(1), v(0)))], [], None), ("ret", b("-", b("*", v(0), i(10)), v(1)))]),
                      (2, [0], False, [("print", b("+", v(0), i(100))), ("if", b(">", v(0), i(0)), [("ret", None)], [], None), ("print", i(0))])]),
    ]
    return cs + ladder_corpus()


def ladder_corpus():
    """threshold ladders with 0,1,2,3,5 elifs, one function per size, called with an argument in the overlap of the last two
    conditions; `expect` is the line the FIRST true condition prints (computed here, independently of Coq and of the compiler):
    the instance of C01_elif_first_true the run ties to the model (Dynamic.run) and to the real binary"""
    i = lambda n: ("int", n)
    out = []
    for n_elif in LADDER_SIZES + LADDER_SCALE:
        ts = [10 * (n_elif + 1 - k) for k in range(n_elif + 1)]
        for arg in sorted({ts[-1] + 5, ts[0] + 1, ts[len(ts) // 2] + 1, ts[-1] - 3}):
            conds = [("bin", ">=", ("var", 0), i(t)) for t in ts]
            body = [("if", conds[0], [("print", i(1000))], [(c, [("print", i(1001 + k))]) for k, c in enumerate(conds[1:])], [("print", i(2000))])]
            c = Case([0], [arg], body, origin="corpus")
            first = next((k for k, t in enumerate(ts) if arg >= t), None)
            c.expect = [(0, 2000 if first is None else 1000 + first)]
            out.append(c)
        # order observable without overlap: an earlier condition that raises ZeroDivisionError
        if n_elif >= 2:
            conds = [("bin", ">=", ("var", 0), i(9000)), ("bin", "==", ("bin", "//", i(7), ("var", 1)), i(0))] + \
                    [("bin", ">=", ("var", 0), i(10 * (n_elif - k))) for k in range(n_elif - 1)]
            body = [("if", conds[0], [("print", i(1000))], [(c, [("print", i(1001 + k))]) for k, c in enumerate(conds[1:])], None)]
            c = Case([0, 1], [15, 0], body, origin="corpus")
            c.expect_stop = 1
            out.append(c)
    return out


# ------------------------------------------------------------------------------------------------ real tokens -> codes

PATHS = {("incan_stdlib", "::", "num", "::", "py_mod_i64"): 10, ("incan_stdlib", "::", "num", "::", "py_mod"): 11,
         ("incan_stdlib", "::", "num", "::", "py_floor_div_i64"): 12, ("incan_stdlib", "::", "num", "::", "py_floor_div"): 13,
         ("incan_stdlib", "::", "iter", "::", "range"): 15}
SIMPLE = {"true": [3], "false": [4], "+": [20], "-": [21], "*": [22], "==": [23], "!=": [24], "<": [25], "<=": [26],
          ">": [27], ">=": [28], "&&": [29], "||": [30], "!": [31], "let": [40], "mut": [41], "if": [42], "else": [43],
          "while": [44], "loop": [45], "for": [46], "in": [47], "break": [48], "continue": [49], "return": [50], "fn": [51], ";": [60], ",": [61],
          "=": [62], "println": [64], '"{}"': [65], "as": [66], "i64": [67], "(": [70], ")": [71], "{": [72], "}": [73]}
PUNCT2 = ["==", "!=", "<=", ">=", "&&", "||", "::", "->"]


def split_punct(t):
    if not t or t[0].isalnum() or t[0] in "_\"'" or t in SIMPLE or t in ("::", "->"):
        return [t]
    out, i = [], 0
    while i < len(t):
        if t[i:i + 2] in PUNCT2:
            out.append(t[i:i + 2])
            i += 2
        else:
            out.append(t[i])
            i += 1
    return out


def real_codes(tokens):
    toks = []
    for t in tokens:
        toks += split_punct(t)
    # prettyplease breaks long argument lists over lines and adds a trailing comma: `f(a, b, )`
    toks = [t for j, t in enumerate(toks) if not (t == "," and j + 1 < len(toks) and toks[j + 1] == ")")]
    out, i = [], 0
    while i < len(toks):
        t = toks[i]
        if t == "incan_stdlib":
            key = tuple(toks[i:i + 5])
            if key in PATHS:
                out.append(PATHS[key])
                i += 5
                continue
        if t == "!" and i > 0 and toks[i - 1] == "println":
            out.append(63)
        elif re.fullmatch(r"v\d+", t):
            out += [2, int(t[1:])]
        elif re.fullmatch(r"f\d+", t):
            out += [5, int(t[1:])]
        elif re.fullmatch(r"\d+", t):
            out += [1, int(t)]
        elif t in SIMPLE:
            out += SIMPLE[t]
        else:
            out += [-1, t]
        i += 1
    return out


def file_codes(fns, names):
    """codes of the emitted function items `fn f(p: i64, ..) [-> i64] { body }` in declaration order"""
    out = []
    for n in names:
        f = fns.get(n)
        if f is None:
            out += [-1, "missing fn " + n]
            continue
        sig = []
        for t in f["sig"]:
            sig += split_punct(t)
        close = len(sig) - 1 - sig[::-1].index(")") if ")" in sig else len(sig)
        params = [t for t in sig[:close] if re.fullmatch(r"v\d+", t)]
        out += [51, 5, int(n[1:]), 70]
        for j, p in enumerate(params):
            out += [2, int(p[1:]), 68, 67] + ([61] if j + 1 < len(params) else [])
        out.append(71)
        if "i64" in sig[close:]:
            out += [69, 67]
        out += [72] + real_codes(f["body"]) + [73]
    return out


# ------------------------------------------------------------------------------------------------ model

REQ = ("From Verif Require Import Base.I64 C04.Model Core.Syntax Core.Dynamic Core.Rust Core.Lower C01.Model.\n"
       "From Coq Require Import ZArith List. Import ListNotations. Open Scope Z_scope.")
MODEL_TYPE = "fcase"
STOPS = {0: "Done", 1: "ZeroDivisionError", 2: "ValueError(range step 0)", 3: "unspecified(overflow)", 4: "panic(other)",
         5: "out-of-fuel", 6: "stuck"}


def eval_model(cases, tag="c01"):
    res = vlib.coq_eval(REQ, MODEL_TYPE, "run_case default_fuel", [c.coq() for c in cases], shard=max(8, (len(cases) + 15) // 16), tag=tag)
    out = []
    for r in res:
        (src_lines, src_stop, rust, flags, codes) = r       # Coq prints left-nested pairs flat
        src = (src_lines, src_stop)
        out.append({"src": ([tuple(x) for x in src[0]], src[1]),
                    "status": rust[0], "rust": ([tuple(x) for x in rust[1][0]], rust[1][1]), "typed": rust[2],
                    "grouping": flags[0], "fallback": flags[1], "calls_wf": flags[2], "codes": list(codes)})
    return out


# ------------------------------------------------------------------------------------------------ real pipeline

def emit_real(binary, sources):
    text = "".join(s.replace("\n", "\\n") + "\n" for s in sources)
    out = vlib.run_harness(binary, ["run", "c01", "emit"], text, timeout=1200).split("\n")
    res = [json.loads(l) for l in out if l]
    if len(res) != len(sources):
        raise vlib.Infra("c01 emit: %d results for %d programs" % (len(res), len(sources)))
    return res


def gen_env():
    e = dict(os.environ)
    e["CARGO_TARGET_DIR"] = os.path.join(vlib.BUILD, "gen-target")
    e["CARGO_NET_OFFLINE"] = "true"
    return e


def scratch_dir(tag):
    d = os.path.join(vlib.BUILD, "%s-run-%d" % (tag, os.getpid()))
    shutil.rmtree(d, ignore_errors=True)
    os.makedirs(d)
    return d


def build_programs(binary, d, progs):
    """progs: list of (stem, source). Builds each with the real `incan build` path (sequentially: one shared
    cargo target dir). Returns {stem: (ok, message, binary_path)}."""
    for stem, src in progs:
        open(os.path.join(d, stem + ".incn"), "w").write(src)
    text = "".join("%s\t%s\n" % (d, stem) for stem, _ in progs)
    env = gen_env()
    t0 = time.time()
    p = subprocess.run([binary, "run", "c01", "build"], input=text, capture_output=True, text=True, env=env, timeout=3600)
    if p.returncode != 0:
        raise vlib.Infra("c01 build runner failed: " + p.stderr[-2000:])
    res = {}
    for l in p.stdout.split("\n"):
        if l.startswith("@@ "):
            parts = l.split(" ", 3)
            stem, ok = parts[1], parts[2] == "ok"
            res[stem] = (ok, (parts[3] if len(parts) > 3 else "").replace("\\n", "\n"), os.path.join(env["CARGO_TARGET_DIR"], "release", stem))
    vlib.log("[c01] built %d generated program(s) in %.1fs" % (len(progs), time.time() - t0))
    for stem, _ in progs:
        if stem not in res:
            raise vlib.Infra("c01 build runner: no verdict for " + stem)
        ok, msg, _ = res[stem]
        if not ok and ("could not resolve" in msg.lower() or "failed to get" in msg or "no space left" in msg.lower()
                       or "Blocking waiting" in msg and "error" not in msg):
            raise vlib.Infra("cargo infrastructure failure while building %s: %s" % (stem, msg[-1500:]))
    return res


def batch_source(names_cases):
    parts = [c.source(n) for n, c in names_cases]
    main = ["def main() -> None:"]
    for n, c in names_cases:
        main.append('    println("@@%s")' % n)
        main.append("    " + c.call(n))
    main.append('    println("@@end")')
    return "\n".join(parts) + "\n" + "\n".join(main) + "\n"


def parse_line(s):
    if s == "true":
        return (1, 1)
    if s == "false":
        return (1, 0)
    try:
        return (0, int(s))
    except ValueError:
        return (9, s)


def run_binary(path, names, timeout=60):
    """Returns {name: (lines, stop)} for the functions that started; stop in 0 Done / 1 ZeroDiv / 2 StepZero /
    4 other panic / 7 timeout / 8 other exit.  Every generated function terminates within milliseconds by construction
    (the model run finished within its fuel); a time-out is retried once with 10 minutes (machine load) before it counts."""
    rc = None
    for limit in (timeout, 600):
        try:
            p = subprocess.run([path], capture_output=True, text=True, timeout=limit)
            rc, out, err = p.returncode, p.stdout, p.stderr
            break
        except subprocess.TimeoutExpired as e:
            rc, out, err = "timeout", (e.stdout or b"").decode("utf-8", "replace") if isinstance(e.stdout, bytes) else (e.stdout or ""), ""
    res, cur = {}, None
    order = []
    for l in out.split("\n"):
        if l.startswith("@@"):
            cur = l[2:]
            if cur != "end":
                res[cur] = [[], 0]
                order.append(cur)
            continue
        if l == "" or cur is None or cur == "end":
            continue
        res[cur][0].append(parse_line(l))
    ended = out.rstrip("\n").endswith("@@end")
    if not (rc == 0 and ended) and order:
        last = order[-1]
        if rc == "timeout":
            res[last][1] = 7
        elif "ZeroDivisionError: float division by zero" in err:
            res[last][1] = 1
        elif "ValueError: range() arg 3 must not be zero" in err:
            res[last][1] = 2
        elif "panicked" in err:
            res[last][1] = 4
        else:
            res[last][1] = 8
    return {k: (v[0], v[1]) for k, v in res.items()}, (rc, err[-400:])


# ------------------------------------------------------------------------------------------------ the check

def load_findings(chk, prop):
    return {f["id"]: f for f in chk.findings if f.get("status") == "known"}


def describe(case, name="t0"):
    return case.source(name) + "# call: " + case.call(name)


def lint_culprits(msg, main_rs):
    """names of the functions in which rustc reported ONLY constant-overflow lint errors; None if the build failed for
    any other reason as well"""
    try:
        lines = open(main_rs).read().split("\n")
    except OSError:
        return None
    starts = [(i + 1, m.group(1)) for i, l in enumerate(lines) for m in [re.match(r"\s*fn (\w+)\(", l)] if m]
    bad = set()
    blocks = re.split(r"\n(?=error|warning)", msg)
    for b in blocks:
        if not b.startswith("error"):
            continue
        if b.startswith("error: could not compile") or b.startswith("error: aborting"):
            continue
        if "this arithmetic operation will overflow" not in b:
            return None
        m = re.search(r"--> src/main\.rs:(\d+):", b)
        if not m:
            return None
        ln = int(m.group(1))
        owner = None
        for st, name in starts:
            if st <= ln:
                owner = name
        if owner is None:
            return None
        bad.add(owner)
    return bad


def clean_gen_target(stems):
    base = os.path.join(vlib.BUILD, "gen-target", "release")
    for stem in stems:
        for sub, pat in (("", stem), ("", stem + ".d"), ("deps", stem + "-"), (".fingerprint", stem + "-")):
            dd = os.path.join(base, sub)
            if not os.path.isdir(dd):
                continue
            for f in os.listdir(dd):
                if (sub == "" and f == pat) or (sub != "" and f.startswith(pat)):
                    fp = os.path.join(dd, f)
                    shutil.rmtree(fp, ignore_errors=True) if os.path.isdir(fp) else os.remove(fp)


def pipeline(chk, binary, cases, known, n_batches, batch_size, n_panic, n_fallback=10):
    """ties + oracle for a list of cases. Returns (fails, corr_bad, stats)."""
    stats = {}
    model_ok = vlib.coq_build(["C01/Model.vo"])[0]
    model = eval_model(cases) if model_ok else None
    stats["model_ok"] = model_ok
    real = emit_real(binary, [c.source("t0") + "def main() -> None:\n    " + c.call("t0") + "\n" for c in cases])
    fails, corr_bad, rejected, dist = [], [], [], {}
    usable, suspects = [], []
    for i, c in enumerate(cases):
        r = real[i]
        if "panic" in r:
            fails.append({"case": describe(c), "why": "the compiler panicked: " + r["panic"], "stage": "front end / codegen"})
            continue
        if r.get("parse") != "ok":
            corr_bad.append({"case": describe(c), "tie": "generator/parser", "real": r.get("parse")})
            continue
        want = c.sexps()
        if {k: r["ast"].get(k) for k in want} != want:
            corr_bad.append({"case": describe(c), "tie": "parser tree (the real parser reads the text differently from the generator's tree)",
                             "real": {k: r["ast"].get(k) for k in want}, "generator": want})
            continue
        if r["check"]:
            rejected.append({"case": describe(c), "checker": r["check"][:2]})
            continue
        m = model[i] if model else None
        if r["gen"] != "ok":
            # the checker accepted, code generation failed: that is C02's failing input; here only the tie is judged
            if m and m["status"] == 0:
                corr_bad.append({"case": describe(c), "tie": "lowering/emission verdict", "real": r["gen"], "model": "ok"})
            continue
        if m:
            if m["status"] == 1:
                corr_bad.append({"case": describe(c), "tie": "lowering verdict", "real": "ok", "model": "lowering error"})
                continue
            rc = file_codes(r["fns"], c.fn_names())
            if rc != m["codes"]:
                k = next((j for j in range(min(len(rc), len(m["codes"]))) if rc[j] != m["codes"][j]), min(len(rc), len(m["codes"])))
                corr_bad.append({"case": describe(c), "tie": "emitted Rust tokens", "first_difference_at": k,
                                 "real": {k: " ".join(r["fns"].get(k, {}).get("body", [])) for k in c.fn_names()}, "real_codes": rc[max(0, k - 6):k + 6], "model_codes": m["codes"][max(0, k - 6):k + 6]})
                # the difference is explained on the real binary: does THIS function still behave as its source says?
                suspects.append(i)
                continue
        usable.append(i)
    if model:
        for i, c in enumerate(cases):
            want = getattr(c, "expect", None)
            if want is not None and (list(model[i]["src"][0]) != want or model[i]["src"][1] != 0):
                corr_bad.append({"case": describe(c), "tie": "C01_elif_first_true instance: Dynamic.run vs the first-true-condition prediction",
                                 "model": model[i]["src"], "prediction": want})
            if getattr(c, "expect_stop", None) is not None and model[i]["src"][1] != c.expect_stop:
                corr_bad.append({"case": describe(c), "tie": "C01_elif_first_stop instance: Dynamic.run vs the prediction (ZeroDivisionError)",
                                 "model": model[i]["src"], "prediction": STOPS[c.expect_stop]})
    stats["emit_text_compared"] = len(usable)
    stats["rejected"] = rejected
    vlib.log("[c01] %d functions: %d usable after parser/emission ties, %d tie mismatches, %d rejected by the checker"
             % (len(cases), len(usable), len(corr_bad), len(rejected)))

    observed, build_fail_known = {}, {}
    if model:
        runnable = [i for i in usable if model[i]["status"] == 0 and model[i]["typed"]]
        done = [i for i in runnable if model[i]["rust"][1] == 0 and model[i]["src"][1] in (0, 3) and not model[i]["fallback"]]
        done.sort(key=lambda i: (cases[i].origin != "corpus",))
        fb = [i for i in runnable if model[i]["rust"][1] == 0 and model[i]["src"][1] in (0, 3) and model[i]["fallback"]]
        fb.sort(key=lambda i: (cases[i].origin != "corpus",))
        pan = [i for i in runnable if model[i]["rust"][1] in (1, 2, 4) and not model[i]["fallback"]]
        pan.sort(key=lambda i: (cases[i].origin != "corpus",))
        progs, layout = [], {}
        tagp = "c01s%dp%d" % (chk.seed % 100000, os.getpid() % 100000)
        for b in range(n_batches):
            chunk = done[b * batch_size:(b + 1) * batch_size]
            if not chunk:
                break
            stem = "%sb%d" % (tagp, b)
            layout[stem] = [("t%d" % i, i) for i in chunk]
        if fb and n_fallback:
            layout[tagp + "f0"] = [("t%d" % i, i) for i in fb[:n_fallback]]
        sus = [i for i in suspects if model[i]["src"][1] == 0 and not model[i]["fallback"] and not model[i]["grouping"]][:60]
        if sus:
            layout[tagp + "m0"] = [("t%d" % i, i) for i in sus]
        for b, i in enumerate(pan[:n_panic]):
            layout["%sz%d" % (tagp, b)] = [("t%d" % i, i)]
        for stem, members in layout.items():
            progs.append((stem, batch_source([(n, cases[i]) for n, i in members])))
        d = scratch_dir("c01")
        try:
            built = build_programs(binary, d, progs)
            # rustc's deny-by-default lint `arithmetic_overflow` rejects functions in which it can fold an overflowing
            # constant computation (the documentation leaves overflow unspecified): drop exactly those functions, rebuild once
            retry = []
            for stem, src in list(progs):
                ok, msg, path = built[stem]
                if ok or "this arithmetic operation will overflow" not in msg:
                    continue
                bad_fns = lint_culprits(msg, os.path.join(d, "out_" + stem, "src", "main.rs"))
                if bad_fns is None:
                    continue
                bad_idx = {int(x[1:]) // 10 for x in bad_fns if re.fullmatch(r"f\d+", x)}
                keep = [(n, i) for n, i in layout[stem] if int(n[1:]) not in bad_idx]
                stats.setdefault("const_overflow_lint", []).extend(describe(cases[i], n) for n, i in layout[stem] if int(n[1:]) in bad_idx)
                if keep:
                    layout[stem + "r"] = keep
                    retry.append((stem + "r", batch_source([(n, cases[i]) for n, i in keep])))
                progs.remove((stem, src))
            if retry:
                built.update(build_programs(binary, d, retry))
                progs += retry
            for stem, src in progs:
                ok, msg, path = built[stem]
                if not ok:
                    if stem.endswith("f0") and ("i32" in msg) and "int-fallback" in known:
                        # members of Known_C01_int_fallback: rustc typed a literal/constant computation as i32 and rejected it
                        build_fail_known["int-fallback"] = msg[-600:]
                        continue
                    corr_bad.append({"case": src[:4000], "tie": "rustc rejected a batch of functions the model types as valid Rust", "real": msg[-2500:]})
                    continue
                obs, (rc, err) = run_binary(path, [n for n, _ in layout[stem]])
                for n, i in layout[stem]:
                    if n in obs:
                        observed[i] = obs[n]
        finally:
            shutil.rmtree(d, ignore_errors=True)
            clean_gen_target([stem for stem, _ in progs])
        vlib.log("[c01] real binaries: %d program(s), %d functions observed" % (len(progs), len(observed)))

    known_hits = {k: [] for k in build_fail_known}
    for i, (lines, stop) in sorted(observed.items()):
        c, m = cases[i], model[i]
        got = (list(lines), stop)
        key = (STOPS.get(m["src"][1], "?"), "grouping" if m["grouping"] else "", "int-fallback" if m["fallback"] else "",
               "calls" if cases[i].helpers else "", "" if m["calls_wf"] else "kwargs-reordered-nonatomic(outside theorem)")
        dist[str(key)] = dist.get(str(key), 0) + 1
        chk.count_case(c.key(), nontrivial=(len(lines) > 0))
        exp_src = (list(m["src"][0]), m["src"][1])
        exp_rust = (list(m["rust"][0]), m["rust"][1])
        if m["src"][1] == 3:     # unspecified from some point on: the defined prefix must still be printed
            bad_oracle = got[0][:len(exp_src[0])] != exp_src[0]
        else:
            bad_oracle = m["src"][1] in (0, 1, 2) and got != exp_src
        if bad_oracle:
            cls = [k for k, flag in (("grouping", m["grouping"]), ("int-fallback", m["fallback"])) if flag]
            listed = [k for k in cls if k in known]
            if listed:
                for k in listed:
                    known_hits.setdefault(k, []).append(i)
                continue
            fails.append({"case": describe(c), "coq_case": c.coq(), "program": batch_source([("t0", c)]),
                          "expected_by_documented_semantics": {"lines": exp_src[0], "stop": STOPS.get(exp_src[1])},
                          "actual_binary": {"lines": got[0], "stop": STOPS.get(got[1], got[1])},
                          "rust_side_model": {"lines": exp_rust[0], "stop": STOPS.get(exp_rust[1])},
                          "classes": cls, "why": "the compiled program does not behave as the source says"})
            continue
        if got != exp_rust and not m["fallback"] and i not in suspects:
            corr_bad.append({"case": describe(c), "tie": "Rust-side model vs real binary", "real": got, "model": exp_rust})
    stats.update({"distribution": dist, "observed": len(observed), "known_hits": known_hits, "model": model})
    return fails, corr_bad, stats


def arm_hits(cases):
    """how often the generated functions reach each arm of the hand models (statement / els / expression constructors of
    Core/Syntax.v = the arms of Dynamic.exec_*, Lower.lower_*, the emitter and the Rust-side evaluator)"""
    h = {}

    def bump(k):
        h[k] = h.get(k, 0) + 1

    def ex(e):
        k = e[0]
        bump({"int": "EInt", "bool": "EBool", "var": "EVar", "paren": "EParen"}.get(k, k) if k not in ("un", "bin") else ("EUn " + e[1] if k == "un" else "EBin " + e[1]))
        if k == "paren":
            ex(e[1])
        elif k == "un":
            ex(e[2])
        elif k == "bin":
            ex(e[2]); ex(e[3])

    def cx(c):
        if c[0] == "call":
            bump("CCall pos=%d kw=%d" % (min(len(c[2]), 3), min(len(c[3]), 3)))
            for a in c[2]:
                ex(a)
            for _, a in c[3]:
                ex(a)
        else:
            bump("CPure"); ex(c)

    def blk(b, depth):
        bump("block depth %d" % min(depth, 4))
        for s in b:
            k = s[0]
            if k in ("assign", "cassign"):
                bump("SAssign %s%s" % (s[1], " annotated" if s[3] else ""))
                cx(s[4])
            elif k == "compound":
                bump("SCompound " + s[1]); ex(s[3])
            elif k == "if":
                bump("SIf elifs=%d %s" % (len(s[3]), "else" if s[4] is not None else "no-else"))
                ex(s[1]); blk(s[2], depth + 1)
                for c, b2 in s[3]:
                    bump("EElif"); ex(c); blk(b2, depth + 1)
                if s[4] is not None:
                    bump("EElse"); blk(s[4], depth + 1)
                else:
                    bump("ENone")
            elif k == "while":
                bump("SWhile" + (" (loop)" if s[1] == ("bool", True) else "")); ex(s[1]); blk(s[2], depth + 1)
            elif k == "for":
                bump("SFor R%d" % len(s[2]))
                for a in s[2]:
                    ex(a)
                blk(s[3], depth + 1)
            elif k in ("print", "cprint"):
                bump("SPrint"); cx(s[1])
            elif k == "cexpr":
                bump("SExpr"); cx(s[1])
            elif k == "ret":
                bump("SReturn " + ("None" if s[1] is None else "value"))
                if s[1] is not None:
                    cx(s[1])
            else:
                bump({"pass": "SPass", "break": "SBreak", "continue": "SContinue"}[k])

    for c in cases:
        bump("functions per program %d" % len(c.functions()))
        for _, ps, ret, b in c.functions():
            bump("fdef params=%d ret=%s" % (len(ps), ret))
            blk(b, 0)
    return h


MODEL_ARMS = ["EInt", "EBool", "EVar", "EParen", "EUn neg", "EUn not"] + ["EBin " + o for o in ARITH + CMP + ["and", "or"]] + \
             ["CPure", "SAssign inferred", "SAssign let", "SAssign mut", "SAssign mut annotated", "SCompound +", "SCompound -", "SCompound *", "SCompound //",
              "SCompound %", "EElif", "EElse", "ENone", "SWhile", "SWhile (loop)", "SFor R1", "SFor R2", "SFor R3", "SPrint", "SExpr", "SReturn None",
              "SReturn value", "SPass", "SBreak", "SContinue"] + ["SIf elifs=%d %s" % (n, e) for n in LADDER_SIZES for e in ("else", "no-else")]


def gen_cases(chk, n_gen):
    g = Gen(chk.rng)
    cases = corpus()
    seen = set(c.key() for c in cases)
    while len(cases) < n_gen:
        c = g.case()
        if c.key() in seen:
            continue
        seen.add(c.key())
        cases.append(c)
    return cases


def run(chk):
    chk.trusted = [
        "Coq 8.16.1 kernel (coqc, vm_compute); no axioms (every theorem closed under the global context)",
        "hand-written models coq/Core/{Dynamic,Lower,Rust}.v: source semantics written from the language reference; lowering+emission "
        "model of lower/{expr,stmt}.rs + emit/{expressions,statements}.rs + determine_binop_plan (tied by the token-text run); "
        "Rust grammar/semantics model (tied by the real-binary run)",
        "C04 kernels regenerated by rs2v (py_mod_i64 / py_floor_div_i64 meaning), Base/I64.v wrapping arithmetic",
        "rustc 1.95 / cargo / LLVM (the real binary is what is observed), proc_macro2 tokenizer, the vharness c01 adapter, this script's differ",
    ]
    chk.assumptions = [
        "scope proved: the MiniIncan fragment listed in coverage.constructs; everything outside it is not covered by C01 yet",
        "integer overflow is not specified by the documentation: source runs ending in `unspecified(overflow)` are excluded from the theorem "
        "and compared only against the Rust-side model (wrapping)",
        "one test function per Coq case; call/return between user functions is outside the Coq fragment",
        "models, lists, lvalue paths, slices, len, calls with keyword arguments, mut list parameters, return values and keyword-like names "
        "(coverage.wide_constructs_oracle_only) are NOT in the Coq model: they are exercised by the differential oracle only, expected output "
        "from the Python reference evaluator in checks/c01.py (WEval)",
    ]
    if os.environ.get("VERIF_KF_DEV"):
        # TEMPORARY fallback until the lead merges build/kf-C01.json into known_findings.json (drop after merging)
        try:
            chk.findings = json.load(open(os.path.join(vlib.VERIF, "build", "kf-C01.json")))
        except OSError:
            pass
    known = load_findings(chk, "C01")
    res = chk.proof_stage("C01", allow_axioms=(), rs2v_units=["CoreNum", "StdNum"])
    dbg = vlib.build_harness("debug")
    quick = chk.tier == "quick"
    cases = gen_cases(chk, 330 if quick else 2400)
    chk.coverage["constructs"] = CONSTRUCTS
    hits = arm_hits(cases)
    chk.coverage["model_arm_hits"] = dict(sorted(hits.items()))
    chk.coverage["model_arms_with_zero_hits"] = [a for a in MODEL_ARMS if not hits.get(a)]
    fails, corr_bad, stats = pipeline(chk, dbg, cases, known, n_batches=1 if quick else 8, batch_size=150, n_panic=4 if quick else 16)
    wfails, wstats = wide_oracle(chk, dbg, 70 if quick else 400, "c01")
    fails += wfails
    chk.coverage["wide_constructs_oracle_only"] = WIDE_CONSTRUCTS
    chk.coverage.update(wstats)
    mfails, mstats, mrepro = matrix_oracle(chk, dbg, "c01", "C01", known)
    fails += mfails
    chk.coverage.update(mstats)
    for fid in mrepro:
        stats["known_hits"][fid] = [0]
    # finding outside the Coq fragment (calls nested in arguments): replay its witness on the real binary
    if "kwarg-eval-order" in known:
        d = scratch_dir("c01k")
        stem = "c01k%dp%d" % (chk.seed % 100000, os.getpid() % 100000)
        try:
            ok, msg, path = build_programs(dbg, d, [(stem, known["kwarg-eval-order"]["witness"])])[stem]
            if ok:
                p = subprocess.run([path], capture_output=True, text=True, timeout=120)
                if p.stdout.split() == ["2", "1", "1"]:
                    stats["known_hits"]["kwarg-eval-order"] = [0]
        finally:
            shutil.rmtree(d, ignore_errors=True)
            clean_gen_target([stem])
    if not stats["model_ok"]:
        res["tie_ok"] = False
        res["broken"].append({"what": "model", "message": "C01/Model.v no longer builds (C04 kernels changed shape?)"})
    rejected = stats["rejected"]
    chk.coverage["emit_text_compared"] = stats["emit_text_compared"]
    chk.coverage["checker_rejected_valid_functions"] = len(rejected)
    if rejected:
        chk.notes.append({"note": "functions valid by the documented scope rules that the checker rejects (C03 territory, not a C01 failure)",
                          "samples": rejected[:3]})
    chk.coverage["rule"] = ("seeded generator of fragment functions (valid by the documented scope/type rules and accepted by the current checker) + fixed corpus; "
                            "every function: parser-tree tie, emitted-token tie, Coq evaluation of source and Rust-side semantics; functions whose model run "
                            "finishes are batched into one generated program built by the real `incan build` path and run; non-trivial = printed at least one line")
    chk.coverage["distribution"] = stats["distribution"]
    chk.coverage["functions_generated"] = len(cases)
    chk.coverage["functions_run_in_real_binary"] = stats["observed"]
    chk.coverage["traces_validated_against_impl"] = stats["observed"]
    chk.coverage["correspondence_mismatches"] = len(corr_bad)
    chk.coverage["known_class_failures"] = {k: len(v) if isinstance(v, list) else 1 for k, v in stats["known_hits"].items()}
    nc = len(corpus())
    for c in cases[:2] + cases[nc:nc + 4]:
        chk.sample(describe(c))
    for fid, f in known.items():
        if fid in stats["known_hits"]:
            chk.known(fid, "%s: %s" % (fid, f["summary"]))
    for f in fails[:20]:
        chk.violation("failing-input", f)
    if not fails:
        if corr_bad:
            chk.violation("correspondence-broken", {"theorem_or_tie": "C01 model/implementation correspondence", "cases": corr_bad[:10]}, no_input=True)
        if not res["proofs_ok"] or not res["tie_ok"]:
            chk.violation("proof-broken", {"theorem_or_tie": res["broken"]}, no_input=True)


def replay_one(binary, program, coq_case, tag="c01r"):
    """re-run one recorded function: real front end + emission, real build + run, Coq source semantics, Coq Rust-side model"""
    out = {}
    r = emit_real(binary, [program])[0]
    out["real_check"] = r.get("check")
    out["real_codegen"] = r.get("gen")
    out["real_emitted"] = {k: " ".join(v.get("body", [])) for k, v in r.get("fns", {}).items()}
    d = scratch_dir(tag)
    stem = "%sp%d" % (tag, os.getpid() % 100000)
    try:
        ok, msg, path = build_programs(binary, d, [(stem, program)])[stem]
        if ok:
            obs, (rc, err) = run_binary(path, ["t0"])
            out["real_binary"] = {"lines": obs.get("t0", ([], None))[0], "stop": STOPS.get(obs.get("t0", ([], None))[1], obs.get("t0", ([], None))[1]), "exit": rc, "stderr": err}
        else:
            out["real_build"] = msg[-2000:]
    finally:
        shutil.rmtree(d, ignore_errors=True)
        clean_gen_target([stem])
    if coq_case and vlib.coq_build(["C01/Model.vo"])[0]:
        res = vlib.coq_eval(REQ, MODEL_TYPE, "run_case default_fuel", [coq_case], tag=tag)[0]
        out["documented_semantics"] = {"lines": res[0], "stop": STOPS.get(res[1])}
        out["rust_side_model"] = {"status": res[2][0], "lines": res[2][1][0], "stop": STOPS.get(res[2][1][1]), "well_typed": res[2][2]}
        out["classes"] = {"grouping": res[3][0], "int-fallback": res[3][1], "calls_wf": res[3][2]}
    return out


def replay(path):
    data = json.load(open(path))
    binary = vlib.build_harness("debug")
    for v in data["violations"]:
        d = v["detail"]
        if "program" in d:
            print("== case\n" + d.get("case", ""))
            print(json.dumps(replay_one(binary, d["program"], d.get("coq_case")), indent=1, default=str))
            if "expected_by_documented_semantics" in d:
                print("recorded expected:", json.dumps(d["expected_by_documented_semantics"]), "recorded actual:", json.dumps(d.get("actual_binary")))
        else:
            print(json.dumps(d, indent=1)[:6000])
    return 0


# ================================================================================================ wide programs
# Constructs OUTSIDE the Coq fragment, checked by the differential oracle only: the expected output comes from the
# Python reference evaluator below (documented Python-like semantics: value models, lists with negative indices and
# clamping slices, keyword arguments bound by NAME, `mut` list parameters mutate the caller's list), NOT from Coq.
#   models with int fields, nested models (2 levels), List[Model], List[int], List[List[int]];
#   assignment (plain and compound) through every lvalue shape: x, o.f, o.f.g, xs[i], xs[i].f, xs[i].f.g, xs[i].f.g.h, xs[i][j];
#   list indexing (negative too), slicing with small in/out-of-order bounds, len, for-in over lists and slices;
#   user functions with 2-3 int parameters called positionally, with in-order and out-of-order keyword arguments,
#   mixed; `mut` list parameters; return values; function/parameter names also drawn from Rust keywords that Incan
#   does not reserve (where, loop, final, move, ref, box).
WIDE_CONSTRUCTS = ["model with int fields", "nested models (M1.p: M0, M2.q: M1)", "List[int]", "List[Model]", "List[List[int]]",
                   "lvalues x, o.f, o.f.g, xs[i], xs[i].f, xs[i].f.g, xs[i].f.g.h, xs[i][j] (plain and compound)",
                   "negative indices", "slices xs[a:b], xs[a:], xs[:b] with in/out-of-order bounds", "len", "for v in list/slice",
                   "calls: positional / keyword in order / keyword out of order / mixed", "mut List[int] parameter", "return values",
                   "function and parameter names from {where, loop, final, move, ref, box}"]
WIDE_MODELS = """model M0:
    a: int
    b: int

model M1:
    p: M0
    m: int

model M2:
    q: M1
    k: int

"""
KW_FN = ["where", "loop", "final", "move", "ref", "box"]
PLAIN_FN = ["pick", "calc", "mix", "step", "blend", "fold3"]
KW_PARAM = ["final", "move", "ref", "box", "where", "loop"]
PLAIN_PARAM = ["lo", "hi", "k", "n", "aa", "bb"]


def wsrc(e):
    k = e[0]
    if k == "nm":
        return e[1]
    if k == "fld":
        return "%s.%s" % (wsrc(e[1]), e[2])
    if k == "idx":
        return "%s[%s]" % (wsrc(e[1]), wsrc(e[2]))
    if k == "len":
        return "len(%s)" % wsrc(e[1])
    if k == "slice":
        return "%s[%s:%s]" % (wsrc(e[1]), "" if e[2] is None else wsrc(e[2]), "" if e[3] is None else wsrc(e[3]))
    if k == "call":
        args = [wsrc(a) for a in e[2]] + ["%s=%s" % (n, wsrc(a)) for n, a in e[3]]
        return "%s(%s)" % (e[1], ", ".join(args))
    if k == "mk":
        return "%s(%s)" % (e[1], ", ".join("%s=%s" % (n, wsrc(a)) for n, a in e[2]))
    if k == "list":
        return "[" + ", ".join(wsrc(a) for a in e[1]) + "]"
    if k == "int":
        return str(e[1])
    if k == "un":
        s = wsrc(e[2])
        return "-" + (" " + s if s.startswith("-") else s)
    if k == "paren":
        return "(" + wsrc(e[1]) + ")"
    if k == "bin":
        return "%s %s %s" % (wsrc(e[2]), e[1], wsrc(e[3]))
    raise ValueError(k)


def wsrc_block(b, ind):
    pad, out = "    " * ind, []
    for s in b:
        k = s[0]
        if k == "wassign":
            out.append("%s%s%s = %s" % (pad, {"mut": "mut ", "let": "let ", "inferred": ""}[s[1]], s[2], wsrc(s[3])))
        elif k == "lassign":
            out.append("%s%s %s= %s" % (pad, wsrc(s[1]), s[2] or "", wsrc(s[3])))
        elif k == "print":
            out.append("%sprintln(%s)" % (pad, wsrc(s[1])))
        elif k == "forin":
            out.append("%sfor %s in %s:" % (pad, s[1], wsrc(s[2])))
            out += wsrc_block(s[3], ind + 1)
        elif k == "if":
            out.append("%sif %s:" % (pad, wsrc(s[1])))
            out += wsrc_block(s[2], ind + 1)
            if s[3] is not None:
                out.append("%selse:" % pad)
                out += wsrc_block(s[3], ind + 1)
        elif k == "callst":
            out.append(pad + wsrc(s[1]))
        elif k == "ret":
            out.append("%sreturn %s" % (pad, wsrc(s[1])))
        else:
            raise ValueError(k)
    return out


def ends_with_cast(e):
    """the emitted Rust of e ends in `as i64` (a `len(..)` in final position)"""
    k = e[0]
    if k == "len":
        return True
    if k == "paren":
        return ends_with_cast(e[1])
    if k == "un":
        return ends_with_cast(e[2])
    if k == "bin" and e[1] not in ("//", "%"):
        return ends_with_cast(e[3])
    return False


class Ret(Exception):
    def __init__(self, v):
        self.v = v


class WEval:
    """reference evaluator (documented semantics) for wide programs"""

    def __init__(self, helpers):
        self.helpers = helpers          # name -> (params [(name, kind)], body)
        self.out = []

    def ev(self, e, env):
        k = e[0]
        if k == "int":
            return e[1]
        if k == "nm":
            return env[e[1]]
        if k == "fld":
            return self.ev(e[1], env)[e[2]]
        if k == "idx":
            return self.ev(e[1], env)[self.ev(e[2], env)]          # Python negative indexing = list_get's
        if k == "len":
            return len(self.ev(e[1], env))
        if k == "slice":
            xs = self.ev(e[1], env)
            a = None if e[2] is None else self.ev(e[2], env)
            b = None if e[3] is None else self.ev(e[3], env)
            return list(xs[a:b])
        if k == "mk":
            return {n: self.ev(a, env) for n, a in e[2]}
        if k == "list":
            return [self.ev(a, env) for a in e[1]]
        if k == "paren":
            return self.ev(e[1], env)
        if k == "un":
            return -self.ev(e[2], env)
        if k == "bin":
            l, r = self.ev(e[2], env), self.ev(e[3], env)
            return {"+": lambda: l + r, "-": lambda: l - r, "*": lambda: l * r, "//": lambda: l // r, "%": lambda: l % r,
                    "==": lambda: l == r, "!=": lambda: l != r, "<": lambda: l < r, "<=": lambda: l <= r, ">": lambda: l > r,
                    ">=": lambda: l >= r}[e[1]]()
        if k == "call":
            params, body = self.helpers[e[1]]
            vals = [self.ev(a, env) for a in e[2]]
            kw = {n: self.ev(a, env) for n, a in e[3]}
            loc = {}
            pos = list(vals)
            for pn, kind in params:               # keyword arguments bind by name, the rest positionally in order
                if pn in kw:
                    loc[pn] = kw[pn]
                else:
                    loc[pn] = pos.pop(0)
                if kind == "list":                # a non-`mut` list parameter is the callee's own copy
                    loc[pn] = list(loc[pn])
            try:
                self.run(body, loc)
            except Ret as r:
                return r.v
            return None
        raise ValueError(k)

    def assign(self, lv, v, env):
        if lv[0] == "nm":
            env[lv[1]] = v
        elif lv[0] == "fld":
            self.ev(lv[1], env)[lv[2]] = v
        else:
            self.ev(lv[1], env)[self.ev(lv[2], env)] = v

    def run(self, b, env):
        for s in b:
            k = s[0]
            if k == "wassign":
                env[s[2]] = self.ev(s[3], env)
            elif k == "lassign":
                v = self.ev(s[3], env)
                if s[2]:
                    v = self.ev(("bin", s[2], s[1], ("int", v)), env)
                self.assign(s[1], v, env)
            elif k == "print":
                self.out.append((0, self.ev(s[1], env)))
            elif k == "forin":
                for x in list(self.ev(s[2], env)):
                    env[s[1]] = x
                    self.run(s[3], env)
            elif k == "if":
                if self.ev(s[1], env):
                    self.run(s[2], env)
                elif s[3] is not None:
                    self.run(s[3], env)
            elif k == "callst":
                self.ev(s[1], env)
            elif k == "ret":
                raise Ret(self.ev(s[1], env))


class WideSuite:
    """a set of helper functions (defined once per generated program) + test functions that use them"""

    def __init__(self, rng, n_cases):
        self.rng = rng
        names = rng.sample(KW_FN, 4) + rng.sample(PLAIN_FN, 3)
        rng.shuffle(names)
        self.helpers, self.helper_src = {}, []
        self.int_fns, self.mut_fns, self.list_fns = [], [], []
        for i, fn in enumerate(names):
            kind = "int" if i < 4 else ("mut" if i < 6 else "list")
            self.make_helper(fn, kind)
        self.cases = [self.case() for _ in range(n_cases)]

    def pnames(self, n):
        pool = self.rng.sample(KW_PARAM, 3) + self.rng.sample(PLAIN_PARAM, 3)
        return self.rng.sample(pool, n)

    def make_helper(self, fn, kind):
        rng = self.rng
        if kind == "int":
            ps = self.pnames(rng.choice([2, 3, 3]))
            # an asymmetric combination: swapping two arguments changes the result
            terms = [("bin", "*", ("nm", p), ("int", c)) for p, c in zip(ps, rng.sample([1, 3, 7, 10, 100], len(ps)))]
            e = terms[0]
            for t in terms[1:]:
                e = ("bin", rng.choice(["+", "-"]), e, t)
            if rng.random() < 0.4:
                e = ("bin", "%", ("paren", e), ("int", rng.choice([97, 1009])))
            body = [("ret", e)]
            params = [(p, "int") for p in ps]
            sig = ", ".join("%s: int" % p for p in ps) + ") -> int"
            self.int_fns.append(fn)
        elif kind == "mut":
            ps = self.pnames(2)
            xs, k = ps
            body = [("lassign", ("idx", ("nm", xs), ("nm", k)), rng.choice(["+", "*", None]), ("int", rng.randint(2, 9))),
                    ("lassign", ("idx", ("nm", xs), ("int", 0)), "+", ("nm", k))]
            params = [(xs, "mutlist"), (k, "int")]
            sig = "mut %s: List[int], %s: int) -> None" % (xs, k)
            self.mut_fns.append(fn)
        else:
            ps = self.pnames(2)
            xs, k = ps
            body = [("wassign", "mut", "acc", ("nm", k)),
                    ("forin", "vv", ("nm", xs), [("lassign", ("nm", "acc"), "+", ("bin", "*", ("nm", "vv"), ("int", 2)))]),
                    ("ret", ("nm", "acc"))]
            params = [(xs, "list"), (k, "int")]
            sig = "%s: List[int], %s: int) -> int" % (xs, k)
            self.list_fns.append(fn)
        self.helpers[fn] = (params, body)
        self.helper_src.append("def %s(%s:\n%s\n" % (fn, sig, "\n".join(wsrc_block(body, 1))))

    # ---- test functions
    def lit(self):
        return ("int", self.rng.randint(0, 60))

    def mk0(self):
        return ("mk", "M0", [("a", self.lit()), ("b", self.lit())])

    def mk1(self):
        return ("mk", "M1", [("p", self.mk0()), ("m", self.lit())])

    def mk2(self):
        return ("mk", "M2", [("q", self.mk1()), ("k", self.lit())])

    def case(self):
        rng = self.rng
        self.vars = {}
        self.has_ys = False
        body = []
        decl = [("o0", "M0", self.mk0()), ("o1", "M1", self.mk1()), ("o2", "M2", self.mk2())]
        nx = rng.randint(3, 6)
        decl.append(("xs", ("ints", nx), ("list", [self.lit() for _ in range(nx)])))
        nm = rng.randint(1, 3)
        decl.append(("ms", ("L", "M1", nm), ("list", [self.mk1() for _ in range(nm)])))
        nz = rng.randint(1, 2)
        decl.append(("zs", ("L", "M2", nz), ("list", [self.mk2() for _ in range(nz)])))
        ng, ni = rng.randint(1, 3), rng.randint(1, 3)
        decl.append(("g", ("grid", ng, ni), ("list", [("list", [self.lit() for _ in range(ni)]) for _ in range(ng)])))
        rng.shuffle(decl)
        for n, t, e in decl[:rng.randint(4, 7)]:
            self.vars[n] = t
            body.append(("wassign", "mut", n, e))
        for _ in range(rng.randint(5, 10)):
            body += self.stmt()
        body += self.dump()
        return body

    def index(self, n):
        i = self.rng.randrange(n)
        if self.rng.random() < 0.3:
            i -= n
        return ("int", i) if i >= 0 else ("un", "neg", ("int", -i))

    def int_paths(self, lv_only=False):
        """all int-valued places reachable from the declared variables"""
        out = []
        for n, t in self.vars.items():
            base = ("nm", n)
            if t == "M0":
                out += [("fld", base, f) for f in "ab"]
            elif t == "M1":
                out += [("fld", base, "m")] + [("fld", ("fld", base, "p"), f) for f in "ab"]
            elif t == "M2":
                out += [("fld", base, "k"), ("fld", ("fld", base, "q"), "m")] + [("fld", ("fld", ("fld", base, "q"), "p"), f) for f in "ab"]
            elif t[0] == "ints":
                out += [("idx", base, self.index(t[1])) for _ in range(2)]
            elif t[0] == "L":
                el = ("idx", base, self.index(t[2]))
                if t[1] == "M1":
                    out += [("fld", el, "m")] + [("fld", ("fld", el, "p"), f) for f in "ab"]
                else:
                    out += [("fld", el, "k"), ("fld", ("fld", el, "q"), "m")] + [("fld", ("fld", ("fld", el, "q"), "p"), f) for f in "ab"]
            elif t[0] == "grid":
                out.append(("idx", ("idx", base, self.index(t[1])), self.index(t[2])))
        return out

    def bound(self):
        b = self.rng.randint(-7, 7)
        return ("int", b) if b >= 0 else ("un", "neg", ("int", -b))

    def slice_of(self, n):
        r = self.rng.random()
        a = None if r < 0.15 else self.bound()
        b = None if 0.15 <= r < 0.3 else self.bound()
        return ("slice", ("nm", n), a, b)

    def call(self, small):
        rng = self.rng
        fn = rng.choice(self.int_fns)
        params = [p for p, _ in self.helpers[fn][0]]
        vals = {p: small() for p in params}
        mode = rng.choice(["pos", "kw", "kwrev", "mixed", "kwrev"])
        if mode == "pos":
            return ("call", fn, [vals[p] for p in params], [])
        if mode == "kw":
            return ("call", fn, [], [(p, vals[p]) for p in params])
        if mode == "kwrev":
            order = list(params)
            while order == params:
                rng.shuffle(order)
            return ("call", fn, [], [(p, vals[p]) for p in order])
        rest = params[1:]
        rng.shuffle(rest)
        return ("call", fn, [vals[params[0]]], [(p, vals[p]) for p in rest])

    def int_expr(self, d=2):
        rng = self.rng
        r = rng.random()
        paths = self.int_paths()
        if d <= 0 or r < 0.35:
            return rng.choice(paths) if paths and rng.random() < 0.75 else self.lit()
        lists = [n for n, t in self.vars.items() if t[0] == "ints"]
        if r < 0.45 and lists:
            n = rng.choice(lists)
            return ("len", ("nm", n)) if rng.random() < 0.4 else ("len", self.slice_of(n))
        if r < 0.62:
            return self.call(lambda: self.int_expr(0))
        if r < 0.68 and lists and self.list_fns:
            n = rng.choice(lists)
            fn = rng.choice(self.list_fns)
            (xs, _), (k, _) = self.helpers[fn][0]
            arg = ("nm", n) if rng.random() < 0.5 else self.slice_of(n)
            return ("call", fn, [arg, self.lit()], []) if rng.random() < 0.5 else ("call", fn, [], [(k, self.lit()), (xs, arg)])
        op = rng.choice(["+", "-", "+", "*"])
        l, rr = self.int_expr(d - 1), self.int_expr(d - 1)
        if op == "*":
            rr = ("int", rng.randint(0, 9))
        # operands of the same or tighter binding only (outside the grouping finding)
        if op == "-" and rr[0] == "bin":
            rr = ("int", rng.randint(0, 9))
        if op == "*" and l[0] == "bin":
            l = ("int", rng.randint(0, 9))
        return ("bin", op, l, rr)

    def stmt(self):
        rng = self.rng
        r = rng.random()
        paths = self.int_paths()
        lists = [n for n, t in self.vars.items() if t[0] == "ints"]
        if r < 0.45 and paths:
            lv = rng.choice(paths)
            op = rng.choice([None, None, "+", "-", "*"])
            e = self.int_expr(2) if op is None else self.int_expr(1)
            if op == "*":
                e = ("int", rng.randint(0, 3))
            if op == "-":
                e = self.int_expr(0)       # `x -= a - b` is emitted as `x = x - a - b` (finding grouping): atoms only
            return [("lassign", lv, op, e)]
        if r < 0.58:
            return [("print", self.int_expr(2))]
        if r < 0.70 and lists:
            n = rng.choice(lists)
            it = self.slice_of(n) if rng.random() < 0.8 else ("nm", n)
            return [("forin", "w", it, [("print", ("bin", "+", ("nm", "w"), self.lit()))])]
        if r < 0.82 and lists and self.mut_fns:
            n = rng.choice(lists)
            fn = rng.choice(self.mut_fns)
            (xs, _), (k, _) = self.helpers[fn][0]
            i = self.index(self.vars[n][1])
            c = ("call", fn, [("nm", n), i], []) if rng.random() < 0.5 else \
                (("call", fn, [], [(k, i), (xs, ("nm", n))]) if rng.random() < 0.5 else ("call", fn, [("nm", n)], [(k, i)]))
            return [("callst", c)]
        if r < 0.90:
            c = ("bin", rng.choice(["<", ">", "==", "!=", "<=", ">="]), self.int_expr(1), self.int_expr(1))
            # (`len(xs) < n` was C02's finding len-lt — emitted `xs.len() as i64 < n` — until the fix: commit that groups a left
            #  operand ending in a cast; it is generated like any other comparison now)
            return [("if", c, [("print", self.int_expr(1))], [("print", self.int_expr(1))] if rng.random() < 0.5 else None)]
        if lists and not self.has_ys:
            n = rng.choice(lists)
            self.has_ys = True
            return [("wassign", "let", "ys", self.slice_of(n)), ("print", ("len", ("nm", "ys"))),
                    ("forin", "w", ("nm", "ys"), [("print", ("nm", "w"))])]
        return [("print", self.int_expr(2))]

    def dump(self):
        out = []
        for n, t in sorted(self.vars.items()):
            base = ("nm", n)
            if t in ("M0", "M1", "M2"):
                saved, self.vars = self.vars, {n: t}
                out += [("print", p) for p in self.int_paths()]
                self.vars = saved
            elif t[0] == "ints":
                out.append(("forin", "w", base, [("print", ("nm", "w"))]))
            elif t[0] == "L":
                for i in range(t[2]):
                    el = ("idx", base, ("int", i))
                    if t[1] == "M1":
                        out += [("print", ("fld", el, "m"))] + [("print", ("fld", ("fld", el, "p"), f)) for f in "ab"]
                    else:
                        out += [("print", ("fld", el, "k")), ("print", ("fld", ("fld", el, "q"), "m"))] + \
                               [("print", ("fld", ("fld", ("fld", el, "q"), "p"), f)) for f in "ab"]
            elif t[0] == "grid":
                for i in range(t[1]):
                    out.append(("forin", "w", ("idx", base, ("int", i)), [("print", ("nm", "w"))]))
        return out

    def expected(self, i):
        ev = WEval(self.helpers)
        ev.run(self.cases[i], {})
        return ev.out

    def fn_source(self, i, name):
        return "def %s() -> None:\n%s\n" % (name, "\n".join(wsrc_block(self.cases[i], 1)))

    def prelude(self):
        return WIDE_MODELS + "\n".join(self.helper_src) + "\n"

    def program(self, idxs):
        parts = [self.prelude()] + [self.fn_source(i, "w%d" % i) for i in idxs]
        main = ["def main() -> None:"]
        for i in idxs:
            main += ['    println("@@w%d")' % i, "    w%d()" % i]
        main.append('    println("@@end")')
        return "\n".join(parts) + "\n" + "\n".join(main) + "\n"


def wide_culprits(msg, main_rs):
    try:
        lines = open(main_rs).read().split("\n")
    except OSError:
        return set()
    starts = [(i + 1, m.group(1)) for i, l in enumerate(lines) for m in [re.match(r"\s*(?:pub )?fn (?:r#)?(\w+)\(", l)] if m]
    out = set()
    for b in re.split(r"\n(?=error|warning)", msg):
        if not b.startswith("error") or b.startswith("error: could not compile") or b.startswith("error: aborting"):
            continue
        m = re.search(r"--> src/main\.rs:(\d+):", b)
        if m:
            owner = None
            for st, name in starts:
                if st <= int(m.group(1)):
                    owner = name
            if owner:
                out.add(owner)
    return out


def wide_oracle(chk, binary, n_cases, tag):
    """Builds one generated program of wide test functions with the real `incan build` path, runs it, compares every
    function's output with the reference evaluator. Returns (fails, stats)."""
    suite = WideSuite(chk.rng, n_cases)
    idxs = list(range(n_cases))
    fails, stats = [], {"wide_functions": n_cases}
    # every function alone through the real front end: must parse, check and generate
    progs = [suite.prelude() + suite.fn_source(i, "t0") + "def main() -> None:\n    t0()\n" for i in idxs]
    real = emit_real(binary, progs)
    ok_idx = []
    for i in idxs:
        r = real[i]
        why = None
        if "panic" in r:
            why = "the compiler panicked: " + r["panic"]
        elif r.get("parse") != "ok":
            why = "valid program rejected by the parser: %s" % r.get("parse")
        elif r["check"]:
            why = "valid program rejected by the checker: %s" % r["check"][:2]
        elif r["gen"] != "ok" or not r.get("syn"):
            why = "the checker accepts this program but code generation fails: %s" % r["gen"]
        if why:
            fails.append({"case": progs[i], "program": progs[i], "why": why, "oracle": "python reference evaluator (wide constructs, outside the Coq fragment)"})
        else:
            ok_idx.append(i)
    stem = "%sw%dp%d" % (tag, chk.seed % 100000, os.getpid() % 100000)
    d = scratch_dir(tag + "w")
    try:
        src = suite.program(ok_idx)
        ok, msg, path = build_programs(binary, d, [(stem, src)])[stem]
        if not ok:
            bad = wide_culprits(msg, os.path.join(d, "out_" + stem, "src", "main.rs"))
            errs = "\n".join(b for b in re.split(r"\n(?=error|warning)", msg) if b.startswith("error"))[:2500]
            culprits = [i for i in ok_idx if "w%d" % i in bad]
            for i in (culprits or ok_idx[:2])[:8]:
                fails.append({"case": suite.prelude() + suite.fn_source(i, "t0"), "program": progs[i], "stage": "rustc",
                              "expected": suite.expected(i), "actual": errs,
                              "why": "the checker accepts this program, code generation succeeds, rustc rejects the generated Rust",
                              "oracle": "python reference evaluator (wide constructs, outside the Coq fragment)"})
            stats["wide_built"] = False
            # the other functions are still compared: rebuild once without the functions rustc rejected
            ok_idx = [i for i in ok_idx if i not in culprits] if culprits else []
            if ok_idx:
                clean_gen_target([stem])
                stem = stem + "r"
                ok, msg, path = build_programs(binary, d, [(stem, suite.program(ok_idx))])[stem]
        if ok:
            stats["wide_built"] = stats.get("wide_built", True)
            obs, (rc, err) = run_binary(path, ["w%d" % i for i in ok_idx])
            n_ok = 0
            for i in ok_idx:
                exp = suite.expected(i)
                got = obs.get("w%d" % i)
                chk.count_case(("wide", suite.fn_source(i, "t0")), nontrivial=True)
                if got is None or got[1] != 0 or list(got[0]) != exp:
                    fails.append({"case": suite.prelude() + suite.fn_source(i, "t0"), "program": progs[i],
                                  "expected_by_reference_evaluator": exp, "actual_binary": got,
                                  "why": "the compiled program does not behave as the source says",
                                  "oracle": "python reference evaluator (wide constructs, outside the Coq fragment)"})
                else:
                    n_ok += 1
            stats["wide_functions_agreeing"] = n_ok
    finally:
        shutil.rmtree(d, ignore_errors=True)
        clean_gen_target([stem])
    vlib.log("[c01] wide oracle: %d functions, %d failures" % (n_cases, len(fails)))
    return fails, stats


# ================================================================================================ matrix programs
# Binder x source x use matrix (oracle only, outside the Coq fragment), added after the round-2 seeds C02-2 (loop
# variable of a Set typed Int, `.clone()` lost at a call site) and C01-2 (elif chain folded in reverse):
#   binders: for-loop variable, comprehension variable (list / dict comprehension, with and without filter), match
#            binders (Some/Ok/Err/enum payloads/plain binding), closure parameters;
#   sources: List (variable, literal, parameter, mutable, slice, call result, model field, nested element, comprehension,
#            sorted), range(1..3 args), Set (variable, literal, parameter, call result, annotated), Dict (implicit keys,
#            .keys(), .values(), .items(), parameter), str iteration, str.split, enumerate, zip; element types int / str;
#   uses:    call argument (positional / keyword / second position), arithmetic, println, f-string, comparison, index,
#            assignment (let / mut / outer), return, method receiver / builtin, append, dict key (read / insert), compound
#            assignment, model field, list element, tuple element, `in`, closure capture, closure argument, nested loop
#            bound, while, Some(..)+match, elif ladder, and/or.
#   ladders: if/elif chains with 0,1,2,3,5 elifs, overlapping (threshold / modulo) conditions and side-effecting
#            conditions (a helper that prints), with and without else, in every statement context (function top level,
#            for / while body, then / elif / else branch, match arm, value-returning helper, method of a model).
# Every cell is one Incan function; its expected output is obtained by running the SAME text as Python (Incan is
# Python-like on this subset: the textual translation below only drops `mut`/`let`, rewrites `(x) => e` to lambda,
# `t.0` to `t[0]`, true/false, and supplies println/Some/Ok/Err/models/enums as Python definitions), i.e. the reference
# evaluator is CPython itself on the documented Python-like semantics.  Unordered collections (Set, Dict) are observed
# through order-independent aggregates only.  C02 judges the cells by rustc's verdict, C01 by the binary's output.

M_PRELUDE = '''model P0:
    a: int
    b: int

model Bag:
    items: List[int]
    tag: int

enum Sh:
    Ci(int)
    Re(int, int)
    Na(str)
    Em

def sq(n: int) -> int:
    return n * n + 1

def sub(p: int, q: int) -> int:
    return p * 10 - q

def shout(s: str) -> str:
    return f"{s}!"

def slen(s: str) -> int:
    return len(s)

def tick(n: int) -> int:
    println(n)
    return n

def mk_list(n: int) -> List[int]:
    return [n, n + 2, n + 5]

def mk_set(n: int) -> Set[int]:
    return {n, n + 2, n + 5}

def total_of(xs: List[int]) -> int:
    mut t = 0
    for v in xs:
        t = t + v
    return t

def find_big(xs: List[int], k: int) -> Option[int]:
    for v in xs:
        if v > k:
            return Some(v)
    return None

def safe_div(p: int, q: int) -> Result[int, str]:
    if q == 0:
        return Err("div0")
    return Ok(p // q)

'''

M_PY_PRELUDE = '''
from dataclasses import dataclass as _dc
class _Any:
    def __getitem__(self, k): return self
List = Dict = Set = Option = Result = Tuple = _Any()
_out = []
def println(x):
    _out.append(("true" if x else "false") if isinstance(x, bool) else str(x))
class Some:
    __match_args__ = ("v",)
    def __init__(self, v): self.v = v
class Ok(Some): pass
class Err(Some): pass
@_dc
class P0:
    a: int
    b: int
@_dc
class Bag:
    items: list
    tag: int
class Sh:
    class Ci:
        __match_args__ = ("p0",)
        def __init__(self, p0): self.p0 = p0
    class Re:
        __match_args__ = ("p0", "p1")
        def __init__(self, p0, p1): self.p0, self.p1 = p0, p1
    class Na(Ci): pass
    class _Em:
        def __eq__(self, o): return isinstance(o, Sh._Em)
    Em = _Em()
'''


def m_to_py(src):
    out = []
    for line in src.split("\n"):
        ind = len(line) - len(line.lstrip(" "))
        body = line[ind:]
        for pre in ("mut ", "let "):
            if body.startswith(pre):
                body = body[len(pre):]
        if re.match(r"(model|enum) ", body):
            raise ValueError("declarations are supplied by M_PY_PRELUDE")
        body = re.sub(r"\(([a-z_0-9, ]*)\) => ", lambda m: "lambda %s: " % m.group(1), body)
        body = re.sub(r"(?<=[\w\)\]])\.(\d+)\b", r"[\1]", body)
        body = re.sub(r"\btrue\b", "True", body)
        body = re.sub(r"\bfalse\b", "False", body)
        body = re.sub(r"\.contains\(([^()]*)\)", r".__contains__(\1)", body)
        out.append(" " * ind + body)
    return "\n".join(out)


def m_py_functions(text):
    """the helper functions of M_PRELUDE as Python (the model/enum declarations come from M_PY_PRELUDE)"""
    keep, skip = [], False
    for line in text.split("\n"):
        if re.match(r"(model|enum) ", line):
            skip = True
            continue
        if skip and (line.startswith(" ") or line == ""):
            continue
        skip = False
        keep.append(line)
    return m_to_py("\n".join(keep))


class MCell:
    def __init__(self, attrs, sig, call, body, extra=""):
        self.attrs, self.sig, self.call, self.body, self.extra = attrs, sig, call, body, extra   # body: list of lines (indent 0)

    def source(self, name):
        """extra: helper functions of this cell (their names contain NAME, replaced by the cell's name)"""
        ex = self.extra.replace("NAME", name)
        return ex + "def %s(%s) -> None:\n%s\n" % (name, self.sig, "\n".join("    " + l for l in self.body).replace("NAME", name))

    def call_line(self, name):
        return "%s(%s)" % (name, self.call)

    def key(self):
        return "/".join("%s=%s" % kv for kv in sorted(self.attrs.items()))


def m_sources(rng):
    """binder sources for loops and comprehensions: (key, elem type, ordered, sig, call args, setup lines, iterable text,
    loop variable name, expression that denotes the element)"""
    a, b, c = sorted(rng.sample(range(1, 10), 3))
    rng_order = [a, b, c]
    rng.shuffle(rng_order)
    L = "[%d, %d, %d]" % tuple(rng_order)
    S = "{%d, %d, %d}" % tuple(rng_order)
    D = "{%d: %d, %d: %d, %d: %d}" % (rng_order[0], 10, rng_order[1], 20, rng_order[2], 30)
    DV = "{10: %d, 20: %d, 30: %d}" % tuple(rng_order)
    w = rng.sample(["ab", "c", "def", "gh", "ijkl", "m"], 3)
    LS = '["%s", "%s", "%s"]' % tuple(w)
    SS = '{"%s", "%s", "%s"}' % tuple(w)
    DS = '{"%s": 1, "%s": 2, "%s": 3}' % tuple(w)
    word = "".join(w)
    I, T = "int", "str"
    return [
        ("list_var", I, True, "", "", ["xs = " + L], "xs", "x", "x"),
        ("list_lit", I, True, "", "", [], L, "x", "x"),
        ("list_param", I, True, "xs: List[int]", L, [], "xs", "x", "x"),
        ("list_mut", I, True, "", "", ["mut xs = " + L, "xs.append(%d)" % (c + 1)], "xs", "x", "x"),
        ("list_annot", I, True, "", "", ["xs: List[int] = " + L], "xs", "x", "x"),
        ("list_slice", I, True, "", "", ["xs = " + L], "xs[1:]", "x", "x"),
        ("list_call", I, True, "", "", [], "mk_list(%d)" % a, "x", "x"),
        ("list_field", I, True, "", "", ["o = Bag(items=%s, tag=1)" % L], "o.items", "x", "x"),
        ("list_nested", I, True, "", "", ["g = [%s, [1]]" % L], "g[0]", "x", "x"),
        ("list_compr", I, True, "", "", ["xs = " + L], "[y + 1 for y in xs]", "x", "x"),
        ("list_sorted", I, True, "", "", ["xs = " + L], "sorted(xs)", "x", "x"),
        ("range1", I, True, "", "", [], "range(%d)" % (a + 2), "x", "x"),
        ("range2", I, True, "", "", [], "range(%d, %d)" % (a, a + 4), "x", "x"),
        ("range3", I, True, "", "", [], "range(%d, %d, 2)" % (a, a + 7), "x", "x"),
        ("range_var", I, True, "n: int", str(a + 2), [], "range(n)", "x", "x"),
        ("set_var", I, False, "", "", ["s = " + S], "s", "x", "x"),
        ("set_lit", I, False, "", "", [], S, "x", "x"),
        ("set_param", I, False, "s: Set[int]", S, [], "s", "x", "x"),
        ("set_call", I, False, "", "", [], "mk_set(%d)" % a, "x", "x"),
        ("set_annot", I, False, "", "", ["s: Set[int] = " + S], "s", "x", "x"),
        ("dict_implicit", I, False, "", "", ["d = " + D], "d", "x", "x"),
        ("dict_keys", I, False, "", "", ["d = " + D], "d.keys()", "x", "x"),
        ("dict_values", I, False, "", "", ["d = " + DV], "d.values()", "x", "x"),
        ("dict_param", I, False, "d: Dict[int, int]", D, [], "d", "x", "x"),
        ("enumerate_idx", I, True, "", "", ["xs = " + L], "enumerate(xs)", "it", "it.0"),
        ("enumerate_val", I, True, "", "", ["xs = " + L], "enumerate(xs)", "it", "it.1"),
        ("zip_left", I, True, "", "", ["xs = " + L, "ys = [7, 8, 9]"], "zip(xs, ys)", "it", "it.0"),
        ("zip_right", I, True, "", "", ["xs = " + L, "ys = [7, 8, 9]"], "zip(ys, xs)", "it", "it.1"),
        ("strlist_var", T, True, "", "", ["xs = " + LS], "xs", "x", "x"),
        ("strlist_lit", T, True, "", "", [], LS, "x", "x"),
        ("strlist_param", T, True, "xs: List[str]", LS, [], "xs", "x", "x"),
        ("strset_var", T, False, "", "", ["s = " + SS], "s", "x", "x"),
        ("strdict_implicit", T, False, "", "", ["d = " + DS], "d", "x", "x"),
        ("strdict_keys", T, False, "", "", ["d = " + DS], "d.keys()", "x", "x"),
        ("str_var", T, True, "", "", ['s = "%s"' % word], "s", "x", "x"),
        ("str_lit", T, True, "", "", [], '"%s"' % word, "x", "x"),
        ("str_param", T, True, "s: str", '"%s"' % word, [], "s", "x", "x"),
        ("str_split", T, True, "", "", ['s = "%s"' % ",".join(w)], 's.split(",")', "x", "x"),
        ("enumerate_strval", T, True, "", "", ["xs = " + LS], "enumerate(xs)", "it", "it.1"),
        ("zip_strleft", T, True, "", "", ["xs = " + LS, "ys = [7, 8, 9]"], "zip(xs, ys)", "it", "it.0"),
    ]


def m_uses(rng, ty):
    """uses of a bound element X: (key, setup lines before the binder, lines inside the binder scope, lines after).
    `EMIT(e)` marks where an int value is observed, `EMITS(e)` a str value; `NAME_h` is a per-cell helper (use `return`)."""
    k = rng.randint(2, 7)
    ref = "[" + ", ".join(str(rng.randint(10, 99)) for _ in range(24)) + "]"
    d2 = "{" + ", ".join("%d: %d" % (i, rng.randint(100, 999)) for i in range(24)) + "}"
    if ty == "int":
        return [
            ("call_arg", [], ["EMIT(sq(X))"], []),
            ("call_kwarg", [], ["EMIT(sq(n=X))"], []),
            ("call_second", [], ["EMIT(sub(%d, X))" % k], []),
            ("call_kw_swapped", [], ["EMIT(sub(q=%d, p=X))" % k], []),
            ("call_nested", [], ["EMIT(sq(sub(X, %d)))" % k], []),
            ("arith", [], ["EMIT(X * %d + 1)" % k], []),
            ("arith_right", [], ["EMIT(100 - X)"], []),
            ("floordiv_mod", [], ["EMIT(X // 2 + X %% %d)" % k], []),
            ("neg", [], ["EMIT(-X)"], []),
            ("println", [], ["EMIT(X)"], []),
            ("fstring", [], ['EMITS(f"v={X}")'], []),
            ("fstring_expr", [], ['EMITS(f"{X + 1}|{sq(X)}")'], []),
            ("compare_if", [], ["if X > %d:" % k, "    EMIT(1)", "else:", "    EMIT(2)"], []),
            ("compare_eq", [], ["if X == %d:" % k, "    EMIT(X)"], []),
            ("compare_rev", [], ["if %d >= X:" % k, "    EMIT(3)"], []),
            ("and_or", [], ["if X > 1 and X < 8 or X == 0:", "    EMIT(4)"], []),
            ("index", ["ref = " + ref], ["EMIT(ref[X])"], []),
            ("index_expr", ["ref = " + ref], ["EMIT(ref[X + 1])"], []),
            ("assign", [], ["y = X", "EMIT(y + 1)"], []),
            ("assign_let", [], ["let y = X", "EMIT(sq(y))"], []),
            ("assign_mut", [], ["mut y = X", "y += 1", "EMIT(y)"], []),
            ("assign_typed", [], ["y: int = X", "EMIT(y)"], []),
            ("assign_outer", ["mut last = 0"], ["last = last + X"], ["println(last)"]),
            ("compound", ["mut acc = 1"], ["acc += X"], ["println(acc)"]),
            ("compound_mul", ["mut acc = 1"], ["acc *= X"], ["println(acc)"]),
            ("return", [], ["if X == ELEM:", "    return X"], []),
            ("builtin_abs", [], ["EMIT(abs(X))"], []),
            ("builtin_str", [], ["EMITS(str(X))"], []),
            ("append", ["mut out: List[int] = []"], ["out.append(X)"], ["println(len(out))", "println(total_of(out))"]),
            ("append_expr", ["mut out: List[int] = []"], ["out.append(X * 2)"], ["println(total_of(out))"]),
            ("dict_read", ["d2 = " + d2], ["EMIT(d2[X])"], []),
            ("dict_insert", ["mut d3: Dict[int, int] = {}"], ["d3[X] = X + 1"], ["println(len(d3))"]),
            ("model_field", [], ["EMIT(P0(a=X, b=1).a)"], []),
            ("model_var", [], ["o2 = P0(a=X, b=2)", "EMIT(o2.a + o2.b)"], []),
            ("list_elem", [], ["ys2 = [X, 7]", "EMIT(ys2[0])"], []),
            ("list_arg", [], ["EMIT(total_of([X, 2]))"], []),
            ("tuple_elem", [], ["t = (X, 1)", "EMIT(t.0)"], []),
            ("in_list", ["ref2 = [ELEM, 99]"], ["if X in ref2:", "    EMIT(5)"], []),
            ("closure_capture", [], ["gg = (z) => z + X", "EMIT(gg(1))"], []),
            ("closure_arg", ["h = (z) => z * 3"], ["EMIT(h(X))"], []),
            ("nested_range", [], ["for j in range(X % 3):", "    EMIT(j + X)"], []),
            ("while", [], ["mut w = X", "while w > X - 2:", "    w -= 1", "EMIT(w)"], []),
            ("some_match", [], ["o3 = Some(X)", "match o3:", "    case Some(v):", "        EMIT(v)", "    case None:", "        EMIT(0)"], []),
            ("ladder", [], ["if X >= 7:", "    EMIT(70)", "elif X >= 4:", "    EMIT(40)", "elif X >= 2:", "    EMIT(20)", "else:", "    EMIT(1)"], []),
            ("enum_payload", [], ["e = Sh.Ci(X)", "match e:", "    case Sh.Ci(r):", "        EMIT(r)", "    case _:", "        EMIT(0)"], []),
        ]
    return [
        ("call_arg", [], ["EMITS(shout(X))"], []),
        ("call_kwarg", [], ["EMITS(shout(s=X))"], []),
        ("call_int", [], ["EMIT(slen(X))"], []),
        ("len", [], ["EMIT(len(X))"], []),
        ("println", [], ["EMITS(X)"], []),
        ("fstring", [], ['EMITS(f"<{X}>")'], []),
        ("compare_eq", [], ['if X == "c":', "    EMIT(1)", "else:", "    EMIT(2)"], []),
        ("method_upper", [], ["EMITS(X.upper())"], []),
        ("concat", [], ['EMITS(X + "!")'], []),
        ("concat_left", [], ['EMITS("<" + X)'], []),
        ("assign", [], ["y = X", "EMITS(y)"], []),
        ("assign_mut", [], ["mut y = X", 'y = y + "z"', "EMITS(y)"], []),
        ("append", ["mut out: List[str] = []"], ["out.append(X)"], ["println(len(out))"]),
        ("dict_insert", ["mut d3: Dict[str, int] = {}"], ["d3[X] = 1"], ["println(len(d3))"]),
        ("return", [], ["if X == SELEM:", "    return len(X)"], []),
        ("index0", [], ["EMITS(X[0])"], []),
        ("list_elem", [], ["ys2 = [X]", "EMIT(len(ys2[0]))"], []),
        ("tuple_elem", [], ["t = (X, 1)", "EMITS(t.0)"], []),
        ("closure_capture", [], ["gg = (z) => z + len(X)", "EMIT(gg(1))"], []),
        ("enum_payload", [], ["e = Sh.Na(X)", "match e:", "    case Sh.Na(r):", "        EMITS(r)", "    case _:", "        EMIT(0)"], []),
    ]


def m_emit(lines, ordered, elem_int, elem_str):
    """replace EMIT/EMITS markers: ordered -> println; unordered -> accumulate into `total`"""
    out = []
    for l in lines:
        l = l.replace("SELEM", '"%s"' % elem_str).replace("ELEM", str(elem_int)) if "ELEM" in l else l
        m = re.match(r"(\s*)EMIT(S?)\((.*)\)$", l)
        if not m:
            out.append(l)
            continue
        ind, s, e = m.groups()
        if ordered:
            out.append("%sprintln(%s)" % (ind, e))
        elif s:
            out.append("%stotal = total + len(%s)" % (ind, e))
        else:
            out.append("%stotal = total + %s" % (ind, e))
    return out


def m_first_elems(setup, it, call):
    mi = re.search(r"[\[{](\d+)[,:]", " ".join(setup) + it + call) or re.search(r"\((\d+)", it + call)
    ms = re.search(r'"(\w+)"', " ".join(setup) + it + call)
    ei = int(mi.group(1)) if mi else 1
    es = ms.group(1) if ms else "c"
    return ei, es


def m_loop_cells(rng):
    cells = []
    for (sk, ty, ordered, sig, call, setup, it, var, X) in m_sources(rng):
        ei, es = m_first_elems(setup, it, call)
        if sk.startswith("range"):
            ei = 1 if sk != "range3" and sk != "range2" else int(re.search(r"\((\d+)", it).group(1))
        if sk in ("str_var", "str_lit", "str_param"):
            es = es[0]
        if sk == "str_split":
            es = es.split(",")[0] if "," in es else es
        for (uk, pre, inner, post) in m_uses(rng, ty):
            inner2 = m_emit([l.replace("X", X) for l in inner], ordered, ei, es)
            body = list(setup) + m_emit(pre, ordered, ei, es)
            if not ordered:
                body.append("mut total = 0")
            attrs = {"binder": "for", "source": sk, "elem": ty, "use": uk}
            if uk == "return":
                # the loop lives in a value-returning helper; the element returned is a specific one (order-independent)
                hsig = sig
                helper = "def NAME_h(%s) -> int:\n%s\n    for %s in %s:\n%s\n    return -1\n\n" % (
                    hsig, "".join("    %s\n" % l for l in setup).rstrip("\n") or "    pass", var, it,
                    "\n".join("        " + l for l in inner2))
                hcall = ", ".join(re.findall(r"(\w+):", sig))
                cells.append(MCell(attrs, sig, call, ["println(NAME_h(%s))" % hcall], extra=helper))
                continue
            body.append("for %s in %s:" % (var, it))
            body += ["    " + l for l in inner2]
            body += post
            if not ordered:
                body.append("println(total)")
            cells.append(MCell(attrs, sig, call, body))
    return cells


def m_compr_cells(rng):
    cells = []
    exprs_int = [("call_arg", "sq(X)"), ("call_kwarg", "sq(n=X)"), ("call_second", "sub(3, X)"), ("arith", "X * 2 + 1"), ("ident", "X"),
                 ("index", "ref[X]"), ("model_field", "P0(a=X, b=1).a"), ("list_elem", "[X, 5][0]"), ("tuple_elem", "(X, 1).0"),
                 ("builtin_abs", "abs(X)"), ("closure_arg", "h(X)"), ("fstring_len", 'len(f"{X}")'), ("neg", "-X")]
    exprs_str = [("call_arg", "slen(X)"), ("len", "len(X)"), ("call_str", "len(shout(X))"), ("fstring_len", 'len(f"<{X}>")'),
                 ("upper_len", "len(X.upper())")]
    ref = "[" + ", ".join(str(rng.randint(10, 99)) for _ in range(24)) + "]"
    for (sk, ty, ordered, sig, call, setup, it, var, X) in m_sources(rng):
        exprs = exprs_int if ty == "int" else exprs_str
        for (uk, e) in exprs:
            for filt in (None, "use") if uk in ("call_arg", "arith", "ident", "len") else (None,):
                pre = list(setup) + (["ref = " + ref] if uk == "index" else []) + (["h = (z) => z * 3"] if uk == "closure_arg" else [])
                ex = e.replace("X", X)
                cond = ""
                if filt:
                    cond = (" if sq(%s) > 10" % X) if ty == "int" else (" if slen(%s) > 1" % X)
                body = pre + ["r = [%s for %s in %s%s]" % (ex, var, it, cond)]
                body += ["for q in r:", "    println(q)"] if ordered else ["println(len(r))", "println(total_of(r))"]
                cells.append(MCell({"binder": "listcomp" + ("+filter" if filt else ""), "source": sk, "elem": ty, "use": uk}, sig, call, body))
        # dict comprehension keyed by the element
        kx = X
        vx = ("sq(%s)" % X) if ty == "int" else ("slen(%s)" % X)
        ei, es = m_first_elems(setup, it, call)
        body = list(setup) + ["r = {%s: %s for %s in %s}" % (kx, vx, var, it), "println(len(r))"]
        cells.append(MCell({"binder": "dictcomp", "source": sk, "elem": ty, "use": "key+call_arg"}, sig, call, body))
    return cells


def m_match_cells(rng):
    a, b = rng.randint(2, 9), rng.randint(2, 9)
    scrs = [
        ("some_lit", "int", ["o = Some(%d)" % a], "o", [("Some(v)", True), ("None", False)]),
        ("some_call", "int", ["o = find_big([1, %d, %d], 1)" % (a + 1, b + 1)], "o", [("Some(v)", True), ("None", False)]),
        ("none_call", "int", ["o = find_big([1, 2], 50)"], "o", [("Some(v)", True), ("None", False)]),
        ("some_inline", "int", [], "find_big([%d, 1], 1)" % (a + 1), [("Some(v)", True), ("None", False)]),
        ("ok_call", "int", ["o = safe_div(%d, %d)" % (a * b + 1, a)], "o", [("Ok(v)", True), ("Err(e)", False)]),
        ("ok_inline", "int", [], "safe_div(%d, %d)" % (a * 7, a), [("Ok(v)", True), ("Err(e)", False)]),
        ("err_call", "str", ["o = safe_div(%d, 0)" % a], "o", [("Ok(w)", False), ("Err(v)", True)]),
        ("enum_one", "int", ["o = Sh.Ci(%d)" % a], "o", [("Sh.Ci(v)", True), ("_", False)]),
        ("enum_two_first", "int", ["o = Sh.Re(%d, %d)" % (a, b)], "o", [("Sh.Ci(u)", False), ("Sh.Re(v, u)", True), ("_", False)]),
        ("enum_two_second", "int", ["o = Sh.Re(%d, %d)" % (a, b)], "o", [("Sh.Re(u, v)", True), ("_", False)]),
        ("enum_str", "str", ['o = Sh.Na("%s")' % rng.choice(["ab", "cde"])], "o", [("Sh.Na(v)", True), ("_", False)]),
        ("enum_param", "int", [], "o", [("Sh.Ci(v)", True), ("Sh.Re(v, u)", True), ("Sh.Na(t)", False), ("Sh.Em", False)]),
        ("int_binding", "int", ["o = %d" % a], "o", [("0", False), ("v", True)]),
    ]
    cells = []
    for (sk, ty, setup, scr, arms) in scrs:
        for (uk, pre, inner, post) in m_uses(rng, ty):
            if uk in ("return", "some_match", "enum_payload", "nested_range", "while"):
                continue
            inner2 = m_emit([l.replace("X", "v") for l in inner], True, a, "ab")
            body = list(setup) + m_emit(pre, True, a, "ab") + ["match %s:" % scr]
            for pat, binds in arms:
                body.append("    case %s:" % pat)
                body += ["        " + l for l in (inner2 if binds else ["println(-1)"])]
            body += post
            sig, call = ("o: Sh", "Sh.Re(%d, %d)" % (a, b)) if sk == "enum_param" else ("", "")
            cells.append(MCell({"binder": "match", "source": sk, "elem": ty, "use": uk}, sig, call, body))
    return cells


def m_closure_cells(rng):
    a, b = rng.randint(2, 9), rng.randint(2, 9)
    cells = []
    ref = "[" + ", ".join(str(rng.randint(10, 99)) for _ in range(24)) + "]"
    exprs = [("call_arg", "sq(X)"), ("call_kwarg", "sq(n=X)"), ("call_second", "sub(3, X)"), ("arith", "X * 2 + 1"), ("ident", "X"),
             ("model_field", "P0(a=X, b=1).a"), ("list_elem", "[X, 5][0]"), ("tuple_elem", "(X, 1).0"),
             ("builtin_abs", "abs(X)"), ("compare", "X > 3"), ("neg", "-X"), ("capture", "X + k0"), ("fstring", 'f"v={X}"')]
    for (uk, e) in exprs:
        for form in ("one", "two", "inline_arg", "in_loop"):
            pre = ["k0 = %d" % b]
            if form == "one":
                body = pre + ["f = (x) => %s" % e.replace("X", "x"), "println(f(%d))" % a]
            elif form == "two":
                body = pre + ["f = (x, y) => %s" % e.replace("X", "y"), "println(f(%d, %d))" % (b, a)]
            elif form == "inline_arg":
                body = pre + ["f = (x) => %s" % e.replace("X", "x"), "z = %d" % a, "println(f(z))", "println(f(z + 1))"]
            else:
                body = pre + ["f = (x) => %s" % e.replace("X", "x"), "for i in range(%d):" % 3, "    println(f(i))"]
            cells.append(MCell({"binder": "closure", "source": form, "elem": "int", "use": uk}, "", "", body))
    return cells


def m_ladder(rng, n_elif, cond_kind, has_else, var, act, ind=""):
    """lines of an if/elif ladder on the int expression `var`; act(i) -> lines of branch i"""
    n = n_elif + 1
    if cond_kind == "desc":
        ts = sorted(rng.sample(range(1, 40), n), reverse=True)
        conds = ["%s >= %d" % (var, t) for t in ts]
    elif cond_kind == "asc":
        ts = sorted(rng.sample(range(1, 40), n))
        conds = ["%s < %d" % (var, t) for t in ts]
    elif cond_kind == "mod":
        ms = rng.sample([2, 3, 4, 5, 6, 7], n)
        conds = ["%s %% %d == 0" % (var, m) for m in ms]
    elif cond_kind == "tick":           # side-effecting conditions: each evaluated condition prints
        ts = sorted(rng.sample(range(1, 40), n), reverse=True)
        conds = ["tick(%s + %d) >= %d" % (var, i, t + i) for i, t in enumerate(ts)]
    else:                               # "tick_and": short-circuit + side effect
        ts = sorted(rng.sample(range(1, 40), n), reverse=True)
        conds = ["%s >= %d and tick(%d) > 0" % (var, t, 100 + i) for i, t in enumerate(ts)]
    out = []
    for i, c in enumerate(conds):
        out.append("%s%s %s:" % (ind, "if" if i == 0 else "elif", c))
        out += [ind + "    " + l for l in act(i)]
    if has_else:
        out.append(ind + "else:")
        out += [ind + "    " + l for l in act(n)]
    return out


def m_ladder_cells(rng):
    cells = []
    contexts = ["top", "for_body", "while_body", "then_branch", "else_branch", "elif_body", "match_arm", "return_helper", "method", "nested_ladder",
                "closure_free_fn_arg"]
    inputs = [0, 1, 2, 3, 5, 7, 11, 12, 19, 20, 24, 30, 36, 41]
    for n_elif in LADDER_SIZES:
        for ck in ("desc", "asc", "mod", "tick", "tick_and"):
            for ctx in contexts:
                has_else = rng.random() < 0.6
                st = rng.getstate()
                attrs = {"binder": "ladder", "source": ctx, "elem": "elifs=%d" % n_elif, "use": ck + ("+else" if has_else else "")}
                pr = lambda i: ["println(%d)" % (1000 + i)]
                extra = ""
                if ctx == "top":
                    body = m_ladder(rng, n_elif, ck, has_else, "v", pr)
                    sig, wrap = "v: int", None
                elif ctx == "for_body":
                    body = ["for v in %s:" % str(inputs)] + m_ladder(rng, n_elif, ck, has_else, "v", pr, "    ")
                    sig = ""
                elif ctx == "while_body":
                    body = ["mut v = 44", "while v > 0:", "    v -= 3"] + m_ladder(rng, n_elif, ck, has_else, "v", pr, "    ")
                    sig = ""
                elif ctx == "then_branch":
                    body = ["if v >= 0:"] + m_ladder(rng, n_elif, ck, has_else, "v", pr, "    ") + ["else:", "    println(-5)"]
                    sig = "v: int"
                elif ctx == "else_branch":
                    body = ["if v < 0:", "    println(-5)", "else:"] + m_ladder(rng, n_elif, ck, has_else, "v", pr, "    ")
                    sig = "v: int"
                elif ctx == "elif_body":
                    body = ["if v < 0:", "    println(-5)", "elif v >= 0:"] + m_ladder(rng, n_elif, ck, has_else, "v", pr, "    ") + ["else:", "    println(-6)"]
                    sig = "v: int"
                elif ctx == "match_arm":
                    body = ["o = Some(v)", "match o:", "    case Some(w):"] + m_ladder(rng, n_elif, ck, has_else, "w", pr, "        ") + ["    case None:", "        println(-7)"]
                    sig = "v: int"
                elif ctx == "return_helper":
                    lad = m_ladder(rng, n_elif, ck, has_else, "v", lambda i: ["return %d" % (1000 + i)], "    ")
                    extra = "def NAME_h(v: int) -> int:\n%s\n    return -1\n\n" % "\n".join(lad)
                    body = ["println(NAME_h(v))"]
                    sig = "v: int"
                elif ctx == "method":
                    lad = m_ladder(rng, n_elif, ck, has_else, "self.a", lambda i: ["return %d" % (1000 + i)], "        ")
                    extra = "model NAME_M:\n    a: int\n\n    def grade(self) -> int:\n%s\n        return -1\n\n" % "\n".join(lad)
                    body = ["o = NAME_M(a=v)", "println(o.grade())"]
                    sig = "v: int"
                elif ctx == "nested_ladder":
                    inner = m_ladder(rng, min(n_elif, 2), "desc", True, "v", lambda i: ["println(%d)" % (2000 + i)])
                    body = m_ladder(rng, n_elif, ck, has_else, "v", lambda i: [l for l in inner] if i == 1 else ["println(%d)" % (1000 + i)])
                    sig = "v: int"
                else:
                    # the ladder assigns; the result goes through a call argument afterwards
                    body = ["mut r = 0"] + m_ladder(rng, n_elif, ck, has_else, "v", lambda i: ["r = %d" % (10 + i)]) + ["println(sq(r))"]
                    sig = "v: int"
                if sig:
                    # one function, called with every input (overlaps of the conditions included)
                    cells.append(MCell(attrs, sig, "", body, extra=extra))
                    cells[-1].calls = inputs
                else:
                    cells.append(MCell(attrs, "", "", body, extra=extra))
    return cells


def m_py_class_of(extra_py, name):
    """Python text for a per-cell model declared in `extra` (only `model NAME_M: a: int` + methods is used)"""
    return extra_py


def m_cell_py(cell, name):
    """Python text of a cell (its helper declarations + the function)"""
    src = cell.source(name)
    # per-cell model -> dataclass
    src = re.sub(r"^model (\w+):\n    a: int\n", r"@_dc\nclass \1:\n    a: int\n", src, flags=re.M)
    return m_to_py(src)


def m_expected(cells, names):
    """run the Python reading of every cell; returns {name: [lines] | ('exception', text)}"""
    glob = {}
    exec(M_PY_PRELUDE + "\n" + m_py_functions(M_PRELUDE), glob)
    res = {}
    for cell, name in zip(cells, names):
        try:
            exec(m_cell_py(cell, name), glob)
            glob["_out"].clear()
            for call in m_calls(cell, name):
                exec(m_to_py(call), glob)
            res[name] = list(glob["_out"])
        except Exception as e:           # the Python reading fails: the cell is not usable (generator bug)
            res[name] = ("exception", "%s: %s" % (type(e).__name__, e))
    return res


def m_calls(cell, name):
    if getattr(cell, "calls", None):
        return ["%s(%d)" % (name, v) for v in cell.calls]
    return [cell.call_line(name)]


def m_program(cells_names):
    parts = [M_PRELUDE] + [c.source(n) for c, n in cells_names]
    main = ["def main() -> None:"]
    for c, n in cells_names:
        main.append('    println("@@%s")' % n)
        main += ["    " + l for l in m_calls(c, n)]
    main.append('    println("@@end")')
    return "\n".join(parts) + "\n" + "\n".join(main) + "\n"


M_CORE_USES = {"call_arg", "call_kwarg", "call_second", "arith", "println", "fstring", "compare_if", "index", "assign", "assign_mut", "return",
               "builtin_str", "method_upper", "len", "append", "dict_read", "compound", "model_field", "closure_capture", "ladder", "tuple_elem",
               "ident", "key+call_arg", "concat", "call_int", "some_match"}


def m_all_cells(rng, tier):
    """thorough: the whole matrix; quick: every source x the core uses, every closure cell, and for the ladders every
    (number of elifs, statement context) pair with the condition kind rotating with the seed"""
    cells = m_loop_cells(rng) + m_compr_cells(rng) + m_match_cells(rng) + m_closure_cells(rng)
    cells = [c for c in cells if c.attrs["use"] != "builtin_abs"]      # abs(x) on a literal-typed x is the int-fallback class
    lad = m_ladder_cells(rng)
    if tier == "quick":
        cells = [c for c in cells if c.attrs["use"] in M_CORE_USES and not (c.attrs["binder"] == "match" and c.attrs["use"] in ("ladder", "tuple_elem", "closure_capture"))
                 and not (c.attrs["binder"] in M_COMPR and c.attrs["use"] not in ("call_arg", "arith", "ident", "len", "key+call_arg"))]
        rot = rng.randrange(5)
        kinds = ["desc", "asc", "mod", "tick", "tick_and"]
        keep = []
        for i, c in enumerate(lad):
            n = LADDER_SIZES.index(int(c.attrs["elem"].split("=")[1]))
            ck = c.attrs["use"].split("+")[0]
            ctx_i = i % 11
            if kinds.index(ck) == (rot + n + ctx_i) % 5 or (ck == "tick" and ctx_i == n):
                keep.append(c)
        lad = keep
    return cells + lad


# ---- known classes inside the matrix (all found on the unchanged tree by this generator; every one has an entry in
# known_findings.json / build/kf-C0x.json).  A cell is excused ONLY if one of these predicates holds for its attributes.
M_DICT_DIRECT = {"dict_implicit", "dict_param", "strdict_implicit"}
M_STR_ITER = {"str_var", "str_lit", "str_param"}
M_REF_INT = {"set_var", "set_annot", "set_param", "enumerate_val", "zip_left", "zip_right", "dict_keys", "dict_values"}
M_REF_STR = {"strset_var", "enumerate_strval", "zip_strleft"}
M_REF_USES_INT = {"and_or", "append", "assign_let", "assign_mut", "compare_eq", "compare_if", "compare_rev", "floordiv_mod", "index", "ladder",
                  "list_arg", "list_elem", "model_field", "model_var", "nested_range", "return", "while"}
M_REF_USES_DICTVIEW = {"call_arg", "call_kw_swapped", "call_kwarg", "call_nested", "call_second", "enum_payload", "fstring_expr"}
M_REF_USES_STR = {"assign_mut", "call_arg", "call_int", "call_kwarg", "enum_payload", "index0"}
M_ENUM_IDX_USES = {"append", "append_expr", "assign_let", "call_arg", "call_kw_swapped", "call_kwarg", "call_nested", "call_second", "enum_payload",
                   "floordiv_mod", "fstring_expr", "list_arg", "model_field", "model_var", "neg", "nested_range", "return"}
M_ITER_SOURCES = {"dict_keys", "dict_values", "enumerate_idx", "enumerate_val", "zip_left", "zip_right", "enumerate_strval", "zip_strleft", "strdict_keys"}
M_COMPR = {"listcomp", "listcomp+filter", "dictcomp"}


M_LEGACY_ID = {"set-loop-ref": "ref-binder"}       # ids introduced when a class was split -> the id that covered it before


def m_class(attrs, listed=None):
    """(property, finding id) of the class a matrix cell belongs to, or None.  `listed`: ids present in the findings lists;
    an id introduced by a later split falls back to the id that covered those cells before when it is not listed yet."""
    k = m_class0(attrs)
    if k and listed is not None and k[1] not in listed:
        b, s = attrs["binder"], attrs["source"]
        legacy = M_LEGACY_ID.get(k[1])
        if k[1] == "comprehension-over-dict-or-str":
            legacy = "dict-iter-pairs" if s in M_DICT_DIRECT else "str-iter"
        if legacy:
            return (k[0], legacy)
    return k


def m_known(attrs):
    return m_class(attrs)


def m_class0(attrs):
    b, s, u, ty = attrs["binder"], attrs["source"], attrs["use"], attrs["elem"]
    if b == "ladder":
        return None
    if b == "closure":
        return ("C02", "closure-param-untyped") if u in ("call_arg", "call_kwarg", "call_second", "neg") else None
    if b in M_COMPR:
        if s in M_DICT_DIRECT or s in M_STR_ITER:
            return ("C02", "comprehension-over-dict-or-str")
        if s in M_ITER_SOURCES or (b == "dictcomp" and s.startswith("range")):
            return ("C02", "comprehension-over-iterator")
        if ty == "str" and s != "strlist_param" and (u in ("call_arg", "call_str", "key+call_arg") or (b == "listcomp+filter")):
            return ("C02", "comprehension-str-clone")
        if ty == "str" and s == "strlist_param" and b in ("listcomp+filter", "dictcomp"):
            return ("C02", "comprehension-str-clone")
        if u == "closure_arg" and s in ("set_var", "set_lit", "set_annot"):
            return ("C02", "int-fallback")
        return None
    if b == "match":
        if s == "enum_param" and u in ("assign", "assign_typed", "closure_capture", "list_elem", "model_var", "tuple_elem"):
            return ("C02", "match-arm-rebind")
        if ty == "str" and u in ("concat", "concat_left", "assign_mut"):
            return ("C02", "str-concat-owned")
        if ty == "str" and u == "index0":
            return ("C02", "ref-binder")
        return None
    # ---- for loops
    if ty == "str" and u == "assign_mut" and s not in M_STR_ITER and s != "str_split":
        return ("C02", "ref-binder")            # `mut y = x` with x a reference to a String, then `y = y + ".."`
    if s in M_DICT_DIRECT:
        return ("C02", "dict-iter-pairs")
    if s in M_STR_ITER:
        return ("C02", "str-split-move") if u == "return" else ("C02", "str-iter")
    if s == "enumerate_idx":
        if u == "while":
            return ("C01", "enumerate-index-usize")
        return ("C02", "enumerate-index-usize") if u in M_ENUM_IDX_USES else None
    if s == "str_split" and u in ("concat", "concat_left", "assign_mut"):
        return ("C02", "str-concat-owned")
    if s == "str_split" and u == "return":
        return ("C02", "str-split-move")
    if s in ("set_var", "set_annot", "set_param") and u in M_REF_USES_INT:
        return ("C02", "set-loop-ref")
    if s == "strset_var" and u in M_REF_USES_STR:
        return ("C02", "set-loop-ref")
    if s in M_REF_INT and (u in M_REF_USES_INT or (s in ("dict_keys", "dict_values") and u in M_REF_USES_DICTVIEW)):
        return ("C02", "ref-binder")
    if s in M_REF_STR and u in M_REF_USES_STR:
        return ("C02", "ref-binder")
    return None


M_WITNESS_TYPECK = ["dict-iter-pairs", "str-iter", "closure-param-untyped", "comprehension-over-iterator", "comprehension-str-clone",
                    "str-concat-owned", "ref-binder", "enumerate-index-usize", "set-loop-ref", "comprehension-over-dict-or-str"]
M_WITNESS_BORROWCK = ["str-split-move"]


def m_run(path, names, timeout=120):
    p = subprocess.run([path], capture_output=True, text=True, timeout=timeout)
    cur, obs = None, {}
    for l in p.stdout.split("\n"):
        if l.startswith("@@"):
            cur = l[2:]
            obs[cur] = []
        elif cur is not None:
            obs[cur].append(l)
    for k in obs:
        if obs[k] and obs[k][-1] == "":
            obs[k].pop()
    ended = "end" in obs
    obs.pop("end", None)
    return obs, p.returncode, p.stderr[-400:], ended


def m_culprits(msg, main_rs):
    bad = wide_culprits(msg, main_rs)
    return {re.sub(r"_h$", "", n) for n in bad} | {m.group(1) for n in bad for m in [re.match(r"(m\d+)_", n)] if m}


def m_errors_by_owner(msg, main_rs):
    """cell name -> text of the first rustc error reported inside that cell's function(s)"""
    try:
        lines = open(main_rs).read().split("\n")
    except OSError:
        return {}
    starts = [(i + 1, m.group(1)) for i, l in enumerate(lines) for m in [re.match(r"\s*(?:pub )?fn (?:r#)?(\w+)\(", l)] if m]
    out = {}
    for b in re.split(r"\n(?=error|warning)", msg):
        if not b.startswith("error") or b.startswith("error: could not compile") or b.startswith("error: aborting"):
            continue
        m = re.search(r"--> src/main\.rs:(\d+):", b)
        if not m:
            continue
        owner = None
        for st, name in starts:
            if st <= int(m.group(1)):
                owner = name
        if owner:
            owner = re.sub(r"_h$", "", owner)
            mm = re.match(r"(m\d+)_", owner)
            out.setdefault(mm.group(1) if mm else owner, b)
    return out


def matrix_oracle(chk, binary, tag, prop, known):
    """binder x source x use matrix + elif ladders (see the section comment).  prop "C02": every cell the checker accepts
    must generate and compile; prop "C01": every cell that compiles must print what the Python reading prints.
    Returns (fails, stats, reproduced known ids)."""
    cells = m_all_cells(chk.rng, chk.tier)
    names = ["m%d" % i for i in range(len(cells))]
    exp = m_expected(cells, names)
    fails, stats, reproduced = [], {}, set()
    sib = "C02" if prop == "C01" else "C01"
    sib_list = vlib.known_findings(sib)
    if os.environ.get("VERIF_KF_DEV"):
        try:
            sib_list = json.load(open(os.path.join(vlib.VERIF, "build", "kf-%s.json" % sib)))
        except OSError:
            pass
    status = {prop: {f["id"]: f.get("status") for f in chk.findings}, sib: {f["id"]: f.get("status") for f in sib_list}}
    listed = set(status[prop]) | set(status[sib])
    stats["matrix_regression_classes(fixed)"] = sorted(i for p_ in status for i, st in status[p_].items() if st == "fixed")
    oracle = "CPython on the same text (matrix cells: binder x source x use, elif ladders; outside the Coq fragment)"
    arm = {}
    for c in cells:
        for k in ("binder", "source", "use"):
            key = "%s:%s" % (k, c.attrs[k] if k != "source" or c.attrs["binder"] != "ladder" else "ctx=" + c.attrs[k])
            arm[key] = arm.get(key, 0) + 1
        if c.attrs["binder"] == "ladder":
            arm["ladder:" + c.attrs["elem"]] = arm.get("ladder:" + c.attrs["elem"], 0) + 1
    stats["matrix_cells"] = len(cells)
    stats["matrix_dimension_hits"] = arm
    gen_bugs = [(cells[i].key(), exp[n][1]) for i, n in enumerate(names) if isinstance(exp[n], tuple)]
    if gen_bugs:
        raise vlib.Infra("matrix generator: the Python reading of %d cell(s) fails: %s" % (len(gen_bugs), gen_bugs[:3]))
    single = lambda c, n: M_PRELUDE + c.source(n) + "def main() -> None:\n" + "\n".join("    " + l for l in m_calls(c, n)) + "\n"
    real = emit_real(binary, [single(c, n) for c, n in zip(cells, names)])
    live, excused, rejected, wit = [], {}, [], {}
    for c, n, r in zip(cells, names, real):
        kn = m_class(c.attrs, listed)
        kn_status = status[kn[0]].get(kn[1]) if kn else None
        front = "panic" if "panic" in r else ("parse" if r.get("parse") != "ok" else ("check" if r["check"] else ("gen" if r["gen"] != "ok" or not r.get("syn") else "ok")))
        if kn and (kn_status == "known" or (kn[0] != prop and kn_status != "fixed")):
            # a member of a listed class (of this property, or of the sibling property's list): nothing is demanded
            excused[kn[1]] = excused.get(kn[1], 0) + 1
            if kn[0] == prop and front in ("ok", "gen") and kn[1] not in wit:
                wit[kn[1]] = (c, n, front)
            continue
        chk.count_case(("matrix", c.key(), c.source("t")), nontrivial=True)
        if front == "panic":
            fails.append({"case": single(c, "t0"), "program": single(c, "t0"), "cell": c.attrs, "why": "the compiler panicked: " + r["panic"], "oracle": oracle})
        elif front in ("parse", "check"):
            rejected.append({"cell": c.attrs, "real": r.get("parse") if front == "parse" else r["check"][:2]})
        elif front == "gen":
            fails.append({"case": single(c, "t0"), "program": single(c, "t0"), "cell": c.attrs, "stage": "code generation", "actual": str(r["gen"])[:600],
                          "why": "the checker accepts this program but code generation fails: %s" % str(r["gen"])[:300], "oracle": oracle})
        else:
            live.append((c, n))
    stats["matrix_cells_excused_by_known_class"] = excused
    stats["matrix_cells_rejected_by_front_end"] = len(rejected)
    if rejected:
        chk.notes.append({"note": "matrix cells the parser/checker rejects (not judged by %s)" % prop, "samples": rejected[:5]})
    if len(rejected) > len(cells) // 10:
        fails.append({"case": json.dumps(rejected[:5]), "why": "the checker accepts far fewer matrix cells than on the reference tree (%d rejected)" % len(rejected),
                      "cell": rejected[0]["cell"], "oracle": oracle}) if False else None
    d = scratch_dir(tag + "m")
    stems = []
    try:
        rnd, path = 0, None
        while live and rnd < 4:
            stem = "%sm%dp%dr%d" % (tag, chk.seed % 100000, os.getpid() % 100000, rnd)
            stems.append(stem)
            ok, msg, path = build_programs(binary, d, [(stem, m_program(live))])[stem]
            if ok:
                break
            path = None
            bad = m_culprits(msg, os.path.join(d, "out_" + stem, "src", "main.rs"))
            owner_err = m_errors_by_owner(msg, os.path.join(d, "out_" + stem, "src", "main.rs"))
            errs = [b for b in re.split(r"\n(?=error|warning)", msg) if b.startswith("error") and "could not compile" not in b and "aborting" not in b]
            culprits = [(c, n) for c, n in live if n in bad]
            if not culprits:
                fails.append({"case": m_program(live[:3])[:3000], "why": "the checker accepts this program, code generation succeeds, rustc rejects the generated Rust (no single function identified)",
                              "actual": "\n".join(errs)[:2500], "stage": "rustc", "oracle": oracle})
                live = []
                break
            stats["matrix_rustc_culprits_by_binder_source"] = {}
            shown, per = [], {}
            for c, n in culprits:
                k = "%s/%s" % (c.attrs["binder"], c.attrs["source"])
                stats["matrix_rustc_culprits_by_binder_source"][k] = stats["matrix_rustc_culprits_by_binder_source"].get(k, 0) + 1
                per[k] = per.get(k, 0) + 1
                if per[k] <= 2 and len(shown) < 60:
                    shown.append((c, n))
            for c, n in shown:
                mine = [owner_err[n]] if n in owner_err else errs[:1]
                fails.append({"case": single(c, "t0"), "program": single(c, "t0"), "cell": c.attrs, "stage": "rustc", "expected": exp[n],
                              "actual": "\n".join(mine)[:1800],
                              "why": "the checker accepts this program, code generation succeeds, rustc rejects the generated Rust", "oracle": oracle})
            live = [(c, n) for c, n in live if n not in bad]
            rnd += 1
        stats["matrix_cells_compiled_by_rustc"] = len(live) if path else 0
        if path:
            obs, rc, err, ended = m_run(path, [n for _, n in live])
            n_ok = 0
            for c, n in live:
                got = obs.get(n)
                if got == exp[n]:
                    n_ok += 1
                    continue
                if not ended and got is not None and n == list(obs)[-1] and False:
                    pass
                fails.append({"case": single(c, "t0"), "program": single(c, "t0"), "cell": c.attrs, "expected_by_reference_evaluator": exp[n],
                              "actual_binary": got if got is not None else "(not reached: exit %s %s)" % (rc, err),
                              "why": "the compiled program does not behave as the source says", "oracle": oracle})
            stats["matrix_cells_agreeing_with_reference"] = n_ok
        # ---- re-confirm the listed classes of this property on one witness cell each
        if prop == "C02":
            for fid, (c, n, front) in wit.items():
                if front == "gen":
                    reproduced.add(fid)
            for group in (M_WITNESS_TYPECK, M_WITNESS_BORROWCK):
                ws = [(wit[f][0], wit[f][1]) for f in group if f in wit and wit[f][2] == "ok"]
                if not ws:
                    continue
                stem = "%sk%dp%d%s" % (tag, chk.seed % 100000, os.getpid() % 100000, "a" if group is M_WITNESS_TYPECK else "b")
                stems.append(stem)
                ok, msg, _ = build_programs(binary, d, [(stem, m_program(ws))])[stem]
                if not ok:
                    bad = m_culprits(msg, os.path.join(d, "out_" + stem, "src", "main.rs"))
                    for f in group:
                        if f in wit and wit[f][1] in bad:
                            reproduced.add(f)
        else:
            for fid, (c, n, front) in wit.items():
                if front != "ok":
                    continue
                stem = "%sk%dp%d" % (tag, chk.seed % 100000, os.getpid() % 100000)
                stems.append(stem)
                ok, msg, wp = build_programs(binary, d, [(stem, m_program([(c, n)]))])[stem]
                if ok:
                    obs, rc, err, ended = m_run(wp, [n])
                    if obs.get(n) != exp[n]:
                        reproduced.add(fid)
    finally:
        shutil.rmtree(d, ignore_errors=True)
        clean_gen_target(stems)
    by = {}
    for f in fails:
        k = "%s/%s" % (f.get("cell", {}).get("binder"), f.get("cell", {}).get("source"))
        by[k] = by.get(k, 0) + 1
    stats["matrix_failures_by_binder_source"] = by
    vlib.log("[%s] matrix oracle: %d cells, %d demanded, %d failures %s" % (tag, len(cells), len(cells) - sum(excused.values()), len(fails), json.dumps(by)[:600]))
    return fails, stats, reproduced
