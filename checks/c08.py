"""C08 — formatting never changes what a program means (and the shared machinery for C09).

proof:   coq/C08/Props.v over coq/Fmt/{Ast,Print,Parse,Roundtrip}.v: AST + printer model mirroring
         src/format/formatter.rs arm by arm for the expression / simple-statement core (token level), an
         executable fuelled model of the precedence ladder of crates/incan_syntax/src/parser/expr.rs, and the
         round-trip theorem parse (print e ++ rest) = (defloat e, rest) for every ladder-well-formed e (`::` slices included).
tie:     hand model + correspondence: the model parser runs (vm_compute inside coqc) on the REAL lexer's tokens
         of generated core programs and must produce the REAL parser's AST; the model printer applied to that AST
         must produce the REAL lexer's tokens of the REAL formatter's output.
oracle:  on the implementation, per top-level declaration d of every corpus / generated file:
         parse(fmt(d)) == norm(d) after span erasure, where norm = the documented normalisation (docstring trim)
         plus, for LISTED findings only, the precise transformation each finding class performs; whole-file
         compositionality and re-parse consistency."""
import hashlib
import json
import os
import shutil
import subprocess

import vlib


# ------------------------------------------------------------------------------------------ generator
GENERATOR_DOC = """AST-directed generator of Incan source for C08/C09 (owned by the C08/C09 checks).

Every constructor and optional field of crates/incan_syntax/src/ast.rs that the parser can produce
is reachable; surface spellings vary (quotes, `case p:` vs `p =>`, `..` vs `super::`, `.` vs `::`
in import paths, `newtype X = T` vs `type X = newtype T`, `...` vs `pass`, trailing commas, extra
parentheses, blank lines, comments).  Constructs that fall in a listed finding class are only
produced when `risky` names them, so that a declaration carries at most one such class and the
rest of the program stays fully checked."""


NAMES = ["a", "b", "c", "x", "y", "z", "n", "total", "item", "cfg", "user_id", "it", "k", "v", "acc"]
TYPES = ["int", "str", "float", "bool", "bytes", "T", "User", "E"]
CTORS = ["Some", "Ok", "Err", "Point", "User"]

# ladder levels (parser/expr.rs)
OPS = {0: ["or"], 1: ["and"], 3: ["==", "!=", "<", ">", "<=", ">=", "in", "not in", "is"], 5: ["+", "-"],
       6: ["*", "/", "//", "%"]}


class Gen:
    def __init__(self, rng):
        self.r = rng
        self.used = set()
        self.core = False      # only constructs of the Coq core (tie cases)

    # ------------------------------------------------------------------ helpers
    def pick(self, xs):
        return xs[self.r.randrange(len(xs))]

    def chance(self, p):
        return self.r.random() < p

    def name(self):
        return self.pick(NAMES)

    def use(self, tag):
        self.used.add(tag)

    # ------------------------------------------------------------------ literals
    def string(self):
        body = self.pick(["", "hi", "a b", "it's", 'say \\"x\\"', "tab\\there", "nl\\nx", "back\\\\slash", "café", "{x}", "odd\\d",
                          "x" * self.r.randrange(0, 6)])
        if self.chance(0.3) and '"' not in body and "'" not in body:
            return "'" + body + "'"
        return '"' + body + '"'

    def literal(self, risky):
        k = self.r.randrange(9)
        if k == 0:
            self.use("Int")
            return str(self.pick([0, 1, 2, 7, 42, 1000, 2**31, 2**62, 9223372036854775807]))
        if k == 1:
            self.use("Float")
            if "fmt-float" in risky and self.chance(0.5):
                return self.pick(["1.0", "2e3", "0.0", "1e10", "100.0", "5e0", "1e16", "1e300", "1e-7"])
            return self.pick(["1.5", "0.25", "3.14159", "2.5e-3", "1e-7", "0.1", "123.456", "1.5e3" if False else "7.75"])
        if k == 2:
            self.use("String")
            return self.string()
        if k == 3:
            self.use("Bytes")
            if "fmt-bytes-escape" in risky and self.chance(0.4):
                return self.pick(['b"a\\"b"', 'b"a\\\\b"'])
            return self.pick(['b"abc"', 'b""', 'b"\\x00\\xff"', 'b"a\\nb\\t"', "b'q'", 'b"it\'s"', "b'don\\'t'", 'b"\\x27\\x22"', "b'say \"hi\"'"])
        if k == 4:
            self.use("Bool")
            return self.pick(["true", "false"])
        if k == 5:
            self.use("NoneLit")
            return "None"
        self.use("Int")
        return str(self.r.randrange(0, 100))

    # ------------------------------------------------------------------ expressions
    def args(self, d, risky):
        n = self.r.randrange(0, 4)
        out = []
        for _ in range(n):
            if self.chance(0.3):
                self.use("CallArg.Named")
                out.append("%s=%s" % (self.name(), self.expr(d - 1, 0, risky)))
            else:
                self.use("CallArg.Positional")
                out.append(self.expr(d - 1, 0, risky))
        s = ", ".join(out)
        if out and self.chance(0.1):
            s += ","
        return s

    def primary(self, d, risky):
        if d <= 0:
            k = self.r.randrange(4)
            if k == 0:
                return self.literal(risky)
            self.use("Ident")
            return self.name()
        k = self.r.randrange(17)
        if self.core:
            k = self.pick([0, 1, 2, 3, 4, 5, 6, 7, 11, 13, 14, 15, 16])
        if k == 0:
            return self.literal(risky)
        if k == 1:
            self.use("Ident")
            return self.name()
        if k == 2:
            self.use("SelfExpr")
            return "self"
        if k == 3:
            self.use("Paren")
            return "(" + self.expr(d - 1, 0, risky) + ")"
        if k == 4:
            n = self.pick([0, 1, 2, 3])
            self.use("Tuple%d" % min(n, 2))
            if n == 0:
                return "()"
            if n == 1:
                return "(" + self.expr(d - 1, 0, risky) + ",)"
            return "(" + ", ".join(self.expr(d - 1, 0, risky) for _ in range(n)) + (",)" if self.chance(0.1) else ")")
        if k == 5:
            n = self.r.randrange(0, 4)
            self.use("List")
            return "[" + ", ".join(self.expr(d - 1, 0, risky) for _ in range(n)) + "]"
        if k == 6:
            n = self.r.randrange(0, 3)
            self.use("Dict")
            return "{" + ", ".join("%s: %s" % (self.expr(d - 1, 0, risky), self.expr(d - 1, 0, risky)) for _ in range(n)) + "}"
        if k == 7:
            n = self.r.randrange(1, 4)
            self.use("Set")
            return "{" + ", ".join(self.expr(d - 1, 0, risky) for _ in range(n)) + "}"
        if k == 8:
            self.use("ListComp")
            s = "[%s for %s in %s" % (self.expr(d - 1, 0, risky), self.name(), self.expr(d - 1, 0, risky))
            if self.chance(0.5):
                self.use("ListComp.filter")
                s += " if " + self.expr(d - 1, 0, risky)
            return s + "]"
        if k == 9:
            self.use("DictComp")
            s = "{%s: %s for %s in %s" % (self.expr(d - 1, 0, risky), self.expr(d - 1, 0, risky), self.name(), self.expr(d - 1, 0, risky))
            if self.chance(0.5):
                self.use("DictComp.filter")
                s += " if " + self.expr(d - 1, 0, risky)
            return s + "}"
        if k == 10:
            self.use("FString")
            if "fmt-fstring-escape" in risky and self.chance(0.4):
                return self.pick(['f"a\\"b{x}"', 'f"{{x}} {y}"', 'f"p\\\\q{z}"', "f\"{d['k']}\"", 'f"l\\n{x}"'])
            parts = []
            for _ in range(self.r.randrange(0, 4)):
                if self.chance(0.5):
                    parts.append(self.pick(["hello ", "x=", " ", "café", ": ", "it's"]))
                else:
                    parts.append("{" + self.fexpr(d - 1) + "}")
            return 'f"' + "".join(parts) + '"'
        if k == 11:
            self.use("Constructor-like call")
            return "%s(%s)" % (self.pick(CTORS), self.args(d, risky))
        if k == 12 and "fmt-closure" in risky:
            self.use("Closure.params")
            n = self.r.randrange(1, 3)
            ps = [self.name() for _ in range(n)]
            return "((%s) => %s)" % (", ".join(ps), self.expr(d - 1, 0, risky))
        if k == 13:
            self.use("Closure.noparams")
            return "(() => %s)" % self.expr(d - 1, 0, risky)
        return self.postfix(d, risky)

    def fexpr(self, d):
        """expression inside an f-string: no string literals, no braces (their printed form contains quotes)"""
        k = self.r.randrange(5)
        if k == 0:
            return self.name()
        if k == 1:
            return "%s.%s" % (self.name(), self.name())
        if k == 2:
            return "%s + %d" % (self.name(), self.r.randrange(10))
        if k == 3:
            return "%s(%s)" % (self.name(), self.name())
        return "%s[%d]" % (self.name(), self.r.randrange(4))

    def postfix(self, d, risky):
        base = self.primary(d - 1, risky)
        for _ in range(self.r.randrange(1, 3)):
            k = self.r.randrange(9)
            if k == 0:
                self.use("Call")
                base += "(" + self.args(d, risky) + ")"
            elif k == 1:
                self.use("MethodCall")
                base += ".%s(%s)" % (self.name(), self.args(d, risky))
            elif k == 2:
                self.use("Field")
                base += "." + self.name()
            elif k == 3:
                self.use("Field.tuple-index")
                if base[-1].isdigit() or base[-1] == ".":
                    base = "(" + base + ")"
                base = "(%s.%d)" % (base, self.r.randrange(3)) if self.chance(0.5) else "%s.%d" % (base, self.r.randrange(3))
                if not base.endswith(")"):
                    # `t.0.1` would lex `0.1` as a float: keep the index last in the chain
                    return base
            elif k == 4:
                self.use("Index")
                base += "[" + self.expr(d - 1, 0, risky) + "]"
            elif k == 5:
                self.use("Try")
                base += "?"
            elif k in (6, 7):
                base += self.slice(d, risky)
            else:
                self.use("Field")
                base += "." + self.name()
        return base

    def slice(self, d, risky):
        s = self.chance(0.5)
        e = self.chance(0.5)
        st = self.chance(0.4)
        self.use("Slice.start:%s" % s)
        self.use("Slice.end:%s" % e)
        self.use("Slice.step:%s" % st)
        out = "["
        if s:
            out += self.expr(d - 1, 0, risky)
        out += ":"
        if e:
            out += self.expr(d - 1, 0, risky)
        if st:
            out += ((" :" if self.chance(0.5) else ":") if not e else ":") + self.expr(d - 1, 0, risky)   # `[a::s]` and `[a: :s]`
        elif self.chance(0.1) and e:
            out += ":"
        return out + "]"

    def expr(self, d, lvl, risky=()):
        """expression whose top node has ladder level >= lvl"""
        if d <= 0:
            return self.primary(0, risky)
        choices = [L for L in (0, 1, 2, 3, 4, 5, 6, 7, 8, 9, 9, 9, 9) if L >= lvl]
        L = self.pick(choices)
        if L in OPS:
            op = self.pick(OPS[L])
            self.use("Binary." + op)
            n = 1 if self.chance(0.75) else 2
            s = self.expr(d - 1, L, risky)
            for _ in range(n):
                s += " %s %s" % (op if _ == 0 else self.pick(OPS[L]), self.expr(d - 1, L + 1, risky))
            return s
        if L == 2:
            self.use("Unary.not")
            return "not " + self.expr(d - 1, 2, risky)
        if L == 4:
            incl = self.chance(0.5)
            self.use("Range.inclusive:%s" % incl)
            return self.expr(d - 1, 5, risky) + ("..=" if incl else "..") + self.expr(d - 1, 5, risky)
        if L == 7:
            self.use("Binary.**")
            return self.expr(d - 1, 8, risky) + " ** " + self.expr(d - 1, 7, risky)
        if L == 8:
            if self.chance(0.5):
                self.use("Unary.neg")
                inner = self.expr(d - 1, 8, risky)
                return "-" + inner
            self.use("Await")
            return "await " + self.expr(d - 1, 8, risky)
        if self.chance(0.15):
            self.use("Paren")
            return "(" + self.expr(d - 1, 0, risky) + ")"
        return self.primary(d, risky)

    # ------------------------------------------------------------------ types
    def ty(self, d, risky=()):
        k = self.r.randrange(9) if d > 0 else self.r.randrange(3)
        if k <= 1:
            self.use("Type.Simple")
            return self.pick(TYPES)
        if k == 2:
            self.use("Type.Simple(None)")
            return "None"
        if k == 3:
            self.use("Type.SelfType")
            return "Self"
        if k in (4, 5):
            self.use("Type.Generic")
            n = self.r.randrange(1, 3)
            return "%s[%s]" % (self.pick(["List", "Option", "Dict", "Result", "Box"]), ", ".join(self.ty(d - 1, risky) for _ in range(n)))
        if k == 6:
            n = self.r.randrange(0, 3)
            self.use("Type.Function%d" % min(n, 2))
            return "(%s) -> %s" % (", ".join(self.ty(d - 1, risky) for _ in range(n)), self.ty(d - 1, risky))
        if k == 7 and "fmt-tuple-type" in risky:
            self.use("Type.Tuple")
            n = self.r.randrange(2, 4)
            return "(%s)" % ", ".join(self.ty(d - 1, risky) for _ in range(n))
        if k == 8 and "fmt-unit-type" in risky:
            self.use("Type.Unit")
            return "()"
        if self.chance(0.3):
            self.use("Type.parenthesised")
            return "(" + self.ty(d - 1, risky) + ")"
        self.use("Type.Simple")
        return self.pick(TYPES)

    # ------------------------------------------------------------------ patterns, match
    def pattern(self, d, risky):
        k = self.r.randrange(8) if d > 0 else self.r.randrange(3)
        if k == 0:
            self.use("Pattern.Wildcard")
            return "_"
        if k == 1:
            self.use("Pattern.Binding")
            return self.name()
        if k == 2:
            self.use("Pattern.Literal")
            return self.pick(["0", "42", '"s"', "true", "false", "None", "2.5", "'q'"] + (["1.0"] if "fmt-float" in risky else []))
        if k in (3, 4):
            n = self.r.randrange(0, 3)
            self.use("Pattern.Constructor%d" % min(n, 1))
            nm = self.pick(CTORS)
            if n == 0:
                return nm + "()" if self.chance(0.5) else "Some(_)"
            return "%s(%s)" % (nm, ", ".join(self.pattern(d - 1, risky) for _ in range(n)))
        if k == 5:
            n = self.r.randrange(0, 3)
            self.use("Pattern.Tuple")
            return "(%s)" % ", ".join(self.pattern(d - 1, risky) for _ in range(n))
        if k == 6 and "fmt-qualified-pattern" in risky:
            self.use("Pattern.qualified")
            return self.pick(["Color.Red", "Shape.Circle(r)", "Maybe.None"])
        self.use("Pattern.Binding")
        return self.name()

    def match(self, d, ind, risky):
        """returns lines (first line has no indentation prefix; the caller prepends its own)"""
        pad = " " * ind
        lines = ["match %s:" % self.expr(1, 0, risky)]
        for _ in range(self.r.randrange(1, 4)):
            p = self.pattern(2, risky)
            style = self.r.randrange(4)
            guard = ""
            if "fmt-guard" in risky and self.chance(0.5):
                self.use("MatchArm.guard")
                guard = " if " + self.expr(1, 0, risky)
                style = style % 2
            if style == 0:
                self.use("arm: case inline")
                lines.append(pad + "    case %s%s: %s" % (p, guard, self.pick(["return " + self.expr(1, 0, risky), self.expr(1, 0, risky), "pass", "return", "..."])))
            elif style == 1:
                self.use("arm: case block")
                lines.append(pad + "    case %s%s:" % (p, guard))
                lines += self.block(d - 1, ind + 8, risky)
            elif style == 2:
                self.use("arm: => expr")
                self.use("MatchBody.Expr")
                lines.append(pad + "    %s => %s" % (p, self.expr(1, 0, risky)))
            else:
                self.use("arm: => block")
                self.use("MatchBody.Block")
                if self.chance(0.5):
                    lines.append(pad + "    %s =>" % p)
                    lines += self.block(d - 1, ind + 8, risky)
                else:
                    lines.append(pad + "    %s => return %s" % (p, self.expr(1, 0, risky)))
        return lines

    # ------------------------------------------------------------------ statements
    def block(self, d, ind, risky, n=None):
        out = []
        for _ in range(n if n is not None else self.r.randrange(1, 4)):
            out += self.stmt(d, ind, risky)
            if self.chance(0.1):
                out.append("")
            if self.chance(0.08):
                out.append(" " * ind + "# a comment")
        return out

    def stmt(self, d, ind, risky):
        pad = " " * ind
        k = self.r.randrange(24) if d > 0 else self.r.randrange(17)
        if self.core:
            k = self.pick([0, 1, 2, 3, 4, 5, 6, 7, 8, 9, 10, 14])
        e = lambda lv=0: self.expr(2 if d > 0 else 1, lv, risky)
        if k == 0:
            self.use("Stmt.Expr")
            return [pad + e()]
        if k in (1, 2):
            b = self.pick(["", "let ", "mut "])
            self.use("Stmt.Assignment.%s" % (b.strip() or "inferred"))
            t = ""
            if self.chance(0.35) and not self.core:
                self.use("Stmt.Assignment.ty")
                t = ": " + self.ty(2, risky)
            return [pad + "%s%s%s = %s" % (b, self.name(), t, e())]
        if k == 3:
            self.use("Stmt.FieldAssignment")
            return [pad + "%s.%s = %s" % (self.pick(["self", self.name(), "self." + self.name(), self.name() + "[0]"]), self.name(), e())]
        if k == 4:
            self.use("Stmt.IndexAssignment")
            return [pad + "%s[%s] = %s" % (self.pick([self.name(), "self." + self.name()]), e(), e())]
        if k == 5:
            op = self.pick(["+=", "-=", "*=", "/=", "//=", "%="])
            self.use("Stmt.Compound" + op)
            return [pad + "%s %s %s" % (self.name(), op, e())]
        if k == 6:
            self.use("Stmt.Return.Some")
            return [pad + "return " + e()]
        if k == 7:
            self.use("Stmt.Return.None")
            return [pad + "return"]
        if k == 8:
            self.use("Stmt.Pass")
            return [pad + ("pass" if self.core else self.pick(["pass", "..."]))]
        if k == 9:
            self.use("Stmt.Break")
            return [pad + "break"]
        if k == 10:
            self.use("Stmt.Continue")
            return [pad + "continue"]
        if k == 11:
            b = self.pick(["", "let ", "mut "])
            self.use("Stmt.TupleUnpack." + (b.strip() or "inferred"))
            return [pad + "%s%s, %s = %s" % (b, self.name(), ", ".join(self.name() for _ in range(self.r.randrange(1, 3))), e())]
        if k == 12:
            self.use("Stmt.TupleAssign")
            return [pad + "%s[%s], %s.%s = %s" % (self.name(), e(), self.name(), self.name(), e())]
        if k == 13:
            b = self.pick(["", "let ", "mut "])
            self.use("Stmt.Chained." + (b.strip() or "inferred"))
            return [pad + "%s%s = %s = %s" % (b, self.name(), " = ".join(self.name() for _ in range(self.r.randrange(1, 3))), e())]
        if k == 14:
            # compound assignment on a field/index target: desugared by the parser
            op = self.pick(["+=", "-=", "*=", "//="])
            self.use("Stmt.desugared-compound")
            rhs = e(7) if "fmt-compound-desugar" not in risky else "%s + %s" % (self.name(), self.name())
            return [pad + "%s %s %s" % (self.pick(["self." + self.name(), self.name() + "[" + self.name() + "]"]), op, rhs)]
        if k == 15:
            self.use("Stmt.Expr(yield)")
            return [pad + self.pick(["yield", "yield " + e()])]
        if k == 16:
            self.use("Stmt.Expr(docstring)")
            return [pad + self.pick(['"""doc in body"""', '"plain string statement"'])]
        if k == 17:
            self.use("Stmt.If")
            out = [pad + "if %s:" % e()] + self.block(d - 1, ind + 4, risky)
            for _ in range(self.r.randrange(0, 3)):
                self.use("Stmt.If.elif")
                out += [pad + "elif %s:" % e()] + self.block(d - 1, ind + 4, risky)
            if self.chance(0.5):
                self.use("Stmt.If.else")
                out += [pad + "else:"] + self.block(d - 1, ind + 4, risky)
            return out
        if k == 18:
            self.use("Stmt.While")
            return [pad + "while %s:" % e()] + self.block(d - 1, ind + 4, risky)
        if k == 19:
            self.use("Stmt.For")
            return [pad + "for %s in %s:" % (self.name(), e())] + self.block(d - 1, ind + 4, risky)
        if k in (20, 21):
            self.use("Expr.Match(statement)")
            m = self.match(d, ind, risky)
            return [pad + m[0]] + m[1:]
        if k == 22:
            self.use("Expr.Match(value)")
            m = self.match(d, ind, risky)
            return [pad + "%s = %s" % (self.name(), m[0])] + m[1:]
        if k == 23 and "fmt-if-expr" in risky:
            self.use("Expr.If")
            out = [pad + "%s = if %s:" % (self.name(), e())] + self.block(0, ind + 4, risky, 1)
            if self.chance(0.5):
                out += [pad + "else:"] + self.block(0, ind + 4, risky, 1)
            return out
        self.use("Stmt.Expr")
        return [pad + e()]

    # ------------------------------------------------------------------ declarations
    def params(self, risky, allow_default=True):
        out = []
        for _ in range(self.r.randrange(0, 4)):
            p = ""
            if "fmt-mut-param" in risky and self.chance(0.5):
                self.use("Param.is_mut")
                p = "mut "
            p += "%s: %s" % (self.name(), self.ty(2, risky))
            if allow_default and self.chance(0.25):
                self.use("Param.default")
                p += " = " + self.expr(1, 0, risky)
            out.append(p)
        return out

    def decorators(self, ind, risky):
        out = []
        for _ in range(self.r.randrange(0, 3) if self.chance(0.4) else 0):
            self.use("Decorator")
            args = []
            for _ in range(self.r.randrange(0, 3)):
                k = self.r.randrange(3)
                if k == 0:
                    self.use("DecoratorArg.Positional")
                    args.append(self.pick(["Debug", "Clone", '"/path"', "3", self.expr(1, 0, risky)]))
                elif k == 1:
                    self.use("DecoratorArg.Named.Expr")
                    args.append("%s=%s" % (self.name(), self.expr(1, 0, risky)))
                elif "fmt-decorator-type-arg" in risky:
                    self.use("DecoratorArg.Named.Type")
                    args.append("%s: %s" % (self.name(), self.ty(1)))
            out.append(" " * ind + "@" + self.pick(["derive", "route", "fixture", "validate"]) + ("(%s)" % ", ".join(args) if args or self.chance(0.2) else ""))
        return out

    def method(self, ind, risky, abstract_ok):
        pad = " " * ind
        out = self.decorators(ind, risky)
        recv = self.pick(["self", "mut self", None])
        self.use("Method.receiver:%s" % recv)
        ps = ([recv] if recv else []) + self.params(risky)
        a = ""
        if self.chance(0.2):
            self.use("Method.is_async")
            a = "async "
        head = pad + "%sdef %s(%s) -> %s" % (a, self.name(), ", ".join(ps), self.ty(2, risky))
        if abstract_ok and self.chance(0.4):
            self.use("Method.body:None")
            return out + [head + (": ..." if self.chance(0.6) else "")]
        self.use("Method.body:Some")
        return out + [head + ":"] + self.block(2, ind + 4, risky)

    def type_params(self):
        if self.chance(0.3):
            self.use("type_params")
            return "[%s]" % ", ".join(self.pick(["T", "E", "K", "V"]) for _ in range(self.r.randrange(1, 3)))
        return ""

    def fields(self, ind, risky):
        out = []
        for _ in range(self.r.randrange(0, 4)):
            f = " " * ind
            if self.chance(0.2):
                self.use("Field.pub")
                f += "pub "
            f += "%s: %s" % (self.name(), self.ty(2, risky))
            if self.chance(0.3):
                self.use("Field.default")
                f += " = " + self.expr(1, 0, risky)
            out.append(f)
        return out

    def decl(self, kind=None, risky=()):
        risky = tuple(risky) + tuple(FIXED)      # repaired classes are ordinary constructs now
        k = kind or self.pick(["import", "const", "model", "class", "trait", "newtype", "enum", "function", "function", "function", "docstring"])
        pub = ""
        if k not in ("import", "docstring") and self.chance(0.3):
            self.use("Visibility.Public")
            pub = "pub "
        if k == "import":
            j = self.r.randrange(9)
            seg = lambda: self.pick(["models", "utils", "db", "api", "helpers"])
            sep = lambda: self.pick(["::", "."])
            alias = ""
            if self.chance(0.3):
                self.use("Import.alias")
                alias = " as " + self.name()
            items = ", ".join(self.pick(["Foo", "bar", "Baz"]) + (" as " + self.name() if self.chance(0.3) else "") for _ in range(self.r.randrange(1, 4)))
            if j == 0:
                self.use("ImportKind.Module")
                return ["import %s%s%s" % (seg(), "".join(sep() + seg() for _ in range(self.r.randrange(0, 3))), alias)]
            if j == 1:
                self.use("ImportKind.Module(super)")
                return ["import %s%s%s" % ("super::" * self.r.randrange(1, 3), seg(), alias)]
            if j == 2:
                self.use("ImportKind.Module(crate)")
                return ["import crate%s%s%s" % (sep(), seg(), alias)]
            if j == 3:
                self.use("ImportKind.From")
                return ["from %s%s import %s" % (seg(), "".join(sep() + seg() for _ in range(self.r.randrange(0, 2))), items)]
            if j == 4:
                self.use("ImportKind.From(dots)")
                return ["from %s%s import %s" % (self.pick(["..", "super::", "super::super::", "super."]), seg(), items)]
            if j == 5:
                self.use("ImportKind.Python")
                return ['import python "%s"%s' % (self.pick(["numpy", "os.path"]), alias)]
            if j == 6:
                self.use("ImportKind.RustCrate")
                return ["import rust::%s%s%s" % (self.pick(["serde_json", "std", "tokio"]), "".join("::" + self.pick(["Value", "time", "Instant"]) for _ in range(self.r.randrange(0, 3))), alias)]
            if j == 7:
                self.use("ImportKind.RustFrom")
                return ["from rust::%s%s import %s" % (self.pick(["std", "chrono"]), "".join("::" + self.pick(["collections", "time"]) for _ in range(self.r.randrange(0, 2))), items)]
            self.use("ImportKind.From(crate)")
            return ["from crate::%s import %s" % (seg(), items)]
        if k == "const":
            self.use("Const")
            t = ""
            if self.chance(0.6):
                self.use("Const.ty")
                t = ": " + self.ty(1, risky)
            return ["%sconst %s%s = %s" % (pub, self.pick(["MAX", "NAME", "LIMIT"]), t, self.expr(2, 0, risky))]
        if k == "docstring":
            j = self.r.randrange(4)
            self.use("Docstring%d" % j)
            if "fmt-docstring-escape" in risky and self.chance(0.4):
                return [self.pick(['"""a \\\\ b"""', '"ends with quote\\""', '"""a\\\\nb"""', '"say \\"\\"\\"triple\\"\\"\\" inside"'])]
            return [['"""Module doc."""'], ['"""', "Multi-line", "", "  indented text", '"""'], ['""""""'], ['"  padded  "']][j]
        if k in ("model", "class"):
            self.use(k)
            out = self.decorators(0, risky)
            head = "%s%s %s%s" % (pub, k, self.pick(["User", "Point", "Config"]), self.type_params())
            if k == "class" and self.chance(0.4):
                self.use("Class.extends")
                head += " extends Base"
            if self.chance(0.4):
                self.use(k + ".traits")
                head += " with " + ", ".join(self.pick(["Debug", "Clone", "Eq"]) for _ in range(self.r.randrange(1, 3)))
            body = self.fields(4, risky)
            for _ in range(self.r.randrange(0, 3)):
                if body and self.chance(0.7):
                    body.append("")
                body += self.method(4, risky, False)
            if self.chance(0.15):
                body += self.fields(4, risky)
            if not body:
                # `model X:` + `pass` does not parse (fields_and_methods wants an identifier): the printer's
                # `pass` arm for models/classes is unreachable from source
                body = ["    %s: int" % self.name()]
            return out + [head + ":"] + body
        if k == "trait":
            self.use("trait")
            out = self.decorators(0, risky)
            head = "%strait %s%s:" % (pub, self.pick(["Shape", "Show"]), self.type_params())
            body = []
            for _ in range(self.r.randrange(0, 3)):
                body += self.method(4, risky, True)
                if self.chance(0.5):
                    body.append("")
            if not body:
                self.use("trait.empty")
                body = ["    pass"]
            return out + [head] + body
        if k == "newtype":
            self.use("newtype")
            nm = self.pick(["UserId", "Email"])
            head = "%snewtype %s = %s" % (pub, nm, self.ty(1, risky)) if self.chance(0.5) else "%stype %s = newtype %s" % (pub, nm, self.ty(1, risky))
            if "fmt-newtype-methods" in risky and self.chance(0.5):
                self.use("newtype.methods")
                return [head + ":"] + self.method(4, (), False)
            return [head]
        if k == "enum":
            self.use("enum")
            out = ["%senum %s%s:" % (pub, self.pick(["Color", "Shape"]), self.type_params())]
            for _ in range(self.r.randrange(1, 4)):
                v = "    " + self.pick(["Red", "Circle", "Quit", "None", "Move"])
                if self.chance(0.5):
                    self.use("Variant.fields")
                    v += "(%s)" % ", ".join(self.ty(1, risky) for _ in range(self.r.randrange(1, 3)))
                out.append(v)
            return out
        # function
        self.use("function")
        out = self.decorators(0, risky)
        a = ""
        if self.chance(0.2):
            self.use("Function.is_async")
            a = "async "
        tp = ""
        if "fmt-type-params" in risky and self.chance(0.4):
            self.use("Function.type_params")
            tp = "[%s]" % ", ".join(self.pick(["T", "E"]) for _ in range(self.r.randrange(1, 3)))
        head = "%s%sdef %s%s(%s) -> %s:" % (pub, a, self.pick(["main", "run", "helper", "compute"]), tp, ", ".join(self.params(risky)), self.ty(2, risky))
        return out + [head] + self.block(3, 4, risky)


RISKY = ["fmt-compound-desugar"]


def program(rng, n_decls, p_risky=0.25):
    """One source file: list of (lines) declarations, each with at most one risky class enabled."""
    g = Gen(rng)
    parts = []
    layout = rng.randrange(3)
    for i in range(n_decls):
        risky = (rng.choice(RISKY),) if rng.random() < p_risky else ()
        kind = None
        if risky and risky[0] == "fmt-newtype-methods":
            kind = "newtype"
        elif risky and risky[0] == "fmt-docstring-escape":
            kind = "docstring"
        elif risky and risky[0] in ("fmt-type-params", "fmt-mut-param", "fmt-if-expr", "fmt-compound-desugar", "fmt-guard", "fmt-qualified-pattern", "fmt-closure"):
            kind = "function"
        lines = g.decl(kind, risky)
        if lines and lines[0].startswith('"') and i > 0 and False:
            pass
        parts.append("\n".join(lines))
    sep = ["\n", "\n\n", "\n\n\n"][layout]
    src = sep.join(parts) + ("\n" if rng.random() < 0.9 else "")
    if rng.random() < 0.1:
        src = "# leading comment\n" + src
    return src, g.used

# ------------------------------------------------------------------------------------------ findings
# Proposed known_findings.json entries (the lead merges them); until then they are loaded from build/kf-C08.json.
FIXED = {
    "fmt-float": "f2b27fc",
    "fmt-mut-param": "5afdbdb",
    "fmt-type-params": "6b2f182",
    "fmt-unit-type": "25f33a1",
    "fmt-tuple-type": "c495c4d",
    "fmt-qualified-pattern": "a950836",
    "fmt-empty-constructor-pattern": "9f7b1da",
    "fmt-decorator-type-arg": "6a5bc8c",
    "fmt-newtype-methods": "c4e878d",
    "fmt-bytes-escape": "543f05e",
    "fmt-arm-trailing-space": "1dd50aa",
    "fmt-double-newline": "53275b0",
    "fmt-closure": "09e97de",
    "fmt-docstring-escape": "34cdd80",
    "fmt-guard": "581b86c",
    "fmt-fstring-escape": "d511c20",
    "fmt-if-expr": "61b9fa1",
    "fmt-float-nonfinite": "debec2a",   # the lexer now rejects a float literal that overflows f64 (C11's repair): no parsed program contains one
}   # finding id -> `fix:` commit


def _kf(prop, fid, cls, witness, summary, why, fix):
    e = {"property": prop, "id": fid, "status": "known", "class": cls, "witness": witness, "summary": summary,
         "why_not_fixed": why, "small_safe_fix": fix}
    if fid in FIXED:
        e.update({"status": "fixed", "commit": FIXED[fid], "fixed": "fixed: property=%s %s %s" % (prop, FIXED[fid], summary)})
        del e["why_not_fixed"]
    return e


F = "def f() -> None:\n"
PROPOSED_C08 = [
    _kf("C08", "fmt-float", "Known_C08_float_integral (Fmt/Ast.v has_integral_float): a float literal (expression or pattern) whose Rust Display text contains no '.'",
        "const X: float = 1.0\n", "1.0 is printed `1`, 1e10 `10000000000`: the literal re-parses as an int (non-finite / >i64 values do not re-lex)",
        "fix candidate, not applied in this round", "yes: Literal::Float(f) => write(&format!(\"{:?}\", f)) (Debug keeps `.0` / exponent)"),
    _kf("C08", "fmt-float-nonfinite", "a float literal whose value is not finite (e.g. 1e999, which lexes to infinity)",
        "const X: float = 1e999\n", "an overflowing float literal is printed `inf`, which re-parses as an identifier",
        "not repaired: needs a decision on how to spell such a literal; the literal itself is almost certainly a mistake in the source", "no"),
    _kf("C08", "fmt-mut-param", "Param.is_mut = true on a function/method parameter",
        "def f(mut a: int) -> int:\n    return a\n", "`mut` on parameters is dropped by format_param",
        "fix candidate", "yes: `if param.is_mut { self.writer.write(\"mut \") }` at the top of format_param"),
    _kf("C08", "fmt-type-params", "FunctionDecl.type_params non-empty",
        "def f[T](a: T) -> T:\n    return a\n", "`def f[T]` loses its type parameters (format_function never calls format_type_params)",
        "fix candidate", "yes: one line `self.format_type_params(&func.type_params);` after the name"),
    _kf("C08", "fmt-decorator-type-arg", "DecoratorArg::Named(_, DecoratorArgValue::Type(_)) in a decorator of the declaration or of one of its methods",
        "@route(body: List[int])\ndef f() -> None:\n    pass\n", "`name: Type` is printed `name=Type`: re-parses as an expression argument (Index/Ident) or not at all (function types, two type arguments)",
        "fix candidate", "yes: write \": \" instead of \"=\" in the DecoratorArgValue::Type arm"),
    _kf("C08", "fmt-tuple-type", "Type::Tuple anywhere in the declaration",
        "def f() -> (int, str):\n    return (1, \"a\")\n", "`(int, str)` is printed `Tuple[int, str]`, which re-parses as Type::Generic(\"Tuple\", ..)",
        "fix candidate", "yes: print `(` types `)` (trailing comma for one element)"),
    _kf("C08", "fmt-unit-type", "Type::Unit anywhere in the declaration",
        "def f() -> ():\n    pass\n", "`()` is printed `None`, which re-parses as Type::Simple(\"None\")",
        "fix candidate", "yes: Type::Unit => write(\"()\")"),
    _kf("C08", "fmt-closure", "Expr::Closure with at least one parameter",
        F + "    g = (x) => x + 1\n", "closure parameters are printed `(x: _)`; the output does not parse",
        "fix candidate", "yes: print only the names in the Closure arm"),
    _kf("C08", "fmt-if-expr", "any Expr::If",
        F + "    x = if a:\n        1\n    else:\n        2\n", "`if` expressions are printed as `cond if ` (bodies lost, trailing blank, output does not parse)",
        "needs a real block printer for IfExpr (about 15 lines), not a one-line change", "no"),
    _kf("C08", "fmt-qualified-pattern", "Pattern::Constructor whose name contains \"::\" (source spelling Type.Variant)",
        "def f(c: Color) -> int:\n    match c:\n        Color.Red => 1\n        _ => 0\n", "qualified patterns are printed `Color::Red`; the parser only accepts `Color.Red`",
        "fix candidate", "yes: write(&name.replace(\"::\", \".\")) in format_pattern"),
    _kf("C08", "fmt-guard", "MatchArm.guard is Some",
        "def f(n: int) -> int:\n    match n:\n        case k if k > 0: return 1\n        _ => 0\n", "guards are printed `p if g => ...`; only `case p if g:` parses",
        "small but not one line (print guarded arms in the `case` form)", "no (5-10 lines)"),
    _kf("C08", "fmt-newtype-methods", "NewtypeDecl.methods non-empty",
        "type UserId = newtype int:\n    def get(self) -> int:\n        return 1\n", "the `:` that opens a newtype's method block is not printed; the output does not parse",
        "fix candidate", "yes: write \":\" before the newline when methods is non-empty"),
    _kf("C08", "fmt-fstring-escape", "an f-string with a literal part containing one of \" \\ { } LF CR, or with an expression part containing a string/bytes/f-string literal",
        F + "    x = f\"a\\\"b{y}\"\n", "f-string literal parts are printed raw (no escaping, `{{` not re-doubled) and nested string literals are printed with the same quote",
        "partly fixable (escape literal parts); nested quotes need quote switching", "partial"),
    _kf("C08", "fmt-bytes-escape", "a bytes literal containing byte 0x22 or 0x5c",
        "const B: bytes = b\"a\\\"b\"\n", "`\"` and `\\` inside byte strings are printed raw",
        "fix candidate", "yes: exclude b'\"' and b'\\\\' from the printable range in the Bytes arm"),
    _kf("C08", "fmt-docstring-escape", "a module docstring whose text contains a backslash or '\"\"\"', or starts/ends with '\"'",
        "\"\"\"a\\\\nb\"\"\"\n", "module docstrings are printed raw between triple quotes (escapes are re-interpreted / the quotes merge)",
        "fix candidate", "small: escape backslashes and quotes in format_docstring"),
    _kf("C08", "fmt-compound-desugar", "a Field/IndexAssignment synthesised by the parser from `t op= rhs` (value = Binary(t, op, rhs) sharing the target's span) whose rhs binds no tighter than op",
        F + "    a.b *= 1 + 2\n", "`a.b *= 1 + 2` is parsed into a.b = a.b * (1 + 2) without a Paren node and printed `a.b = a.b * 1 + 2`",
        "root cause is the parser's desugaring (the AST is not ladder-well-formed); a parser change alters emitted code pinned by snapshots", "no"),
    _kf("C08", "fmt-empty-constructor-pattern", "Pattern::Constructor(name, []) with an unqualified name (source spelling `Foo()`)",
        "def f(c: int) -> int:\n    match c:\n        Foo() => 1\n        _ => 0\n", "`Foo()` is printed `Foo`, which re-parses as a binding pattern",
        "fix candidate", "yes: always print the parentheses for unqualified constructor patterns"),
    _kf("C08", "fmt-match-operand", "an Expr::Match that is the left operand of a binary/range operator or the base of a postfix form (the parser lets the line after the arms continue the expression)",
        F + "    match a:\n        b => 1\n    -1\n", "the continuation is printed after the arms at line start with indentation + ` - 1`: inconsistent indentation, the output does not lex",
        "root cause is the parser accepting the continuation", "no"),
]
PROPOSED_C09 = [
    _kf("C09", "fmt-double-newline", "every output: it ends in 2 + t newlines, t = nesting depth of `match` expressions that end the last declaration",
        "def f() -> None:\n    pass\n", "format_program appends a newline after a last declaration that already ended its line: every output ends in \"\\n\\n\"",
        "fix candidate", "yes: drop the final self.writer.newline() in format_program (and the statement newline after a match)"),
    _kf("C09", "fmt-arm-trailing-space", "one line ending in \"=> \" per match arm whose body is a block",
        "def f(n: int) -> int:\n    match n:\n        case 0:\n            return 1\n        _ => 0\n", "block-bodied match arms are printed `pattern => ` + newline: trailing whitespace",
        "fix candidate", "yes: write \" =>\" and add the space only before an expression body"),
    _kf("C09", "fmt-not-reparsable", "the file contains a construct of one of C08's listed open classes whose printed form does not re-parse or re-parses differently (fmt-compound-desugar, fmt-match-operand)",
        "def f() -> None:\n    match a:\n        b => 1\n    -1\n", "fmt(fmt(x)) is an error / differs and `--check` after `fmt` fails exactly when fmt(x) is outside the parser's language (inherits C08's open findings, all rooted in the parser)",
        "see the C08 entries", "see the C08 entries"),
]


def load_findings(chk, prop, proposed):
    """Ids of the listed known findings of this property (known_findings.json)."""
    return {f["id"] for f in chk.findings if f.get("status") == "known"}


# ------------------------------------------------------------------------------------------ literal content sweep
def literal_sweep(tier="quick"):
    """Deterministic sweep of literal CONTENT: bytes (all 256 values, interesting pairs, every escape, both source
    quote styles), strings, f-string literal parts, docstrings; expression and pattern position.
    -> list of (origin, source); every const / function is its own declaration, so each item is judged alone."""
    out = []
    decls = []

    def flush(tag):
        nonlocal decls
        for i in range(0, len(decls), 40):
            out.append(("sweep:%s:%d" % (tag, i // 40), "\n".join(decls[i:i + 40]) + "\n"))
        decls = []

    def bspell(v, q):
        """source spellings of byte v inside a byte string opened with quote q"""
        sp = ["\\x%02x" % v]
        if 32 <= v < 127:
            c = chr(v)
            if c == "\\":
                sp.append("\\\\")
            elif c == q:
                sp.append("\\" + c)
            else:
                sp.append(c)
        sp += {10: ["\\n"], 9: ["\\t"], 13: ["\\r"], 0: ["\\0"]}.get(v, [])
        return sp

    n = [0]

    def const_b(body, q):
        n[0] += 1
        decls.append("const B%d: bytes = b%s%s%s" % (n[0], q, body, q))

    def pat_b(body, q):
        n[0] += 1
        decls.append("def p%d(v: bytes) -> int:\n    match v:\n        b%s%s%s => 1\n        _ => 0" % (n[0], q, body, q))
    # every byte value alone, every spelling, both quotes
    for v in range(256):
        for q in ('"', "'"):
            for sp in bspell(v, q):
                const_b(sp, q)
    flush("bytes1")
    INTERESTING = [0x27, 0x22, 0x5C, 0x0A, 0x09, 0x00, 0x7F, 0x80, 0xFF, 0x61, 0x78, 0x6E]
    for a in INTERESTING:
        for b in INTERESTING:
            for q in ('"', "'"):
                const_b(bspell(a, q)[-1 if a in (0x27, 0x22, 0x5C) else 0] + bspell(b, q)[-1 if b in (0x27, 0x22, 0x5C) else 0], q)
            const_b("\\x%02x\\x%02x" % (a, b), '"')
    # escapes that are NOT escapes for the opening quote (kept as two bytes), and words
    for body, q in (("it's", '"'), ("don\\'t", "'"), ("\\'", '"'), ('\\"', "'"), ("a\\'b\\\\'c", '"'), ("\\x27", '"'), ("\\x27", "'"), ("say \\\"hi\\\"", '"'),
                    ('say "hi"', "'"), ("\\q\\z", '"'), ("", '"'), ("", "'"), ("\\\\'", '"'), ("'\\\\", '"'), ("''", '"'), ("\\'\\'", "'")):
        const_b(body, q)
        pat_b(body, q)
    for v in (0x27, 0x22, 0x5C, 0x00, 0xFF, 0x41):
        for q in ('"', "'"):
            pat_b(bspell(v, q)[-1 if v in (0x27, 0x22, 0x5C) else 0], q)
    flush("bytes2")
    # ---- strings
    PIECES = ["'", '"', "\\\\", "{", "}", "é", "日本", "\\n", "\\t", "\\r", "\\0", "\\x41", "\\q", " ", "a", "{x}", "#", "\\\\n"]

    def sspell(piece, q):
        if piece == q:
            return "\\" + piece
        return piece

    def const_s(body, q):
        n[0] += 1
        decls.append("const S%d: str = %s%s%s" % (n[0], q, body, q))

    def pat_s(body, q):
        n[0] += 1
        decls.append("def q%d(v: str) -> int:\n    match v:\n        %s%s%s => 1\n        case %s%s%s: return 2\n        _ => 0" % (n[0], q, body, q, q, body, q))
    for a in PIECES:
        for q in ('"', "'"):
            const_s(sspell(a, q), q)
            pat_s(sspell(a, q), q)
            for b in PIECES:
                const_s(sspell(a, q) + sspell(b, q), q)
    for body, q in (("it's", '"'), ("it\\'s", "'"), ("it\\'s", '"'), ('say \\"hi\\"', '"'), ('say \\"hi\\"', "'"), ("", '"'), ("", "'")):
        const_s(body, q)
        pat_s(body, q)
        n[0] += 1
        decls.append("def c%d() -> None:\n    f(%s%s%s, k=%s%s%s)\n    d = {%s%s%s: [%s%s%s]}" % ((n[0],) + (q, body, q) * 4))
    n[0] += 1
    decls.append('def t%d() -> None:\n    x = """triple \'single\' and "double" inside"""\n    y = \'\'\'other "triple" it\'s\'\'\'' % n[0])
    flush("str")
    # ---- f-strings (literal parts; `" \\ { } LF CR` are the open class fmt-fstring-escape)
    FP = ["'", "é", " ", "a", "#", "\\t", "{{", "}}", '\\"', "\\\\", "\\n", "it's", "日本"]
    for a in FP:
        for q in ('"', "'"):
            for tail in ("", "{x}", "{x.y}b"):
                n[0] += 1
                body = ("\\'" if (a == "'" and q == "'") else ("\\'s".join("it's".split("'s")) if (a == "it's" and q == "'") else a))
                decls.append("def g%d(x: int) -> str:\n    return f%s%s%s%s" % (n[0], q, body, tail, q))
    n[0] += 1
    decls.append("def g%d(x: int) -> str:\n    return f'say \"{x}\"'" % n[0])
    flush("fstr")
    # ---- module docstrings (a docstring is its own declaration; backslash / `\"\"\"` / edge quotes: open class)
    for doc in ('"""it\'s a doc"""', '"""say "hi" there"""', '"""café 日本"""', "'single quoted doc'", '"plain \'doc\'"', '"""a\\\\nb"""', '"""tab\\there"""',
                '"""\nmulti\n  it\'s "quoted"\n"""', '"""braces {x} # not a comment"""', "'''triple single \"x\"'''", '"ends with quote\\""'):
        out.append(("sweep:doc:%d" % len(out), doc + "\nconst AFTER: int = 1\n"))
    # docstring EDGE lattice (added after seed C09-4): what stands directly after the opening and directly before the closing
    # quotes — nothing, a blank, an escaped quote, a quote followed by a blank, a line break — around one-line and multi-line text
    starts = ["", " ", '\\"', '\\" ', "\n"]
    ends = ["", " ", '\\"', '" ', '\\" ', ' \\"', "\n", '\\"\n', '" \n']
    for st in starts:
        for body in ("a", 'x "q" y', "l1\nl2"):
            for en in ends:
                out.append(("sweep:docedge:%d" % len(out), '"""' + st + body + en + '"""' + "\nconst AFTER: int = 1\n"))
    return out


# ------------------------------------------------------------------------------------------ scale stress
SCALE_N = [0, 1, 2, 79, 80, 81, 100, 200, 300, 1000]


def nest_blocks(depth, kinds, leaf="x = x + 1"):
    """`depth` nested blocks inside `def f`: kinds cycles through if/for/while/match/elif/else headers"""
    lines = ["def f(x: int, xs: List[int]) -> int:"]
    ind = 4
    for i in range(depth):
        k = kinds[i % len(kinds)]
        pad = " " * ind
        if k == "if":
            lines.append(pad + "if x > %d:" % i)
        elif k == "for":
            lines.append(pad + "for v%d in xs:" % i)
        elif k == "while":
            lines.append(pad + "while x < %d:" % i)
        elif k == "else":
            lines += [pad + "if x == %d:" % i, pad + "    pass", pad + "else:"]
        elif k == "elif":
            lines += [pad + "if x == %d:" % i, pad + "    pass", pad + "elif x > 0:"]
        elif k == "match":
            lines += [pad + "match x:", pad + "    case %d:" % i]
            ind += 4
        ind += 4
    lines.append(" " * ind + leaf)
    lines.append("    return x")
    return "\n".join(lines) + "\n"


def scale_sweep(tier="quick"):
    """-> list of (origin, source, cfg).  Every dimension is pushed past plausible hard-coded bounds: powers of two
    (and neighbours) for depths and widths, 0/1/2/100/300 for counts, 10^4 for sizes."""
    out = []
    D = {}
    # ---- block nesting depth x indent width (header/body columns: depth*width crosses 16, 32, 64, 128, 256, 512, 800)
    depths = list(range(1, 41)) + [63, 64, 65, 100]
    mixes = [["if"], ["for", "if", "while"], ["match"], ["if", "match", "else", "for", "elif", "while"]]
    for d in depths:
        for mi, mix in enumerate(mixes if (d <= 20 or d in (32, 33, 64, 65, 100)) else mixes[1:2]):
            if "match" in mix and d > 40:
                continue      # a match level costs two indentation levels: depth 40 already reaches level 80
            for w in ((1, 2, 4, 8) if (mi == 1 or d in (8, 9, 16, 17, 32, 33, 64, 65)) else (4,)):
                out.append(("scale:nest:%d:%d:w%d" % (d, mi, w), nest_blocks(d, mix), {"indent_width": w}))
    # nested classes/methods: def inside class, match inside method
    out.append(("scale:nest:class", "class C:\n    x: int\n\n    def m(self) -> int:\n" + "".join(" " * (8 + 4 * i) + "if self.x > %d:\n" % i for i in range(30)) + " " * 128 + "return 1\n        return 0\n", {}))
    # ---- expression nesting depth
    for n in (1, 2, 16, 17, 63, 64, 65, 128, 200):
        e = {
            "paren": "(" * n + "x" + ")" * n,
            "call": "f(" * n + "x" + ")" * n,
            "index": "a[" * n + "0" + "]" * n,
            "neg": "-" * 1 + "(-" * (n - 1) + "x" + ")" * (n - 1),
            "not": "not " * n + "x",
            "list": "[" * n + "]" * n,
            "tuple": "(" * n + "1, 2" + ")" * n,
            "method": "x" + ".m()" * n,
            "field": "x" + ".f" * n,
            "pow": " ** ".join(["x"] * (n + 1)),
            "dict": "{1: " * n + "2" + "}" * n,
            "await": "await " * n + "x",
            "try": "x" + "?" * n,
        }
        for k, v in e.items():
            out.append(("scale:expr:%s:%d" % (k, n), "def f() -> None:\n    y = %s\n" % v, {}))
    # ---- line length / element counts
    for n in SCALE_N[1:]:
        items = ", ".join("a%d" % i for i in range(n))
        body = ["y = " + " + ".join("a%d" % i for i in range(n)),
                "y = " + " and ".join("a%d" % i for i in range(n)),
                "y = f(%s)" % items, "y = [%s]" % items, "y = (%s,)" % items, "y = {%s}" % items,
                "y = {%s}" % ", ".join("%d: a%d" % (i, i) for i in range(n)),
                "y = f(%s)" % ", ".join("k%d=%d" % (i, i) for i in range(n)),
                "%s = 1" % " = ".join("a%d" % i for i in range(n)) if n > 1 else "a0 = 1",
                "%s = t" % ", ".join("a%d" % i for i in range(n)) if n > 1 else "a0 = t"]
        for cfgv in ({}, {"line_length": 20}, {"line_length": 1000, "indent_width": 2}):
            out.append(("scale:line:%d:%s" % (n, cfgv.get("line_length", 120)), "def f() -> None:\n" + "".join("    %s\n" % b for b in body), cfgv))
    # ---- identifier length
    for n in (1, 2, 63, 64, 65, 255, 256, 257, 1000):
        nm = "a" * n
        out.append(("scale:ident:%d" % n, "import %s::%s as %s\nconst %s: %s = 1\ndef %s(%s: %s) -> %s:\n    %s = %s.%s(%s=%s)\n    return %s\nmodel %s[%s] with %s:\n    %s: %s\nenum %s:\n    %s\n    %s(%s)\n"
                    % ((nm,) * 3 + (nm.upper(), nm) + (nm,) * 4 + (nm,) * 5 + (nm,) + (nm.upper(),) + (nm,) * 4 + (nm,) + (nm, nm + "b", nm)), {}))
    # ---- counts: parameters, fields, arms, decorators, imports, variants, methods, elif branches, statements, type args
    for n in (0, 1, 2, 100, 300):
        rng = range(n)
        src = "".join("import m%d\n" % i for i in rng)
        src += "from mod import %s\n" % ", ".join("n%d as q%d" % (i, i) for i in rng) if n else ""
        src += "import %sx\n" % ("super::" * n)
        src += "".join("@dec%d(%d)\n" % (i, i) for i in rng) + "def f(%s) -> None:\n    pass\n" % ", ".join("p%d: int = %d" % (i, i) for i in rng)
        src += "def g[%s](x: Dict[%s]) -> (%s) -> int:\n    pass\n" % (", ".join("T%d" % i for i in range(max(n, 1))), ", ".join("T%d" % i for i in range(max(n, 1))), ", ".join("int" for _ in rng))
        src += "model M:\n" + ("".join("    f%d: int = %d\n" % (i, i) for i in rng) or "    only: int\n") + "".join("\n    def m%d(self) -> int:\n        return %d\n" % (i, i) for i in rng)
        src += "enum E:\n" + ("".join("    V%d(%s)\n" % (i, ", ".join(["int"] * (i % 4 + 1))) for i in rng) or "    V\n")
        src += "trait T:\n" + ("".join("    def t%d(self) -> int: ...\n" % i for i in rng) or "    pass\n")
        src += "def h(x: int) -> int:\n    match x:\n" + ("".join("        %d => %d\n" % (i, i) for i in rng) or "") + "        _ => 0\n"
        src += "def k(x: int) -> int:\n    if x == -1:\n        return 0\n" + "".join("    elif x == %d:\n        return %d\n" % (i, i) for i in rng) + "    else:\n        return 1\n"
        src += "class C extends B with %s:\n    x: int\n" % ", ".join("T%d" % i for i in range(max(n, 1)))
        # methods only (blank-line rule `has_fields || !first_method`), tuple types/values of every size (`len() == 1` comma rule)
        src += "class OnlyMethods:\n" + ("".join("    def m%d(self) -> int:\n        return %d\n\n" % (i, i) for i in rng) or "    x: int\n")
        if n:
            tyl = ", ".join(["int"] * n) + ("," if n == 1 else "")      # the type parser takes a trailing comma only for one element
            src += "def tt(a: (%s)) -> (%s):\n    return (%s,)\n" % (tyl, tyl, ", ".join(["1"] * n))
        out.append(("scale:count:%d" % n, src, {}))
    # ---- sizes: long literals, many lines, blank-line runs
    out.append(("scale:str:10000", 'const S: str = "%s"\nconst B: bytes = b"%s"\ndef f() -> str:\n    return f"%s{x}%s"\n' % ("s" * 10000, "b" * 10000, "f" * 5000, "g" * 5000), {}))
    out.append(("scale:doc:10000", '"""\n' + "".join("line %d of a long docstring\n" % i for i in range(3000)) + '"""\nconst A: int = 1\n', {}))
    out.append(("scale:lines:10000", "def f() -> None:\n" + "".join("    x%d = %d\n" % (i, i) for i in range(10000)), {}))
    out.append(("scale:decls:2000", "".join("const C%d: int = %d\n" % (i, i) for i in range(2000)), {}))
    for n in (1, 2, 3, 50, 300):
        out.append(("scale:blank:%d" % n, "const A: int = 1" + "\n" * n + "def f() -> None:\n    x = 1" + "\n" * n + "    y = 2" + "\n" * n + "def g() -> None:\n    pass" + "\n" * n, {}))
        out.append(("scale:comment:%d" % n, "# c\n" * n + "def f() -> None:\n" + "    # c\n" * n + "    x = 1\n" + "# c\n" * n, {}))
    # ---- a declaration that ends in n nested trailing `match` statements (the end-of-file trim loop), last in the file and not
    for n in (1, 2, 3, 10):
        body = "".join(" " * (4 + 8 * i) + "match x:\n" + " " * (8 + 8 * i) + "case %d:\n" % i for i in range(n)) + " " * (4 + 8 * n) + "pass\n"
        out.append(("scale:trail:%d" % n, "def f(x: int) -> None:\n" + body, {}))
        out.append(("scale:trail2:%d" % n, "def f(x: int) -> None:\n" + body + "const AFTER: int = 1\n", {}))
    # ---- numbers around the printers' thresholds (i64 bounds, Debug's exponent switch at 1e16 / 1e-5)
    out.append(("scale:num", "".join("const N%d: float = %s\n" % (i, v) for i, v in enumerate(
        ["9223372036854775807", "0", "1e15", "9999999999999998.0", "1e16", "1.5e16", "1e17", "1e300", "1.7976931348623157e308", "0.0001", "0.00001", "0.000001",
         "1e-5", "1e-7", "5e-324", "123456789012345678.0", "0.1", "1_000_000", "1_0.5_0"])), {}))
    return out


# ------------------------------------------------------------------------------------------ corpus
def corpus_files():
    out = []
    for d in ("examples", "stdlib", "tests", "benchmarks", "docs", "crates", "src"):
        for r, dirs, fs in os.walk(os.path.join(vlib.REPO, d)):
            dirs[:] = [x for x in dirs if x != "target"]
            for f in fs:
                if f.endswith(".incn"):
                    out.append(os.path.join(r, f))
    cdir = os.path.join(vlib.VERIF, "corpus", "C08")
    if os.path.isdir(cdir):
        out += [os.path.join(cdir, f) for f in sorted(os.listdir(cdir)) if f.endswith(".incn")]
    return sorted(out)


def run_decls(binary, sources, text=False, cfgs=None):
    """cfgs: optional list of dicts with indent_width / line_length (FormatConfig of format_source_with_config)"""
    cfgs = cfgs or [{}] * len(sources)
    inp = "".join(json.dumps(dict({"op": "decls", "src": s, "text": text}, **c)) + "\n" for s, c in zip(sources, cfgs))
    out = vlib.run_harness(binary, ["run", "c08"], inp, timeout=1800)
    res = [json.loads(l) for l in out.split("\n") if l]
    if len(res) != len(sources):
        raise vlib.Infra("c08 harness returned %d lines for %d sources" % (len(res), len(sources)))
    return res


def gather(chk, binary):
    """corpus + generated programs -> list of (origin, source, result)"""
    items = []
    for p in corpus_files():
        try:
            items.append(("file:" + os.path.relpath(p, vlib.REPO if p.startswith(vlib.REPO) else vlib.VERIF), open(p).read()))
        except (OSError, UnicodeDecodeError):
            pass
    n_gen = 500 if chk.tier == "quick" else 6000
    used = set()
    for i in range(n_gen):
        src, u = program(chk.rng, chk.rng.randrange(1, 6))
        used |= u
        items.append(("gen:%d" % i, src))
    # every risky class alone, several times (so each listed class is exercised in every run)
    for r in RISKY:
        for j in range(6 if chk.tier == "quick" else 40):
            g = Gen(chk.rng)
            kind = {"fmt-docstring-escape": "docstring"}.get(r, "function")
            items.append(("risky:%s:%d" % (r, j), "\n".join(g.decl(kind, (r,))) + "\n"))
            used |= g.used
    items += literal_sweep(chk.tier)
    # the witness of every repaired finding stays in the run as a regression input
    items += [("regress:%s" % f["id"], f["witness"]) for f in PROPOSED_C08 + PROPOSED_C09 if f["status"] == "fixed"]
    cfgs = [{}] * len(items)
    for o, src, c in scale_sweep(chk.tier):
        items.append((o + (":cfg=%s" % json.dumps(c, sort_keys=True) if c else ""), src))
        cfgs.append(c)
    res = run_decls(binary, [s for _, s in items], cfgs=cfgs)
    return [(o, s, r) for (o, s), r in zip(items, res)], used


# ------------------------------------------------------------------------------------------ judging
def classes_of(d):
    cl = d.get("classes", [])
    return ([c[2:] for c in cl if c[:2] in ("F:", "M:")], [c[2:] for c in cl if c[:2] in ("T:", "M:")])


def judge_c08(d, known):
    """-> (failure description or None, set of known ids that explain what was seen)"""
    nonrep, transf = classes_of(d)
    if d["reparse"] != "ok" or not d.get("equal", False):
        what = ("formatted text does not re-parse: " + d["reparse"][:300]) if d["reparse"] != "ok" else "formatted text re-parses to a different AST"
        expl = [c for c in nonrep if c in known]
        if expl:
            return None, set(expl)
        return what + ("; unlisted classes present: %s" % nonrep if nonrep else ""), set()
    if not d.get("equal_raw", True):
        missing = [c for c in transf if c not in known]
        if missing:
            return "meaning changed (class %s is not a listed finding)" % missing, set()
        return None, set(transf)
    return None, set()


def judge_c09(d, known, c08_known):
    """idempotence + hygiene of one declaration's output."""
    nonrep, _ = classes_of(d)
    out, hits = [], set()
    inherited = "fmt-not-reparsable" in known and any(c in c08_known for c in nonrep)
    if d["reparse"] != "ok" or not d.get("equal", False):
        if inherited:
            hits.add("fmt-not-reparsable")
        else:
            out.append("fmt(x) does not re-parse to x, so fmt(fmt(x)) cannot equal fmt(x): " + d["reparse"][:200])
    if d.get("idem") is False:
        if inherited:
            hits.add("fmt-not-reparsable")
        else:
            out.append("fmt(fmt(x)) != fmt(x): %s" % (d.get("idem_diff"),))
    h = d["hyg"]
    if h["lexed"]:
        if h["tabs"]:
            out.append("tab outside string contents: %r" % h["bad_line"])
        if h["trailing"]:      # no listed class leaves trailing blanks any more (if-expressions are printed in block form)
            out.append("%d line(s) with trailing whitespace outside strings: %r" % (h["trailing"], h["bad_line"]))
    elif not inherited:
        out.append("formatted text does not lex")
    if h["final_newlines"] != 1:
        out.append("output ends in %d newlines (exactly one required)" % h["final_newlines"])
    return out, hits


EXPECTED_TAGS = """Import Const Model Class Trait Newtype Enum Function Docstring Module From Python RustCrate RustFrom ImportItem ImportPath
ConstDecl ModelDecl FieldDecl ClassDecl TraitDecl NewtypeDecl EnumDecl VariantDecl FunctionDecl MethodDecl Immutable Mutable Param
Decorator Positional Named Type Expr Simple Generic Unit Tuple SelfType Assignment FieldAssignment IndexAssignment Return If While For
Pass Break Continue CompoundAssignment TupleUnpack TupleAssign ChainedAssignment Inferred Let Add Sub Mul Div FloorDiv Mod IfStmt WhileStmt
ForStmt SliceExpr Ident Literal SelfExpr Binary Unary Call Index Slice Field MethodCall Await Try Match ListComp DictComp Closure List Dict
Set Paren FString Yield Range Int Float String Bytes Bool None Pow Eq NotEq Lt Gt LtEq GtEq And Or In NotIn Is Neg Not MatchArm Block
Wildcard Binding Constructor IfExpr Public Private
alias:Some alias:None ty:Some ty:None default:Some default:None extends:Some extends:None receiver:Some receiver:None body:Some body:None
start:Some start:None end:Some end:None step:Some step:None filter:Some filter:None guard:Some guard:None else_body:Some else_body:None
is_async:true is_async:false is_mut:true is_mut:false inclusive:true inclusive:false is_absolute:true is_absolute:false
type_params:[] type_params:[..] decorators:[] decorators:[..] traits:[] traits:[..] fields:[] fields:[..] methods:[] methods:[..]
params:[] params:[..] elif_branches:[] elif_branches:[..] args:[] args:[..] path:[] path:[..] segments:[..]""".split()
# not producible from source (checked by reading the parser): Expr::Constructor, BindingKind::Reassign, Type::Function is "Function"


def oracle_c08(chk, items, known):
    fails, dist, hits = [], {}, set()
    tags = set()
    n_decl = 0
    for origin, src, r in items:
        if "panic" in r:
            fails.append({"origin": origin, "source": src, "why": "the formatter/parser panicked: " + r["panic"]})
            continue
        if r.get("parse") != "ok":
            dist["input does not parse (outside the quantifier)"] = dist.get("input does not parse (outside the quantifier)", 0) + 1
            chk.count_case((origin, "noparse"), nontrivial=False)
            continue
        tags |= set(r["tags"])
        for i, d in enumerate(r["decls"]):
            n_decl += 1
            why, h = judge_c08(d, known)
            hits |= h
            key = "%s/%s" % (d["kind"], "+".join(sorted(d["classes"])) or "clean")
            dist[key] = dist.get(key, 0) + 1
            chk.count_case((hashlib.sha1(src.encode()).hexdigest(), i), nontrivial=not d["classes"] or d.get("equal", False))
            if why:
                fails.append({"origin": origin, "decl_index": i, "source": src, "formatted_decl": d.get("text"), "why": why,
                              "expected_vs_actual_ast": d.get("diff"), "classes": d["classes"]})
        w = r["whole"]
        if "fmt" in w:
            fails.append({"origin": origin, "source": src, "why": "format_source fails on a file that parses: " + w["fmt"][:300]})
        elif w.get("reparse_consistent") is False:
            fails.append({"origin": origin, "source": src, "why": "the whole formatted file re-parses into different declarations than its parts"})
    return fails, dist, hits, tags, n_decl


def replay_known(chk, binary, judge):
    """re-run each listed finding's witness; report it if it still fails."""
    for f in chk.findings:
        if f.get("status") != "known":
            continue
        r = run_decls(binary, [f["witness"]])[0]
        if r.get("parse") != "ok":
            continue
        if judge(f, r):
            chk.known(f["id"], "%s: %s" % (f["id"], f["summary"]))


# ------------------------------------------------------------------------------------------ tie with the Coq model
KW = ["True", "False", "None", "SelfKw", "And", "Or", "Not", "In", "Is", "Await", "If", "Return", "Pass", "Break", "Continue", "Let", "Mut",
      "Match", "Yield", "For"]
KWC = ["KTrue", "KFalse", "KNone", "KSelf", "KAnd", "KOr", "KNot", "KIn", "KIs", "KAwait", "KIf", "KReturn", "KPass", "KBreak", "KContinue",
       "KLet", "KMut", "KMatch", "KYield", "KFor"]
OP = ["Plus", "Minus", "Star", "Slash", "SlashSlash", "Percent", "StarStar", "EqEq", "NotEq", "Lt", "Gt", "LtEq", "GtEq", "DotDot", "DotDotEq",
      "Eq", "PlusEq", "MinusEq", "StarEq", "SlashEq", "SlashSlashEq", "PercentEq"]
PU = ["Dot", "Comma", "Colon", "ColonColon", "LParen", "RParen", "LBracket", "RBracket", "LBrace", "RBrace", "Question", "FatArrow", "Arrow"]
BINOPS = ["Add", "Sub", "Mul", "Div", "FloorDiv", "Mod", "Pow", "Eq", "NotEq", "Lt", "Gt", "LtEq", "GtEq", "And", "Or", "In", "NotIn", "Is"]


class Ids:
    def __init__(self):
        self.m = {("id", "_"): 0, ("id", "Tuple"): 1, ("id", "None"): 2, ("id", "Self"): 3}

    def get(self, kind, key):
        k = (kind, key if not isinstance(key, list) else tuple(key))
        if k not in self.m:
            self.m[k] = len(self.m) + 10
        return self.m[k]


def tok_codes(t, ids):
    """JSON token from the harness -> (Gallina term, rendered ints)"""
    k = t[0]
    if k == "id":
        n = ids.get("id", t[1])
        return "TId %d%%N" % n, [1, n]
    if k == "int":
        return "TInt %s" % vlib.zlit(int(t[1])), [2, int(t[1])]
    if k == "float":
        n = ids.get("float", t[1])
        if t[2] is None:
            return "TFloat %d%%N None" % n, [3, n, 0, 0]
        if t[2] is None or t[2] == [None] or t[2] is False:
            return None, None
        kk = t[2]
        if isinstance(kk, list):
            kk = kk[0]
        if kk is None:
            return None, None
        return "TFloat %d%%N (Some %s)" % (n, vlib.zlit(int(kk))), [3, n, 1, int(kk)]
    if k == "str":
        n = ids.get("str", t[1])
        return "TStr %d%%N" % n, [4, n]
    if k == "bytes":
        n = ids.get("bytes", t[1])
        return "TBytes %d%%N" % n, [5, n]
    if k == "kw":
        if t[1] in KW:
            return "TKw %s" % KWC[KW.index(t[1])], [6, KW.index(t[1]) + 1]
        return "TOther 1", [10, 1]
    if k == "op":
        if t[1] in OP:
            return "TOp O%s" % t[1], [7, OP.index(t[1]) + 1]
        return "TOther 2", [10, 2]
    if k == "pu":
        if t[1] in PU:
            return "TPu P%s" % t[1], [8, PU.index(t[1]) + 1]
        return "TOther 3", [10, 3]
    if k == "nl":
        return "TNewline", [9, 0]
    return "TOther 4", [10, 4]


class Unsupported(Exception):
    pass


def ser_lit(l, ids):
    k = l[0]
    if k == "Int":
        return [1, int(l[1])]
    if k == "Float":
        n = ids.get("float", l[1])
        if l[2] is None:
            return [2, n, 0, 0]
        if l[2] is None or (isinstance(l[2], list) and l[2][0] is None):
            raise Unsupported("non-i64 float display")
        kk = l[2][0] if isinstance(l[2], list) else l[2]
        return [2, n, 1, int(kk)]
    if k == "Str":
        return [3, ids.get("str", l[1])]
    if k == "Bytes":
        return [4, ids.get("bytes", l[1])]
    if k == "Bool":
        return [5, 1 if l[1] else 0]
    return [6]


def ser_field(f, ids):
    return [1, int(f)] if f.isdigit() else [0, ids.get("id", f)]


def ser_expr(e, ids):
    k = e[0]
    S = lambda x: ser_expr(x, ids)
    opt = lambda o: [0] if o is None else [1] + S(o)

    def args(a):
        out = [len(a)]
        for n, x in a:
            out += ([0] if n is None else [1, ids.get("id", n)]) + S(x)
        return out
    if k == "Ident":
        return [1, ids.get("id", e[1])]
    if k == "Lit":
        return [2] + ser_lit(e[1], ids)
    if k == "Self":
        return [3]
    if k == "Binary":
        return [4, BINOPS.index(e[2]) + 1] + S(e[1]) + S(e[3])
    if k == "Unary":
        return [5, 1 if e[1] == "Neg" else 2] + S(e[2])
    if k == "Call":
        return [6] + S(e[1]) + args(e[2])
    if k == "Index":
        return [7] + S(e[1]) + S(e[2])
    if k == "Slice":
        return [8] + S(e[1]) + opt(e[2]) + opt(e[3]) + opt(e[4])
    if k == "Field":
        return [9] + S(e[1]) + ser_field(e[2], ids)
    if k == "Method":
        return [10] + S(e[1]) + [ids.get("id", e[2])] + args(e[3])
    if k == "Await":
        return [11] + S(e[1])
    if k == "Try":
        return [12] + S(e[1])
    if k in ("Tuple", "List", "Set"):
        out = [{"Tuple": 13, "List": 14, "Set": 16}[k], len(e[1])]
        for x in e[1]:
            out += S(x)
        return out
    if k == "Dict":
        out = [15, len(e[1])]
        for a, b in e[1]:
            out += S(a) + S(b)
        return out
    if k == "Paren":
        return [17] + S(e[1])
    if k == "Range":
        return [18] + S(e[1]) + S(e[2]) + [1 if e[3] else 0]
    if k == "Closure":
        return [19, len(e[1])] + [ids.get("id", p) for p in e[1]] + S(e[2])
    raise Unsupported(str(e[:2]))


def ser_stmt(s, ids):
    k = s[0]
    E = lambda x: ser_expr(x, ids)
    if k == "Expr":
        return [1] + E(s[1])
    if k == "Assign":
        return [2, ["Inferred", "Let", "Mutable", "Reassign"].index(s[1]), ids.get("id", s[2])] + E(s[3])
    if k == "FieldAssign":
        return [3] + E(s[1]) + ser_field(s[2], ids) + E(s[3])
    if k == "IndexAssign":
        return [4] + E(s[1]) + E(s[2]) + E(s[3])
    if k == "Compound":
        return [5, ids.get("id", s[1]), ["Add", "Sub", "Mul", "Div", "FloorDiv", "Mod"].index(s[2]) + 1] + E(s[3])
    if k == "Return":
        return [6, 0] if s[1] is None else [6, 1] + E(s[1])
    if k in ("Pass", "Break", "Continue"):
        return [{"Pass": 7, "Break": 8, "Continue": 9}[k]]
    raise Unsupported(str(s[:2]))


def core_programs(chk, n):
    out = []
    for _ in range(n):
        g = Gen(chk.rng)
        g.core = True
        risky = ()
        r = chk.rng.random()
        if r < 0.12:
            risky = ()
        elif r < 0.2:
            risky = ("fmt-compound-desugar",)
        line = g.stmt(0, 4, tuple(risky) + tuple(FIXED))
        if len(line) != 1 or len(line[0]) > 160:
            continue
        out.append("def f() -> None:\n%s\n" % line[0])
    return out


def run_tie(chk, binary, res):
    """model parser on the real tokens == real AST; model printer on that AST == real tokens of the real output."""
    n = 700 if chk.tier == "quick" else 6000
    srcs = core_programs(chk, n)
    inp = "".join(json.dumps({"op": "tie", "src": s}) + "\n" for s in srcs)
    out = [json.loads(l) for l in vlib.run_harness(binary, ["run", "c08"], inp).split("\n") if l]
    ids = Ids()
    cases = []
    skipped = {}
    for src, r in zip(srcs, out):
        if r.get("parse") != "ok" or len(r["ast"]) != 1 or not isinstance(r["toks_fmt"], list):
            why = "real parser/formatter rejects (known class or generator waste)"
            skipped[why] = skipped.get(why, 0) + 1
            continue
        try:
            want_ast = ser_stmt(r["ast"][0], ids)
        except Unsupported as e:
            skipped["outside the model: %s" % e] = skipped.get("outside the model: %s" % e, 0) + 1
            continue
        terms, ok = [], True
        for t in r["toks_src"]:
            g, _ = tok_codes(t, ids)
            if g is None:
                ok = False
                break
            terms.append(g)
        fm = []
        for t in r["toks_fmt"]:
            g, c = tok_codes(t, ids)
            if g is None:
                ok = False
                break
            fm += c
        if any(t[0] == "other" for t in r["toks_src"]):
            skipped["token outside the model"] = skipped.get("token outside the model", 0) + 1
            continue
        if not ok or len(terms) > 45:
            skipped["float without i64 display / too long"] = skipped.get("float without i64 display / too long", 0) + 1
            continue
        if fm[-2:] == [9, 0]:
            fm = fm[:-2]
        cases.append((src, "[" + "; ".join(terms) + "]", want_ast, fm, r["text"]))
    if not vlib.coq_build(["C08/Model.vo"])[0]:
        res["tie_ok"] = False
        res["broken"].append({"what": "model", "message": "C08/Model.v does not build"})
        return [], 0, skipped
    req = "From Coq Require Import ZArith NArith List.\nImport ListNotations.\nFrom Verif Require Import Fmt.Ast Fmt.Print Fmt.Parse Fmt.Wf C08.Model.\nOpen Scope Z_scope."
    got = vlib.coq_eval(req, "list tok", "tie_stmt 1000", [c[1] for c in cases], shard=60, tag="c08")
    bad = []
    nonwf = 0
    for (src, _, want_ast, want_fm, text), g in zip(cases, got):
        g = list(g)
        chk.count_case(("tie", src), nontrivial=bool(g) and g[0] == 1)
        if not g or g[0] != 1:
            bad.append({"source": src, "why": "model parser fails (%s) where the real parser succeeds" % (g[:1],)})
            continue
        try:
            i1, i2 = g.index(-1), len(g) - 2
        except ValueError:
            bad.append({"source": src, "why": "unreadable model output"})
            continue
        m_ast, m_toks, wf = g[2:i1], g[i1 + 1:i2], g[-1]
        nonwf += (wf == 0)
        if g[1] != 1:
            bad.append({"source": src, "why": "model parser leaves %d tokens, expected the final newline only" % g[1]})
        elif m_ast != want_ast:
            bad.append({"source": src, "why": "model AST differs from the real parser's AST", "model": m_ast[:60], "impl": want_ast[:60]})
        elif m_toks != want_fm:
            bad.append({"source": src, "formatted": text, "why": "model printer's tokens differ from the real lexer's tokens of the real formatter's output",
                        "model": m_toks[:80], "impl": want_fm[:80]})
    chk.coverage["tie_asts_outside_ladder_wf"] = nonwf
    return bad, len(cases), skipped


def bytes_tie(chk, binary, res):
    """Fmt/Bytes.v `escape` vs the text the real formatter writes between the quotes of a byte string, and the real
    lexer's decoding of that text vs the bytes (every single byte value, pairs of the interesting ones)."""
    inter = [0x27, 0x22, 0x5C, 0x0A, 0x09, 0x00, 0x7F, 0x80, 0xFF, 0x61, 0x78, 0x30]
    lists = [[v] for v in range(256)] + [[a, b] for a in inter for b in inter] + [[0x5C, 0x27, 0x27, 0x5C, 0x22], list(range(0x20, 0x30))]
    srcs = ["".join("const B%d: bytes = b\"%s\"\n" % (i + j, "".join("\\x%02x" % v for v in bs)) for j, bs in enumerate(lists[i:i + 50]))
            for i in range(0, len(lists), 50)]
    out = run_decls(binary, srcs, text=True)
    real = []
    for r in out:
        if r.get("parse") != "ok":
            raise vlib.Infra("bytes tie: generated source does not parse: %s" % r.get("parse"))
        for d in r["decls"]:
            t = d["text"].rstrip("\n")
            real.append(t[t.index('b"') + 2:-1])
    if not vlib.coq_build(["Fmt/Bytes.vo"])[0]:
        res["tie_ok"] = False
        res["broken"].append({"what": "model", "message": "Fmt/Bytes.v does not build"})
        return [], 0
    req = "From Coq Require Import ZArith List.\nImport ListNotations.\nFrom Verif Require Import Fmt.Bytes.\nOpen Scope Z_scope."
    got = vlib.coq_eval(req, "list Z", "escape", [vlib.zlist(bs) for bs in lists], shard=210, tag="c08bytes")
    bad = []
    for bs, g, t in zip(lists, got, real):
        chk.count_case(("bytes-tie", tuple(bs)), nontrivial=True)
        m = "".join(chr(c) for c in g)
        if m != t:
            bad.append({"source": 'const B: bytes = b"%s"\n' % "".join("\\x%02x" % v for v in bs), "why": "Fmt/Bytes.v escape and the formatter disagree",
                        "model": m, "impl": t})
    return bad, len(lists)


def text_tie(chk, binary, res):
    """Fmt/Text.v `escape_text` vs the text the real formatter writes for an f-string literal part."""
    inter = [10, 13, 9, 92, 34, 123, 125, 39, 97, 32, 233, 0x65E5]
    lists = [[c] for c in inter] + [[a, b] for a in inter for b in inter] + [[123, 120, 125, 34, 92, 110]]
    spell = {10: "\\n", 13: "\\r", 9: "\\t", 92: "\\\\", 34: '\\"', 123: "{{", 125: "}}"}      # source spelling, written independently
    srcs = ["".join("def g%d(x: int) -> str:\n    return f\"%s{x}\"\n" % (i + j, "".join(spell.get(c, chr(c)) for c in cs)) for j, cs in enumerate(lists[i:i + 40]))
            for i in range(0, len(lists), 40)]
    real = []
    for r in run_decls(binary, srcs, text=True):
        if r.get("parse") != "ok":
            raise vlib.Infra("text tie: generated source does not parse: %s" % r.get("parse"))
        for d in r["decls"]:
            t = d["text"].rstrip("\n")
            real.append(t[t.index('f"') + 2:-len('{x}"')])
    if not vlib.coq_build(["Fmt/Text.vo"])[0]:
        res["tie_ok"] = False
        res["broken"].append({"what": "model", "message": "Fmt/Text.v does not build"})
        return [], 0
    req = "From Coq Require Import ZArith List.\nImport ListNotations.\nFrom Verif Require Import Fmt.Text.\nOpen Scope Z_scope."
    got = vlib.coq_eval(req, "list Z", "escape_text", [vlib.zlist(cs) for cs in lists], shard=200, tag="c08text")
    bad = []
    for cs, g, t in zip(lists, got, real):
        chk.count_case(("text-tie", tuple(cs)), nontrivial=True)
        m = "".join(chr(c) for c in g)
        if m != t:
            bad.append({"source": 'def g(x: int) -> str:\n    return f"%s{x}"\n' % "".join(spell.get(c, chr(c)) for c in cs),
                        "why": "Fmt/Text.v escape_text and the formatter disagree on an f-string literal part", "model": m, "impl": t})
    return bad, len(lists)


# ------------------------------------------------------------------------------------------ run / replay
def witness_fails_c08(f, r):
    known = {f["id"]}
    for d in r["decls"]:
        nonrep, transf = classes_of(d)
        if f["id"] in nonrep and (d["reparse"] != "ok" or not d.get("equal", False)):
            return True
        if f["id"] in transf and d["reparse"] == "ok" and d.get("equal") and not d.get("equal_raw"):
            return True
    return False


def run(chk):
    chk.trusted = [
        "Coq 8.16.1 kernel (coqc; vm_compute only in closed witness lemmas); no axioms (all 7 theorems closed under the global context)",
        "hand-written models coq/Fmt/Print.v (formatter arms for the expression/simple-statement core, at token level = formatter then lexer) and "
        "coq/Fmt/Parse.v (precedence ladder of parser/expr.rs, statement dispatch of parser/stmts.rs), tied by correspondence on every run",
        "the real lexer (used to turn source and formatted text into tokens for the tie) and vharness c08 (span erasure by Debug-dump rewriting, "
        "the AST walker that applies the listed finding transformations); this script's generator and differ",
    ]
    chk.assumptions = [
        "proved fragment: expressions Ident/Literal/Self/Binary/Unary/Call/Index/Slice/Field/MethodCall/Await/Try/Tuple/List/Paren/Range; dict and set "
        "literals, closures, simple statements are modelled and tied but not proved; match/if/comprehensions/f-strings/yield, compound statements, "
        "declarations, types, patterns are covered by the oracle on the real code only",
        "parser_output_wf (every AST the real parser produces is ladder_wf) is NOT a theorem: it is checked on each tie case and is refuted at statement "
        "level by the parser's desugaring of `t op= rhs` (C08_parser_output_wf_refuted)",
        "token-level model: adjacent printed tokens are assumed not to fuse in the lexer except `:` `:` (modelled as the `::` token, which the parser accepts since /repo 974c053); `t.0.1`/`5.0` are excluded by ladder_wf (dot_safe)",
    ]
    known = load_findings(chk, "C08", PROPOSED_C08)
    res = chk.proof_stage("C08", allow_axioms=())
    binary = vlib.build_harness("debug")
    items, used = gather(chk, binary)
    fails, dist, hits, tags, n_decl = oracle_c08(chk, items, known)
    corr_bad, n_tie, skipped = run_tie(chk, binary, res)
    b_bad, n_bt = bytes_tie(chk, binary, res)
    corr_bad += b_bad
    n_tie += n_bt
    t_bad, n_tt = text_tie(chk, binary, res)
    corr_bad += t_bad
    n_tie += n_tt
    missing = [t for t in EXPECTED_TAGS if t not in tags]
    chk.coverage["rule"] = ("one evaluation per top-level declaration of every corpus file (%d files) and of every generated program; non-trivial = the "
                            "declaration carries no finding class or round-trips after the listed transformation; plus one per tie case" % len([1 for o, _, _ in items if o.startswith("file:")]))
    chk.coverage["distribution"] = dict(sorted(dist.items(), key=lambda kv: -kv[1])[:60])
    chk.coverage["ast_constructors_and_optional_fields_seen"] = len(tags)
    chk.coverage["ast_tags_expected_but_never_generated"] = missing
    chk.coverage["generator_features_used"] = len(used)
    chk.coverage["declarations_checked"] = n_decl
    chk.coverage["traces_validated_against_impl"] = n_tie
    chk.coverage["tie_cases_skipped"] = skipped
    chk.coverage["correspondence_mismatches"] = len(corr_bad)
    for o, s, r in items[-3:]:
        chk.sample(s[:300])
    replay_known(chk, binary, witness_fails_c08)
    if missing:
        chk.notes.append("generator no longer reaches: %s" % missing)
    fails.sort(key=lambda f: len(f.get("formatted_decl") or f.get("source") or ""))      # smallest failing input first
    for f in fails[:15]:
        chk.violation("failing-input", f)
    if not fails:
        if corr_bad:
            chk.violation("correspondence-broken", {"theorem_or_tie": "Fmt/Print.v + Fmt/Parse.v vs format_source/lexer/parser", "cases": corr_bad[:8]}, no_input=True)
        if not res["proofs_ok"] or not res["tie_ok"]:
            chk.violation("proof-broken", {"theorem_or_tie": res["broken"]}, no_input=True)


def replay(path):
    data = json.load(open(path))
    binary = vlib.build_harness("debug")
    for v in data["violations"]:
        d = v["detail"]
        srcs = [d["source"]] if "source" in d else [c["source"] for c in d.get("cases", []) if "source" in c]
        for src in srcs:
            r = run_decls(binary, [src], text=True)[0]
            print("---- source\n" + src)
            if r.get("parse") != "ok":
                print("does not parse:", r.get("parse"))
                continue
            print("---- formatted\n" + r["whole"].get("text", r["whole"].get("fmt", "")))
            for i, dd in enumerate(r["decls"]):
                print("decl %d %s: reparse=%s equal=%s equal_raw=%s idem=%s classes=%s hygiene=%s" % (
                    i, dd["kind"], dd["reparse"][:200], dd.get("equal"), dd.get("equal_raw"), dd.get("idem"), dd["classes"], dd["hyg"]))
                if dd.get("diff"):
                    print("   expected AST …%s…\n   actual   AST …%s…" % tuple(dd["diff"]))
        if not srcs:
            print(json.dumps(d, indent=1)[:4000])
    return 0
