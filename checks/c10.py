"""C10 — layout and comments never change how a program is parsed.

proof:   coq/C10/Props.v over the hand model coq/Lex/Layout.v (layout machine of scan_token/handle_indentation
         over a character-class alphabet): machine = one-pass semantics for all inputs (fuel 2n+2), and one
         invariance theorem per layout edit for ALL inputs and positions.
tie:     the model is evaluated inside coqc (vm_compute) on generated sources, exhaustive small strings and the
         repository corpus and compared with the real `lexer::lex`: (a) character-level machine Lex/Chars.v:
         token classes + byte spans + error classes, (b) Lex/Layout.v on `abstract src`: token classes.
oracle:  the property itself on the implementation: every edit at every position of small programs and at all /
         sampled positions of the corpus (.incn files of /repo), comparing span-erased ASTs of the real parser;
         plus all strings of length <= N over `a SP TAB LF CR # ( ) :` x eight edits on the real lexer."""
import glob
import json
import os

import vlib

REQ = ("From Coq Require Import List NArith ZArith.\nFrom Verif Require Import Lex.Layout Lex.Chars.\n"
       "Import ListNotations.\nOpen Scope N_scope.")
RUN = "fun src => (crender src (clex src), render (lex (abstract src)))"
STRK = (7, 17, 18)


# ------------------------------------------------------------------------------------------ helpers

def hx(s):
    return s.encode("utf-8").hex()


def coq_src(s):
    return "[" + ";".join(str(ord(c)) for c in s) + "]"


def corpus_files():
    out = []
    for root in ("examples", "tests", "stdlib", "crates", "docs"):
        out += glob.glob(os.path.join(vlib.REPO, root, "**", "*.incn"), recursive=True)
    return sorted(set(out))


def parse_lex_line(line):
    """`L T k a b;...|E c a b x y;...` -> (tokens, errors) or ('panic', msg)."""
    if line.startswith("P "):
        return "panic", line[2:]
    if not line.startswith("L "):
        raise vlib.Infra("unexpected harness line: " + line[:200])
    t, e = line[2:].split("|", 1)
    toks = [tuple(int(x) for x in p.split()[1:]) for p in t.split(";") if p]
    errs = [tuple(int(x) for x in p.split()[1:]) for p in e.split(";") if p]
    return toks, errs


def real_lex(binary, sources):
    text = "".join("lex %s\n" % hx(s) for s in sources)
    out = vlib.run_harness(binary, ["run", "c10"], text).split("\n")
    out = [l for l in out if l]
    if len(out) != len(sources):
        raise vlib.Infra("c10 lex: %d lines for %d cases" % (len(out), len(sources)))
    return [parse_lex_line(l) for l in out]


def real_ast(binary, sources, mode="ast"):
    text = "".join("%s %s\n" % (mode, hx(s)) for s in sources)
    out = vlib.run_harness(binary, ["run", "c10"], text, timeout=1800).split("\n")
    out = [l for l in out if l]
    if len(out) != len(sources):
        raise vlib.Infra("c10 ast: %d lines for %d cases" % (len(out), len(sources)))
    return out


def byte_offsets(s):
    """prefix sums: byte offset of the boundary after k scalars."""
    offs = [0]
    for c in s:
        offs.append(offs[-1] + len(c.encode("utf-8")))
    return offs


def expected_from_real(s, real):
    """What the two models must print for source s, derived from the real lexer's answer.
    Returns (char_level, class_level) where each is ('toks'|'errs', list)."""
    toks, errs = real
    offs = byte_offsets(s)
    idx = {b: k for k, b in enumerate(offs)}

    def ci(b):
        return idx.get(b, -1000 - b)

    if errs:
        ch = ("errs", [(100 + c, ci(a), ci(b), x, y) for (c, a, b, x, y) in errs])
        cl = ("errs", [(20, 0, 0) if c == 2 else (21, x, y) if c == 3 else (22, ci(a), 0) for (c, a, b, x, y) in errs])
    else:
        ch = ("toks", [(k, ci(a), ci(b), 0, 0) for (k, a, b) in toks])
        cl = ("toks", [(k, 0, 0) if k <= 4 else (7 if k in STRK else 8 if k in (8, 30, 31) else k, ci(a), 0)
                       for (k, a, b) in toks])
    return ch, cl


def model_view(kind, events, is_err):
    evs = [tuple(e) for e in events]
    if kind == "errs":
        return [e for e in evs if is_err(e)]
    return [e for e in evs if not is_err(e)]


def compare_model(s, real, model):
    """None if both models agree with the real lexer on s, else a description."""
    if real[0] == "panic":
        return "real lexer panicked: " + real[1]
    (chk, chv), (clk, clv) = expected_from_real(s, real)
    mch, mcl = model
    mch = [tuple(e) for e in mch]
    mcl = [tuple(e) for e in mcl]
    m_has_err = any(e[0] >= 100 for e in mch)
    if m_has_err != (chk == "errs"):
        return "char-level model %s, real lexer %s" % ("rejects" if m_has_err else "accepts", "rejects" if chk == "errs" else "accepts")
    got = [e for e in mch if (e[0] >= 100) == (chk == "errs")]
    if got != chv:
        for i, (g, w) in enumerate(zip(got + [None] * 3, chv + [None] * 3)):
            if g != w:
                return "char-level %s differ at #%d: model %r real %r" % (chk, i, g, w)
    got = [e for e in mcl if (e[0] >= 20) == (clk == "errs")]
    if got != clv:
        for i, (g, w) in enumerate(zip(got + [None] * 3, clv + [None] * 3)):
            if g != w:
                return "class-level %s differ at #%d: model %r real %r" % (clk, i, g, w)
    return None


# ------------------------------------------------------------------------------------------ generators

WORDS = ["x", "y", "foo", "bar1", "n", "total", "items", "self", "f", "b", "e1", "_t"]
TYPES = ["int", "str", "bool", "float", "List[int]", "Dict[str, int]", "Option[int]"]


class Gen:
    """Small mostly-valid Incan programs with nested blocks, brackets over several lines, comments,
    strings (plain, triple-quoted over several lines, f-strings, byte strings) and blank lines."""

    def __init__(self, rng):
        self.rng = rng

    def atom(self, d):
        r = self.rng
        k = r.random()
        if k < 0.25:
            return r.choice(WORDS[:8])
        if k < 0.40:
            return str(r.choice([0, 1, 2, 10, 42, 1_000]))
        if k < 0.47:
            return r.choice(["1.5", "2e3", "0.25", "1_0.5"])
        if k < 0.57:
            return r.choice(['"a b"', "'# no comment'", '"(["', 'f"v={x}"', 'f"{x + 1} and {{y}}"', 'b"ab"', '"\\"q\\""',
                             '"é€😀"', '"""tri\n  ple"""'])
        if k < 0.62:
            return r.choice(["True", "False", "None"])
        if d <= 0:
            return r.choice(WORDS[:8])
        if k < 0.74:
            return "(%s)" % self.expr(d - 1)
        if k < 0.84:
            return "[%s]" % self.items(d - 1)
        if k < 0.90:
            return "{%s}" % ", ".join('"%s": %s' % (r.choice("abc"), self.expr(d - 1)) for _ in range(r.randint(0, 2)))
        return "%s(%s)" % (r.choice(["foo", "len", "max", "x.get"]), self.items(d - 1))

    def items(self, d):
        r = self.rng
        n = r.randint(0, 3)
        sep = r.choice([", ", ",\n      ", ",\n", ", # c\n    "])
        s = sep.join(self.expr(d) for _ in range(n))
        if n and r.random() < 0.3:
            s = "\n        " + s + r.choice(["\n", ",\n    ", ""])
        return s

    def expr(self, d):
        r = self.rng
        a = self.atom(d)
        for _ in range(r.choice([0, 0, 1, 1, 2])):
            a += " %s %s" % (r.choice(["+", "-", "*", "==", "<", "and", "or", "//", "%", ">=", "!="]), self.atom(d))
        return a

    def block(self, ind, d, unit):
        r = self.rng
        pad = unit * ind
        out = []
        for _ in range(r.randint(1, 3)):
            k = r.random()
            if r.random() < 0.15:
                out.append(r.choice(["", pad + "# note", "   ", "# at column zero (in block)", pad + unit + "# deeper"]))
            if d > 0 and k < 0.18:
                out.append("%sif %s:" % (pad, self.expr(1)))
                out += self.block(ind + 1, d - 1, unit)
                if r.random() < 0.4:
                    out.append("%selif %s:" % (pad, self.expr(1)))
                    out += self.block(ind + 1, d - 1, unit)
                if r.random() < 0.5:
                    out.append("%selse:" % pad)
                    out += self.block(ind + 1, d - 1, unit)
            elif d > 0 and k < 0.28:
                out.append("%sfor %s in %s:" % (pad, r.choice(WORDS[:4]), self.atom(1)))
                out += self.block(ind + 1, d - 1, unit)
            elif d > 0 and k < 0.36:
                out.append("%swhile %s:" % (pad, self.expr(1)))
                out += self.block(ind + 1, d - 1, unit)
            elif d > 0 and k < 0.44:
                out.append("%smatch %s:" % (pad, r.choice(WORDS[:4])))
                for pat in r.sample(["0", "1", '"s"', "_"], r.randint(1, 3)):
                    out.append("%s%s =>" % (pad + unit, pat))
                    out += self.block(ind + 2, 0, unit)
            elif k < 0.60:
                out.append("%slet %s = %s" % (pad, r.choice(WORDS[:6]), self.expr(2)))
            elif k < 0.70:
                out.append("%s%s = %s%s" % (pad, r.choice(WORDS[:6]), self.expr(2), r.choice(["", "  # why", " #"])))
            elif k < 0.80:
                out.append("%sreturn %s" % (pad, self.expr(2)))
            elif k < 0.88:
                out.append("%sprintln(%s)" % (pad, self.items(1)))
            elif k < 0.94:
                out.append("%spass" % pad)
            else:
                out.append("%s%s += %s" % (pad, r.choice(WORDS[:4]), self.atom(1)))
        return out

    def program(self):
        r = self.rng
        unit = r.choice(["    ", "    ", "  ", "\t", "   "])
        out = []
        if r.random() < 0.3:
            out.append(r.choice(['"""module doc"""', '"""doc\nover lines\n"""', "# leading comment", ""]))
        for _ in range(r.randint(1, 3)):
            k = r.random()
            if k < 0.7:
                params = ", ".join("%s: %s" % (w, r.choice(TYPES)) for w in r.sample(WORDS[:6], r.randint(0, 3)))
                if params and r.random() < 0.3:
                    params = "\n" + unit * 2 + params.replace(", ", ",\n" + unit * 2) + r.choice(["\n", ",\n"])
                out.append("def %s(%s) -> %s:" % (r.choice(["main", "f", "go", "calc"]), params, r.choice(TYPES + ["None"])))
                if r.random() < 0.2:
                    out.append(unit + '"""doc string\n        with lines"""')
                out += self.block(1, 2, unit)
            elif k < 0.85:
                out.append("model %s:" % r.choice(["User", "Point"]))
                for w in r.sample(WORDS[:6], r.randint(1, 3)):
                    out.append("%s%s: %s%s" % (unit, w, r.choice(TYPES), r.choice(["", " = 0", "  # field"])))
            else:
                out.append("const %s: int = %s" % (r.choice(["A", "LIMIT"]), self.expr(1)))
            out += [""] * r.randint(0, 2)
        s = "\n".join(out)
        return s + r.choice(["\n", "\n", "", "\n\n", "  ", "\n# end"])


def small_strings(maxlen, alpha="a \t\n\r#():"):
    out = [""]
    frontier = [""]
    for _ in range(maxlen):
        frontier = [p + c for p in frontier for c in alpha]
        out += frontier
    return out


def lexical_samples(rng, n):
    """sources that stress the scanners: numbers, operators, strings with escapes, unterminated literals."""
    frag = ["1", "12_3", "1.5", "1.", "1..2", "1..=2", "1e5", "1e", "1e+", "2E-3", "1.5e+10", "9223372036854775807",
            "9223372036854775808", "007", "1e308", "1e309", "1e999", "1.7976931348623157e308", "1.7976931348623158e308", "1.7976931348623159e308",
            "%d.0" % (2 ** 1024 - 2 ** 970), "%d.0" % (2 ** 1024 - 2 ** 970 - 1), "%d.5e10" % ((2 ** 1024 - 2 ** 970) // 10 ** 10), "0.0e999999999",
            "0e999", "1e-999", "0.%s1e400" % ("0" * 95), "0.%s1e405" % ("0" * 95), "17976931348623158079_3e289", "1e0400", "1E+308", "4.9e-324", "1_", "1__2.3_4", "x", "_y1", "f", "b", "fx", "if", "and", "+", "+=", "-", "->",
            "-=", "*", "**", "**=", "*=", "/", "//", "//=", "/=", "%", "%=", "?", "@", ",", ":", "::", ":::", "=", "==", "=>",
            "===", "!", "!=", "<", "<=", ">", ">=", ".", "..", "...", "....", "..=", "(", ")", "[", "]", "{", "}", "$", "\\",
            "~", "é", "€", "😀", '"s"', "'s'", '""', "''", '"""t"""', '"""a"b""c"""', '"""', '"a', "'a\n", '"a\\', '"a\\"b"',
            '"\\n\\q"', 'f"a{x}b"', 'f"{{x}}"', 'f"{a{b}c}"', 'f"}"', 'f"}}"', 'f"{', 'f"{x', 'f"a\nb"', 'f"\\', "f'{x}'",
            'b"ab"', 'b"\\x41"', 'b"\\x4"', 'b"\\x"', 'b"\\xzz"', 'b"\\x+f"', 'b"é"', 'b"a', 'b"a\nb"', 'b"\\', "b'q\\'r'",
            "#c", "# é", " ", "  ", "\t", "\n", "\r\n", "\n  ", "\n    ", "\n\t"]
    out = []
    for _ in range(n):
        k = rng.randint(1, 7)
        out.append("".join(rng.choice(frag) + rng.choice(["", "", " ", "\n"]) for _ in range(k)))
    return frag + out


# ------------------------------------------------------------------------------------------ the edits (text level)

class Layout:
    """Positions of a source file relative to the real lexer's token spans."""

    def __init__(self, s, toks):
        self.s = s
        self.toks = toks
        b = s.encode("utf-8")
        self.b = b
        self.strspans = [(a, e) for (k, a, e) in toks if k in STRK]
        # bytes covered by tokens with non-empty spans
        cov = bytearray(len(b) + 1)
        for (k, a, e) in toks:
            if k in (1, 2, 3, 4):
                continue
            for i in range(a, e):
                cov[i] = 1
        self.cov = cov
        # newline byte positions outside string literals
        self.nls = [i for i in range(len(b)) if b[i] == 10 and not self.in_str(i)]
        self.line_starts = [0] + [i + 1 for i in self.nls]
        # comments: '#' not covered by a token, up to the next LF
        self.comments = []
        i = 0
        while i < len(b):
            if b[i] == 35 and not cov[i]:
                j = i
                while j < len(b) and b[j] != 10:
                    j += 1
                self.comments.append((i, j))
                i = j
            else:
                i += 1
        # token ends at bracket depth > 0
        self.in_brackets = []
        d = 0
        for (k, a, e) in toks:
            if k == 5:
                d += 1
            elif k == 6:
                d = max(0, d - 1)
            if d > 0 and k not in (1, 2, 3, 4):
                self.in_brackets.append(e)

    def in_str(self, i):
        return any(a <= i < e for (a, e) in self.strspans)

    def ins(self, pos, text):
        return (self.b[:pos] + text.encode() + self.b[pos:]).decode("utf-8")

    def cut(self, a, e):
        return (self.b[:a] + self.b[e:]).decode("utf-8")

    def line_ends(self):
        return self.nls + [len(self.b)]

    def reindent(self, f, tabs=False):
        """map the leading [ \\t]* run of every physical line that starts outside a string literal."""
        out = bytearray()
        for n, st in enumerate(self.line_starts):
            en = self.nls[n] + 1 if n < len(self.nls) else len(self.b)
            line = self.b[st:en]
            k = 0
            w = 0
            while k < len(line) and line[k] in (32, 9, 13):
                w += 1 if line[k] == 32 else 4 if line[k] == 9 else 0
                k += 1
            nw = f(w)
            lead = (b"\t" * (nw // 4) + b" " * (nw % 4)) if tabs else b" " * nw
            out += lead + line[k:]
        return out.decode("utf-8")

    def widths(self):
        ws = set()
        for n, st in enumerate(self.line_starts):
            k = st
            w = 0
            while k < len(self.b) and self.b[k] in (32, 9, 13):
                w += 1 if self.b[k] == 32 else 4 if self.b[k] == 9 else 0
                k += 1
            ws.add(w)
        return ws


def variants(lay, rng, limit=None):
    """(edit name, position, edited text) for every edit of the property at every position (or a sample)."""
    out = []
    ends = lay.line_ends()
    for e in ends:
        out.append(("comment-eol", e, lay.ins(e, rng.choice(["# c", " # (x: [", "#", "  #\t'\"\"\" é"]))))
        out.append(("trailing-blanks", e, lay.ins(e, rng.choice([" ", "  \t", "\t", "    "]))))
        out.append(("cr-before-lf", e, lay.ins(e, "\r")))
    for st in lay.line_starts:
        out.append(("blank-line", st, lay.ins(st, rng.choice(["\n", "   \n", "\t\n", "\r\n", " \r\n"]))))
        out.append(("comment-line", st, lay.ins(st, rng.choice(["# c\n", "    # c )\n", "\t#\n", "  # \"\n"]))))
    for (a, e) in lay.comments:
        out.append(("comment-remove", a, lay.cut(a, e)))
        # a comment-only line disappears entirely (with its newline)
        ls = max([x for x in lay.line_starts if x <= a])
        if lay.b[ls:a].strip(b" \t\r") == b"" and e < len(lay.b):
            out.append(("comment-line-remove", ls, lay.cut(ls, e + 1)))
    for n, st in enumerate(lay.line_starts):
        en = lay.nls[n] if n < len(lay.nls) else None
        if en is not None and lay.b[st:en].strip(b" \t\r") == b"":
            out.append(("blank-line-remove", st, lay.cut(st, en + 1)))
    for e in lay.in_brackets:
        out.append(("newline-in-brackets", e, lay.ins(e, rng.choice(["\n", "\n    ", "\n\t  ", "\r\n ", "\n\n  "]))))
    # whole-file edits
    out.append(("crlf", -1, crlf_outside(lay)))
    out.append(("final-newline-add", -1, lay.s + "\n"))
    if lay.s.endswith("\n") and not lay.in_str(len(lay.b) - 1):
        out.append(("final-newline-remove", -1, lay.s[:-1]))
    ws = lay.widths()
    out.append(("reindent-x2", -1, lay.reindent(lambda w: 2 * w)))
    out.append(("reindent-x3+", -1, lay.reindent(lambda w: 3 * w + (1 if w else 0))))
    out.append(("reindent-tabs", -1, lay.reindent(lambda w: w, tabs=True)))
    if all(w % 2 == 0 for w in ws):
        out.append(("reindent-half", -1, lay.reindent(lambda w: w // 2)))
    rank = {w: i for i, w in enumerate(sorted(ws))}
    out.append(("reindent-rank", -1, lay.reindent(lambda w: rank.get(w, w))))
    if limit is not None and len(out) > limit:
        whole = [v for v in out if v[1] == -1]
        local = [v for v in out if v[1] != -1]
        out = whole + rng.sample(local, max(0, limit - len(whole)))
    return out


def crlf_outside(lay):
    b = bytearray()
    nls = set(lay.nls)
    for i, x in enumerate(lay.b):
        if i in nls:
            b += b"\r\n"
        else:
            b.append(x)
    return b.decode("utf-8")


# ------------------------------------------------------------------------------------------ the check

def run(chk):
    quick = chk.tier == "quick"
    chk.trusted = [
        "Coq 8.16.1 kernel (coqc, vm_compute for closed facts and for evaluating the model in the correspondence run)",
        "hand model coq/Lex/Layout.v of Lexer::scan_token / handle_indentation / tokenize (tied by correspondence, not generated)",
        "hand model coq/Lex/Chars.v (scanners) used as the abstraction from text to the class alphabet in the tie",
        "vharness c10 adapter (token class / error class mapping, span eraser on the Debug rendering of the AST) and this script",
        "rustc/std (char decoding)",
    ]
    chk.assumptions = [
        "the theorems are about token streams; that the real PARSER maps streams equal up to the optional final Newline to equal "
        "ASTs is not proved — it is exercised by the AST oracle (all edits x all positions of generated programs and the corpus)",
        "a string literal is one symbol of the model: no edit of the property acts inside a literal",
        "re-indentation theorem: column map strictly monotone on the occurring columns W (W 0, f 0 = 0): x2, x4, halving on even "
        "columns, rank compression; every physical line outside string literals is re-indented (continuation lines included)",
        "refinement proved: machine [lex] (fuel, pending dedents, at_line_start, bracket depth) = one-pass semantics [scan]; a separate "
        "line-based declarative spec (DESIGN's Lex/Spec.v, machine_refines_spec) is NOT written: the edit theorems are proved directly on [scan]",
    ]
    res = chk.proof_stage("C10", allow_axioms=())
    binary = vlib.build_harness("debug")
    rng = chk.rng
    fails = []
    corr_bad = []
    dist = {}

    # ---- 1. correspondence: models vs real lexer
    gen = Gen(rng)
    programs = [gen.program() for _ in range(100 if quick else 1500)]
    small = small_strings(3 if quick else 5)
    if quick:
        small += ["".join(rng.choice("a \t\n\r#():") for _ in range(rng.randint(4, 9))) for _ in range(1500)]
    lexs = lexical_samples(rng, 200 if quick else 3000)
    files = corpus_files()
    corpus = []
    for f in files:
        try:
            corpus.append((os.path.relpath(f, vlib.REPO), open(f, encoding="utf-8").read()))
        except (OSError, UnicodeDecodeError):
            pass
    corp_sel = corpus if not quick else [c for i, c in enumerate(corpus) if i % 6 == 0]
    groups = [("small", small, 300), ("lexical", lexs, 150), ("program", programs[:(60 if quick else 400)], 10), ("corpus", [c[1] for c in corp_sel], 2)]
    import time as _t
    t0 = _t.time()
    model_ok = vlib.coq_build(["Lex/Chars.vo", "Lex/Layout.vo"])[0]
    if not model_ok:
        res["tie_ok"] = False
        res["broken"].append({"what": "model", "message": "Lex/Layout.v or Lex/Chars.v no longer builds"})
    n_corr = 0
    for name, srcs, shard in groups:
        real = real_lex(binary, srcs)
        for r in real:
            key = "%s:%s" % (name, "panic" if r[0] == "panic" else "err" if r[1] else "ok")
            dist[key] = dist.get(key, 0) + 1
        if not model_ok:
            continue
        model = vlib.coq_eval(REQ, "list N", RUN, [coq_src(s) for s in srcs], shard=shard, tag="c10" + name)
        for s, r, m in zip(srcs, real, model):
            n_corr += 1
            chk.count_case(("corr", s), nontrivial=(r[0] != "panic" and not r[1]))
            why = compare_model(s, r, m)
            if why:
                corr_bad.append({"group": name, "source": s[:400], "why": why})
    vlib.log("[c10] correspondence %d cases in %.1fs" % (n_corr, _t.time() - t0))
    t0 = _t.time()
    chk.coverage["traces_validated_against_impl"] = n_corr
    chk.coverage["correspondence_mismatches"] = len(corr_bad)

    # ---- 2. oracle on the real lexer: exhaustive small strings x eight edits
    n = 6 if quick else 7
    line = vlib.run_harness(binary, ["run", "c10"], "exh %d\n" % n, timeout=3000).strip()
    chk.coverage["exhaustive_lexer"] = line[:300]
    if " violations=0" not in line:
        fails.append({"oracle": "exhaustive small strings on lexer::lex", "detail": line[:3000]})
    try:
        chk.evaluations += int(line.split("variants=")[1].split()[0])
    except (IndexError, ValueError):
        pass

    vlib.log("[c10] exhaustive lexer oracle in %.1fs" % (_t.time() - t0))
    t0 = _t.time()
    # ---- 3. oracle on the real parser: every edit, every position, span-erased ASTs
    subjects = [("gen%d" % i, p) for i, p in enumerate(programs)] + corpus
    base_ast = real_ast(binary, [s for _, s in subjects])
    base_lex = real_lex(binary, [s for _, s in subjects])
    cases = []
    n_valid = 0
    for (name, s), a, l in zip(subjects, base_ast, base_lex):
        key = "oracle-base:" + a.split()[0] + (":" + a.split()[1] if a.startswith("ERR") else "")
        dist[key] = dist.get(key, 0) + 1
        if a.startswith("PANIC"):
            fails.append({"oracle": "parser panicked", "subject": name, "source": s[:400], "detail": a[:300]})
            continue
        if l[0] == "panic" or l[1]:
            continue   # rejected by the lexer: no token spans to place edits by; covered by the lexer-level oracle
        if a.startswith("OK"):
            n_valid += 1
        lay = Layout(s, l[0])
        is_corpus = not name.startswith("gen")
        limit = None if (not is_corpus or not quick) else 40
        for (ename, pos, text) in variants(lay, rng, limit):
            cases.append((name, s, a, ename, pos, text))
    got = real_ast(binary, [c[5] for c in cases])
    for (name, s, a, ename, pos, text), g in zip(cases, got):
        dist["edit:" + ename] = dist.get("edit:" + ename, 0) + 1
        chk.count_case(("edit", name, ename, pos, text), nontrivial=a.startswith("OK"))
        ok = (g == a) if a.startswith("OK") else (g.split()[0] == "ERR")
        if not ok:
            fails.append({"oracle": "span-erased AST changed under a layout edit", "subject": name, "edit": ename, "position": pos,
                          "original": s, "edited": text, "expected": a, "actual": g})
    vlib.log("[c10] AST oracle %d variants in %.1fs" % (len(cases), _t.time() - t0))
    chk.coverage["oracle_subjects"] = len(subjects)
    chk.coverage["oracle_valid_subjects"] = n_valid
    chk.coverage["oracle_variants"] = len(cases)
    chk.coverage["distribution"] = dist
    chk.coverage["rule"] = ("correspondence: all strings of length <= %d over 9 layout characters (+1500 random longer ones in quick), scanner-stress samples, generated "
                            "programs, corpus files (every file in thorough, every sixth in quick); oracle: every edit at every position of "
                            "generated programs, %s positions of the %d corpus files; non-trivial = accepted by the real lexer/parser"
                            % (3 if quick else 5, "40 sampled" if quick else "all", len(corpus)))
    for p in programs[:3]:
        chk.sample(p)
    for c in cases[:3]:
        chk.sample({"edit": c[3], "position": c[4], "edited": c[5][:200]})

    # ---- decide
    for f in chk.findings:
        if f.get("status") == "known":
            pass   # C10 has no known findings on the unchanged tree
    for f in fails[:20]:
        chk.violation("failing-input", f)
    if not fails:
        if corr_bad:
            chk.violation("correspondence-broken", {"theorem_or_tie": "Lex model vs lexer::lex", "cases": corr_bad[:10]}, no_input=True)
        if not res["proofs_ok"] or not res["tie_ok"]:
            chk.violation("proof-broken", {"theorem_or_tie": res["broken"]}, no_input=True)


def replay(path):
    data = json.load(open(path))
    binary = vlib.build_harness("debug")
    for v in data["violations"]:
        d = v["detail"]
        if "edited" in d:
            a, b = real_ast(binary, [d["original"], d["edited"]], mode="astfull")
            print("edit %s at %s of %s" % (d["edit"], d["position"], d["subject"]))
            print("original ->", a[:2000])
            print("edited   ->", b[:2000])
            print("equal:", a == b)
        elif "cases" in d:
            for c in d["cases"]:
                r = real_lex(binary, [c["source"]])[0]
                m = vlib.coq_eval(REQ, "list N", RUN, [coq_src(c["source"])], tag="c10replay")[0]
                print(json.dumps(c), "\n real:", r, "\n model:", m, "\n ->", compare_model(c["source"], r, m))
        else:
            print(json.dumps(d, indent=1)[:4000])
    return 0
