"""C03 — ill-typed programs are rejected with a located diagnostic.

proof:   coq/C03/Props.v (Static.v = documented rules, Checker.v = executable model of the walker
         in check_stmt.rs / check_expr/*.rs with a switch per proposed fix; soundness of the fixed
         walker, located form by induction over contexts, refutation witnesses for the real one).
tie:     the model `events real` (evaluated by vm_compute inside coqc) vs the real
         lexer+parser+TypeChecker::check_with_imports on generated programs: same set of
         (diagnostic kind, span); the real parser's span tree is zipped with the generated tree
         (validates the renderer and that real spans nest like the model's ids).
oracle:  well-typed fragment programs x ONE local edit from the property's list x every context;
         the real checker must report an error whose span lies inside the edited construct; the
         unedited program must be accepted.  Failures must fall in a listed known class, decided
         by the model: the class's fix switch (and no smaller set) makes the model report an
         error inside the construct.  elif-unchecked and guard-unchecked are repaired in /repo: the
         faithful model has those switches on, so a regression shows up as a failing input.
decl:    coq/C03/Decls.v + PropsDecls.v: model of the two declaration passes (collect.rs / check_decl.rs) and of
         constructor calls, proved sound and exact against the documented adoption / constructor rules on [strict]
         programs; tie = same (kind, span) set on generated declaration sets; direct oracle = this script's own
         order-free reading of the rule on every adoption / extends / constructor call.  A miss on which model and
         implementation agree lies (by the theorems) outside [strict]: it is attributed to the class flags that are off."""
import copy
import itertools
import json
import os

import vlib

# ----------------------------------------------------------------------------------------------
# types (python side): ("int",) ("bool",) ("str",) ("unit",) ("named", n) ("opt", t) ("res", t, e) ("unk",)
INT, BOOL, STR, UNIT, UNK = ("int",), ("bool",), ("str",), ("unit",), ("unk",)

KINDS = ["unknown", "mismatch", "fieldmismatch", "immutable", "try-nonresult", "try-errtype", "nonexhaustive",
         "missingfield", "dupfield", "nofield", "positional", "arg", "tryfn", "pattern", "ghost"]
FIXES = ["elif", "guard", "outer", "args", "tryfn", "arith", "pat", "deps"]     # order of Build_fixes
REAL = ("elif", "guard")      # switches that are ON in the faithful model `real` (repaired in /repo)
OPEN = [f for f in FIXES if f not in REAL]
FIX_FINDING = {"elif": "elif-unchecked", "guard": "guard-unchecked", "outer": "nested-reassign", "args": "arg-unchecked",
               "tryfn": "try-in-nonresult-fn", "arith": "operand-unchecked", "pat": "pattern-unchecked", "deps": "deps-unchecked"}


def msg_kind(m):
    table = [("Unknown symbol", 0), ("Type mismatch", 1), ("Cannot assign", 2), ("Cannot mutate", 3),
             ("Cannot use '?' on type", 4), ("Cannot use '?' here", 5), ("Non-exhaustive match", 6),
             ("Missing required field", 7), ("Duplicate constructor argument", 8), ("has no field", 9),
             ("ositional", 10)]
    for k, v in table:
        if k in m:
            return v
    return 99


def ty_src(t):
    k = t[0]
    if k == "int":
        return "int"
    if k == "bool":
        return "bool"
    if k == "str":
        return "str"
    if k == "unit":
        return "None"
    if k == "named":
        return t[1]
    if k == "opt":
        return "Option[%s]" % ty_src(t[1])
    if k == "res":
        return "Result[%s, %s]" % (ty_src(t[1]), ty_src(t[2]))
    raise ValueError(t)


def name_n(s):
    """numeric part of a rendered name: v12 -> 12, fn3 -> 3, M1 -> 1, E2 -> 2, K4 -> 4, a7 -> 7"""
    return int("".join(ch for ch in s if ch.isdigit()))


def ty_coq(t):
    k = t[0]
    if k in ("int", "bool", "str", "unit", "unk"):
        return {"int": "TInt", "bool": "TBool", "str": "TStr", "unit": "TUnit", "unk": "TUnk"}[k]
    if k == "named":
        # enums and models share TNamed; keep them apart numerically: models 100+n
        return "(TNamed %d)" % tn(t[1])
    if k == "opt":
        return "(TOpt %s)" % ty_coq(t[1])
    if k == "res":
        return "(TRes %s %s)" % (ty_coq(t[1]), ty_coq(t[2]))
    raise ValueError(t)


def tn(n):
    """Coq number of a type name (models and enums live in one TNamed space)"""
    return name_n(n) + (100 if n.startswith("M") else 0)


# ----------------------------------------------------------------------------------------------
# AST nodes are dicts {"t": tag, "i": id, ...}; ids are allocated by a Builder.

class Builder:
    def __init__(self, start=1):
        self.next = start

    def id(self):
        self.next += 1
        return self.next - 1


def E(_bld, _t, **kw):
    d = {"t": _t, "i": _bld.id()}
    d.update(kw)
    if _t in ("call", "ctor"):
        d["ci"] = _bld.id()
    if _t == "variant":
        d["bi"] = _bld.id()
    return d


def S(_bld, _t, **kw):
    d = {"t": _t, "i": _bld.id()}
    d.update(kw)
    if _t == "match":
        d["mi"] = _bld.id()
    return d


# ---- rendering to Incan source ---------------------------------------------------------------
ARITH = {"Add": "+", "Sub": "-", "Mul": "*", "FloorDiv": "//", "Mod": "%"}


def atom(e):
    return e["t"] in ("lit", "var", "call", "print", "ctor", "variant", "field", "some", "ok", "err")


def esrc(e, top=True):
    t = e["t"]
    if t == "lit":
        k, v = e["l"]
        if k == "int":
            return str(v)
        if k == "bool":
            return "true" if v else "false"
        if k == "str":
            return '"s%d"' % v
        return "None"
    if t == "var":
        return e["x"]
    if t == "un":
        inner = esrc(e["a"], False)
        s = ("-" if e["o"] == "Neg" else "not ") + inner
        return s if top else "(" + s + ")"
    if t == "bin":
        a, b_ = esrc(e["a"], False), esrc(e["b"], False)
        op = ARITH[e["o"][1]] if e["o"][0] == "arith" else e["o"][1]
        s = "%s %s %s" % (a, op, b_)
        return s if top else "(" + s + ")"
    if t in ("call", "print", "ctor"):
        f = "println" if t == "print" else e["f"]
        return "%s(%s)" % (f, ", ".join(("%s=%s" % (n, esrc(a)) if n else esrc(a)) for n, a in e["xs"]))
    if t == "variant":
        return "%s.%s" % (e["en"], e["v"])
    if t == "field":
        return "%s.%s" % (esrc(e["a"], False), e["fld"])
    if t == "try":
        return esrc(e["a"], False) + "?"
    if t in ("some", "ok", "err"):
        return "%s(%s)" % ({"some": "Some", "ok": "Ok", "err": "Err"}[t], esrc(e["a"]))
    raise ValueError(t)


def psrc(p):
    k = p[0]
    if k == "wild":
        return "_"
    if k == "variant":
        return "%s.%s" % (p[1], p[2])
    if k == "none":
        return "None"
    return "%s(%s)" % ({"some": "Some", "ok": "Ok", "err": "Err"}[k], p[1] or "_")


def bsrc(block, ind, out):
    if not block:
        out.append(" " * ind + "pass")
    for s in block:
        ssrc(s, ind, out)


def ssrc(s, ind, out):
    t = s["t"]
    pad = " " * ind
    if t == "assign":
        kw = {"plain": "", "let": "let ", "mut": "mut "}[s["k"]]
        ann = (": " + ty_src(s["ann"])) if s["ann"] else ""
        out.append("%s%s%s%s = %s" % (pad, kw, s["x"], ann, esrc(s["e"])))
    elif t == "compound":
        out.append("%s%s %s= %s" % (pad, s["x"], ARITH[s["o"]], esrc(s["e"])))
    elif t == "if":
        out.append("%sif %s:" % (pad, esrc(s["c"])))
        bsrc(s["th"], ind + 4, out)
        for c, b in s["el"]:
            out.append("%selif %s:" % (pad, esrc(c)))
            bsrc(b, ind + 4, out)
        if s["els"] is not None:
            out.append("%selse:" % pad)
            bsrc(s["els"], ind + 4, out)
    elif t == "while":
        out.append("%swhile %s:" % (pad, esrc(s["c"])))
        bsrc(s["b"], ind + 4, out)
    elif t == "for":
        out.append("%sfor %s in range(%s):" % (pad, s["x"], esrc(s["e"])))
        bsrc(s["b"], ind + 4, out)
    elif t == "return":
        out.append(pad + ("return " + esrc(s["e"]) if s["e"] else "return"))
    elif t == "expr":
        out.append(pad + esrc(s["e"]))
    elif t == "match":
        out.append("%smatch %s:" % (pad, esrc(s["e"])))
        for arm in s["ar"]:
            g = (" if " + esrc(arm["g"])) if arm["g"] else ""
            out.append("%s    case %s%s:" % (pad, psrc(arm["p"]), g))
            bsrc(arm["b"], ind + 8, out)
    else:
        raise ValueError(t)


def prog_src(p, pub=False, header=""):
    out = []
    if header:
        out.append(header)
        out.append("")
    pre = "pub " if pub else ""
    for en, vs in p["enums"]:
        out.append("%senum %s:" % (pre, en))
        for v in vs:
            out.append("    " + v)
        out.append("")
    for m, flds in p["models"]:
        out.append("%smodel %s:" % (pre, m))
        for f, t in flds:
            out.append("    %s: %s" % (f, ty_src(t)))
        out.append("")
    for f in p["funs"]:
        out.append("%sdef %s(%s) -> %s:" % (pre, f["name"], ", ".join("%s: %s" % (n, ty_src(t)) for n, t in f["params"]), ty_src(f["ret"])))
        bsrc(f["body"], 4, out)
        out.append("")
    return "\n".join(out) + "\n"


# ---- rendering to Gallina ---------------------------------------------------------------------
def ecoq(e):
    t = e["t"]
    i = e["i"]
    if t == "lit":
        k, v = e["l"]
        l = {"int": "(LInt %s)" % vlib.zlit(v) if k == "int" else "", "bool": "(LBool %s)" % ("true" if v else "false"),
             "str": "(LStr %s)" % v, "none": "LNone"}[k]
        return "(ELit %d %s)" % (i, l)
    if t == "var":
        return "(EVar %d %d)" % (i, name_n(e["x"]))
    if t == "un":
        return "(EUn %d %s %s)" % (i, e["o"], ecoq(e["a"]))
    if t == "bin":
        o = "(BArith %s)" % e["o"][1] if e["o"][0] == "arith" else ("BCmp" if e["o"][0] == "cmp" else "BLogic")
        return "(EBin %d %s %s %s)" % (i, o, ecoq(e["a"]), ecoq(e["b"]))
    if t == "call":
        return "(ECall %d %d %d %s)" % (i, e["ci"], name_n(e["f"]), acoq(e["xs"]))
    if t == "print":
        return "(EPrint %d %s)" % (i, acoq(e["xs"]))
    if t == "ctor":
        return "(ECtor %d %d %d %s)" % (i, e["ci"], tn(e["f"]), acoq(e["xs"]))
    if t == "variant":
        return "(EVariant %d %d %d %d)" % (i, e["bi"], tn(e["en"]), name_n(e["v"]))
    if t == "field":
        return "(EField %d %s %d)" % (i, ecoq(e["a"]), name_n(e["fld"]))
    if t in ("try", "some", "ok", "err"):
        return "(%s %d %s)" % ({"try": "ETry", "some": "ESome", "ok": "EOk", "err": "EErr"}[t], i, ecoq(e["a"]))
    raise ValueError(t)


def acoq(xs):
    s = "ANil"
    for n, a in reversed(xs):
        s = "(ACons %s %s %s)" % ("(Some %d)" % name_n(n) if n else "None", ecoq(a), s)
    return s


def pcoq(p):
    k = p[0]
    if k == "wild":
        return "PWild"
    if k == "variant":
        return "(PVariant %d %d)" % (tn(p[1]), name_n(p[2]))
    if k == "none":
        return "PNone"
    return "(%s %s)" % ({"some": "PSome", "ok": "POk", "err": "PErr"}[k], "(Some %d)" % name_n(p[1]) if p[1] else "None")


def bcoq(b):
    s = "BNil"
    for st in reversed(b):
        s = "(BCons %s %s)" % (scoq(st), s)
    return s


def scoq(s):
    t, i = s["t"], s["i"]
    if t == "assign":
        return "(SAssign %d %s %d %s %s)" % (i, {"plain": "BPlain", "let": "BLet", "mut": "BMut"}[s["k"]], name_n(s["x"]),
                                             "(Some %s)" % ty_coq(s["ann"]) if s["ann"] else "None", ecoq(s["e"]))
    if t == "compound":
        return "(SCompound %d %d %s %s)" % (i, name_n(s["x"]), s["o"], ecoq(s["e"]))
    if t == "if":
        el = "LNil"
        for c, b in reversed(s["el"]):
            el = "(LCons %s %s %s)" % (ecoq(c), bcoq(b), el)
        els = "ONone" if s["els"] is None else "(OSome %s)" % bcoq(s["els"])
        return "(SIf %d %s %s %s %s)" % (i, ecoq(s["c"]), bcoq(s["th"]), el, els)
    if t == "while":
        return "(SWhile %d %s %s)" % (i, ecoq(s["c"]), bcoq(s["b"]))
    if t == "for":
        return "(SFor %d %d %s %s)" % (i, name_n(s["x"]), ecoq(s["e"]), bcoq(s["b"]))
    if t == "return":
        return "(SReturn %d %s)" % (i, "(Some %s)" % ecoq(s["e"]) if s["e"] else "None")
    if t == "expr":
        return "(SExpr %d %s)" % (i, ecoq(s["e"]))
    if t == "match":
        ar = "MNil"
        for arm in reversed(s["ar"]):
            ar = "(MCons %d %s %s %s %s)" % (arm["pi"], pcoq(arm["p"]), "(Some %s)" % ecoq(arm["g"]) if arm["g"] else "None", bcoq(arm["b"]), ar)
        return "(SMatch %d %d %s %s)" % (i, s["mi"], ecoq(s["e"]), ar)
    raise ValueError(t)


def prog_coq(p):
    en = "[" + "; ".join("(%d, [%s])" % (tn(n), "; ".join(str(name_n(v)) for v in vs)) for n, vs in p["enums"]) + "]"
    mo = "[" + "; ".join("(%d, [%s])" % (tn(n), "; ".join("(%d, %s)" % (name_n(f), ty_coq(t)) for f, t in fl)) for n, fl in p["models"]) + "]"
    fs = "[" + "; ".join("(Build_fdecl %d [%s] %s %s)" % (name_n(f["name"]), "; ".join("(%d, %s)" % (name_n(n), ty_coq(t)) for n, t in f["params"]),
                                                          ty_coq(f["ret"]), bcoq(f["body"])) for f in p["funs"]) + "]"
    return "(Build_program %s %s %s)" % (en, mo, fs)


def project_coq(deps, main):
    return "(Build_project [%s] %s)" % ("; ".join(prog_coq(d) for d in deps), prog_coq(main))


# ---- zipping the generated tree with the real parser's span tree -------------------------------
class ZipError(Exception):
    pass


def unparen(r):
    while r["k"] == "paren":
        r = r["c"][0]
    return r


def zexpr(e, r, sp):
    r = unparen(r)
    t = e["t"]
    want = {"lit": "lit", "var": "ident", "un": "unary", "bin": "binary", "call": "call", "print": "call", "ctor": "call",
            "variant": "field", "field": "field", "try": "try", "some": "call", "ok": "call", "err": "call"}[t]
    if r["k"] != want:
        raise ZipError("expected %s for %s, got %s at %d" % (want, t, r["k"], r["s"]))
    sp[e["i"]] = (r["s"], r["e"])
    if t in ("un", "field", "try"):
        zexpr(e["a"], r["c"][0], sp)
    elif t == "bin":
        zexpr(e["a"], r["c"][0], sp)
        zexpr(e["b"], r["c"][1], sp)
    elif t in ("call", "print", "ctor"):
        callee = r["c"][0]
        if t != "print":
            sp[e["ci"]] = (callee["s"], callee["e"])
        if len(r["c"]) - 1 != len(e["xs"]):
            raise ZipError("argument count")
        for (n, a), ra in zip(e["xs"], r["c"][1:]):
            if n:
                if ra["k"] != "named" or ra.get("n") != n:
                    raise ZipError("named argument")
                ra = ra["c"][0]
            zexpr(a, ra, sp)
    elif t == "variant":
        b = unparen(r["c"][0])
        if b["k"] != "ident" or r.get("n") != e["v"]:
            raise ZipError("variant")
        sp[e["bi"]] = (b["s"], b["e"])
    elif t in ("some", "ok", "err"):
        zexpr(e["a"], r["c"][1], sp)


def zblock(b, rs, sp):
    rs = [x for x in rs if x["k"] != "pass"]
    if len(b) != len(rs):
        raise ZipError("block length %d vs %d" % (len(b), len(rs)))
    for s, r in zip(b, rs):
        zstmt(s, r, sp)


def zstmt(s, r, sp):
    t = s["t"]
    sp[s["i"]] = (r["s"], r["e"])
    if t == "assign":
        want = {"plain": "assign", "let": "let", "mut": "mut"}[s["k"]]
        if r["k"] != want or r.get("n") != s["x"] + (":" if s["ann"] else ""):
            raise ZipError("assign %s/%s" % (r["k"], r.get("n")))
        zexpr(s["e"], r["c"][0], sp)
    elif t == "compound":
        if r["k"] != "compound":
            raise ZipError("compound")
        zexpr(s["e"], r["c"][0], sp)
    elif t == "if":
        if r["k"] != "if":
            raise ZipError("if")
        zexpr(s["c"], r["c"][0], sp)
        zblock(s["th"], r["c"][1]["c"], sp)
        rest = r["c"][2:]
        elifs = [x for x in rest if x["k"] == "elif"]
        elses = [x for x in rest if x["k"] == "else"]
        if len(elifs) != len(s["el"]) or (len(elses) == 1) != (s["els"] is not None):
            raise ZipError("elif/else shape")
        for (c, b), re_ in zip(s["el"], elifs):
            zexpr(c, re_["c"][0], sp)
            zblock(b, re_["c"][1]["c"], sp)
        if s["els"] is not None:
            zblock(s["els"], elses[0]["c"], sp)
    elif t in ("while", "for"):
        if r["k"] != t:
            raise ZipError(t)
        if t == "for":
            call = unparen(r["c"][0])
            if call["k"] != "call" or call["c"][0].get("n") != "range":
                raise ZipError("range")
            zexpr(s["e"], call["c"][1], sp)
        else:
            zexpr(s["c"], r["c"][0], sp)
        zblock(s["b"], r["c"][1]["c"], sp)
    elif t == "return":
        if r["k"] != "return" or (len(r["c"]) == 1) != (s["e"] is not None):
            raise ZipError("return")
        if s["e"]:
            zexpr(s["e"], r["c"][0], sp)
    elif t == "expr":
        if r["k"] != "exprstmt":
            raise ZipError("exprstmt")
        zexpr(s["e"], r["c"][0], sp)
    elif t == "match":
        if r["k"] != "exprstmt" or r["c"][0]["k"] != "match":
            raise ZipError("match")
        m = r["c"][0]
        sp[s["mi"]] = (m["s"], m["e"])
        zexpr(s["e"], m["c"][0], sp)
        arms = m["c"][1:]
        if len(arms) != len(s["ar"]):
            raise ZipError("arms")
        for arm, ra in zip(s["ar"], arms):
            pat = ra["c"][0]
            sp[arm["pi"]] = (pat["s"], pat["e"])
            rest = ra["c"][1:]
            if arm["g"]:
                if rest[0]["k"] != "guard":
                    raise ZipError("guard")
                zexpr(arm["g"], rest[0]["c"][0], sp)
                rest = rest[1:]
            if rest[0]["k"] != "armblock":
                raise ZipError("armblock")
            zblock(arm["b"], rest[0]["c"], sp)


def zprog(p, tree):
    sp = {}
    fns = [d for d in tree if d["k"] == "fn"]
    if [d["n"] for d in fns] != [f["name"] for f in p["funs"]]:
        raise ZipError("functions")
    for f, d in zip(p["funs"], fns):
        zblock(f["body"], d["c"], sp)
    return sp


def nesting_ok(p, sp):
    """real spans nest like the ids: child span within parent span, for every statement/expression"""
    bad = []

    def inside(a, b):
        return b[0] <= a[0] and a[1] <= b[1]

    def ex(e, parent):
        me = sp[e["i"]]
        if parent and not inside(me, parent):
            bad.append(e["i"])
        for k in ("a", "b"):
            if k in e and isinstance(e[k], dict):
                ex(e[k], me)
        for _, a in e.get("xs", []):
            ex(a, me)

    def bl(b, parent):
        for s in b:
            st(s, parent)

    def st(s, parent):
        me = sp[s["i"]]
        if parent and not inside(me, parent):
            bad.append(s["i"])
        for k in ("e", "c"):
            if s.get(k):
                ex(s[k], me)
        for k in ("th", "els", "b"):
            if s.get(k):
                bl(s[k], me)
        for c, b in s.get("el", []):
            ex(c, me)
            bl(b, me)
        for arm in s.get("ar", []):
            if arm["g"]:
                ex(arm["g"], me)
            bl(arm["b"], me)

    for f in p["funs"]:
        bl(f["body"], None)
    return bad


# ----------------------------------------------------------------------------------------------
# generator of well-typed programs

ENUMS = [("E1", ["K1", "K2", "K3"]), ("E2", ["K4", "K5"])]
MODELS = [("M1", [("a1", INT), ("a2", STR)]), ("M2", [("a3", INT)])]
RES_S = ("res", INT, STR)
RES_I = ("res", INT, INT)
FUNS_SIG = {"fn1": ([INT, STR], INT), "fn2": ([INT], RES_S), "fn3": ([INT], RES_I), "fn4": ([("named", "E1")], BOOL),
            "fn5": ([("opt", INT)], INT)}


RANDOM_FUNS = ["fn9", "fn10", "fn11"]


class Gen:
    def __init__(self, rng, b):
        self.rng = rng
        self.b = b
        self.vn = 10
        self.sites = []      # (edit kind, node id, context path, extra)
        self.ret = UNIT

    POOL = ["v%d" % i for i in range(1, 9)]

    def fresh(self, env=None, shadow_ok=False):
        """a variable name: drawn from a SMALL pool shared by all functions and blocks, so that the same name
        is mutable here and immutable there, int here and str there, parameter / local / loop variable / pattern
        binder in turn.  shadow_ok (let / mut only): a name bound in an ENCLOSING scope may be shadowed."""
        if env is not None:
            vis = self.visible(env)
            cands = [n for n in self.POOL if n not in env[-1] and (n not in vis or (shadow_ok and self.rng.random() < 0.5))]
            if cands:
                return self.rng.choice(cands)
        self.vn += 1
        return "v%d" % self.vn

    # env: list of scopes (innermost last); scope = dict name -> [ty, mutable, poisoned]
    def visible(self, env):
        out = {}
        for sc in env:
            out.update(sc)
        return out

    def vars_of(self, env, t, mutable=None, local_only=False):
        src = env[-1] if local_only else self.visible(env)
        return [n for n, v in src.items() if v[0] == t and (mutable is None or v[1] == mutable)]

    def lit(self, t):
        r = self.rng
        if t == INT:
            return E(self.b, "lit", l=("int", r.randint(0, 9)))
        if t == BOOL:
            return E(self.b, "lit", l=("bool", r.random() < 0.5))
        if t == STR:
            return E(self.b, "lit", l=("str", r.randint(1, 5)))
        raise ValueError(t)

    def expr(self, env, t, depth, ng=False):
        """well-typed expression of type t; ng: a not fully determined type (None, Err(..)) is acceptable here"""
        r = self.rng
        b = self.b
        k = t[0]
        vs = self.vars_of(env, t)
        if vs and r.random() < (0.45 if depth > 0 else 0.7):
            return E(b, "var", x=r.choice(vs))
        if k == "int":
            c = r.random()
            if depth <= 0 or c < 0.25:
                return self.lit(INT)
            if c < 0.5:
                return E(b, "bin", o=("arith", r.choice(list(ARITH))), a=self.expr(env, INT, depth - 1), b=self.expr(env, INT, depth - 1))
            if c < 0.58:
                return E(b, "un", o="Neg", a=self.expr(env, INT, depth - 1))
            if c < 0.72:
                return E(b, "call", f="fn1", xs=[(None, self.expr(env, INT, depth - 1)), (None, self.expr(env, STR, depth - 1))])
            if c < 0.8:
                return E(b, "call", f="fn5", xs=[(None, self.expr(env, ("opt", INT), depth - 1, ng=True))])
            if c < 0.9:
                ms = self.vars_of(env, ("named", "M1"))
                base = E(b, "var", x=r.choice(ms)) if ms else self.expr(env, ("named", "M1"), depth - 1)
                return E(b, "field", a=base, fld="a1")
            if self.ret == RES_S:
                return E(b, "try", a=E(b, "call", f="fn2", xs=[(None, self.expr(env, INT, depth - 1))]))
            return self.lit(INT)
        if k == "bool":
            c = r.random()
            if depth <= 0 or c < 0.2:
                return self.lit(BOOL)
            if c < 0.55:
                tt = r.choice([INT, INT, STR, BOOL, ("named", "E1")])
                op = r.choice(["==", "!=", "<", "<=", ">", ">="]) if tt == INT else r.choice(["==", "!="])
                return E(b, "bin", o=("cmp", op), a=self.expr(env, tt, depth - 1), b=self.expr(env, tt, depth - 1))
            if c < 0.7:
                return E(b, "bin", o=("logic", r.choice(["and", "or"])), a=self.expr(env, BOOL, depth - 1), b=self.expr(env, BOOL, depth - 1))
            if c < 0.8:
                return E(b, "un", o="Not", a=self.expr(env, BOOL, depth - 1))
            return E(b, "call", f="fn4", xs=[(None, self.expr(env, ("named", "E1"), depth - 1))])
        if k == "str":
            c = r.random()
            if depth <= 0 or c < 0.5:
                return self.lit(STR)
            if c < 0.8:
                return E(b, "bin", o=("arith", "Add"), a=self.expr(env, STR, depth - 1), b=self.expr(env, STR, depth - 1))
            ms = self.vars_of(env, ("named", "M1"))
            if ms:
                return E(b, "field", a=E(b, "var", x=r.choice(ms)), fld="a2")
            return self.lit(STR)
        if k == "named":
            if t[1].startswith("E"):
                vsn = dict(ENUMS)[t[1]]
                return E(b, "variant", en=t[1], v=r.choice(vsn))
            flds = dict(MODELS)[t[1]]
            xs = [(f, self.expr(env, ft, depth - 1)) for f, ft in flds]
            if r.random() < 0.3:
                r.shuffle(xs)
            return E(b, "ctor", f=t[1], xs=xs)
        if k == "opt":
            if ng and r.random() < 0.35:
                return E(b, "lit", l=("none", None))
            return E(b, "some", a=self.expr(env, t[1], depth - 1))
        if k == "res":
            if t == RES_S and r.random() < 0.5:
                return E(b, "call", f="fn2", xs=[(None, self.expr(env, INT, depth - 1))])
            if t == RES_I and r.random() < 0.5:
                return E(b, "call", f="fn3", xs=[(None, self.expr(env, INT, depth - 1))])
            if ng and r.random() < 0.4:
                return E(b, "err", a=self.expr(env, t[2], depth - 1))
            # Ok(e) takes the enclosing function's error type (or an undetermined one outside a Result function)
            if (self.ret[0] == "res" and self.ret[2] == t[2]) or (self.ret[0] != "res" and ng):
                return E(b, "ok", a=self.expr(env, t[1], depth - 1))
            return E(b, "call", f="fn2" if t == RES_S else "fn3", xs=[(None, self.expr(env, INT, depth - 1))])
        raise ValueError(t)

    def rand_ty(self):
        return self.rng.choice([INT, INT, INT, BOOL, STR, ("named", "E1"), ("named", "M1"), ("opt", INT), RES_S])

    def poisoned(self, env, x):
        for sc in reversed(env):
            if x in sc:
                return sc[x][2]
        return False

    def stmts(self, env, depth, n, ctx):
        out = []
        for _ in range(n):
            out.append(self.stmt(env, depth, ctx))
        return out

    def block(self, env, depth, ctx, binds=None):
        env2 = env + [dict(binds or {})]
        n = self.rng.randint(1, 3 if depth > 0 else 2)
        return self.stmts(env2, depth, n, ctx)

    def stmt(self, env, depth, ctx):
        r = self.rng
        b = self.b
        c = r.random()
        if c < 0.30 or depth <= 0 and c < 0.5:
            t = self.rand_ty()
            k = r.choice(["plain", "let", "mut", "mut"])
            x = self.fresh(env, shadow_ok=(k != "plain"))
            annotated = r.random() < 0.4
            e = self.expr(env, t, 2, ng=annotated)
            env[-1][x] = [t, k == "mut", False]
            return S(b, "assign", k=k, x=x, ann=t if annotated else None, e=e)
        if c < 0.42:
            # reassignment of a mutable variable (local, or an outer one: then the name is "poisoned" for this block)
            cands = [(n, v) for n, v in self.visible(env).items() if v[1] and not self.poisoned(env, n)]
            if cands:
                x, v = r.choice(cands)
                st = S(b, "assign", k="plain", x=x, ann=None, e=self.expr(env, v[0], 2, ng=True))
                if x not in env[-1]:
                    env[-1][x] = [v[0], False, True]
                return st
        if c < 0.50:
            cands = [n for n, v in self.visible(env).items() if v[1] and v[0] in (INT, STR) and not self.poisoned(env, n)]
            if cands:
                x = r.choice(cands)
                t = self.visible(env)[x][0]
                return S(b, "compound", x=x, o="Add" if t == STR else r.choice(list(ARITH)), e=self.expr(env, t, 1))
        if c < 0.60:
            return S(b, "expr", e=E(b, "print", xs=[(None, self.expr(env, r.choice([INT, STR, BOOL]), 2))]))
        if c < 0.66:
            if self.ret == UNIT:
                return S(b, "return", e=None)
            return S(b, "return", e=self.expr(env, self.ret, 2, ng=True))
        if depth <= 0:
            return S(b, "expr", e=E(b, "print", xs=[(None, self.expr(env, INT, 1))]))
        if c < 0.80:
            el = []
            for _ in range(r.choice([0, 0, 1, 1, 2])):
                el.append((self.expr(env, BOOL, 2), self.block(env, depth - 1, ctx + ["elif"])))
            return S(b, "if", c=self.expr(env, BOOL, 2), th=self.block(env, depth - 1, ctx + ["then"]), el=el,
                     els=self.block(env, depth - 1, ctx + ["else"]) if r.random() < 0.6 else None)
        if c < 0.86:
            return S(b, "while", c=self.expr(env, BOOL, 2), b=self.block(env, depth - 1, ctx + ["while"]))
        if c < 0.91:
            x = self.fresh(env)
            return S(b, "for", x=x, e=self.expr(env, INT, 1), b=self.block(env, depth - 1, ctx + ["for"], {x: [INT, False, False]}))
        return self.match(env, depth, ctx)

    def match(self, env, depth, ctx):
        r = self.rng
        b = self.b
        kind = r.choice(["enum", "enum", "opt", "res"])
        arms = []

        def arm(p, binds=None):
            env2 = env + [dict(binds or {})]
            g = self.expr(env2, BOOL, 2) if r.random() < 0.3 else None
            body = self.stmts(env2, depth - 1, r.randint(1, 2), ctx + ["arm"])
            arms.append({"pi": b.id(), "p": p, "g": g, "b": body})

        def reps():
            """how many arms a variant gets: often several (guards / `_` / binder sub-patterns make them differ)"""
            return r.choice([1, 1, 2, 2, 3])

        if kind == "enum":
            subj = self.expr(env, ("named", "E1"), 0)
            if subj["t"] != "var":
                vs = self.vars_of(env, ("named", "E1"))
                subj = E(b, "var", x=r.choice(vs)) if vs else subj
            names = list(dict(ENUMS)["E1"])
            r.shuffle(names)
            wild = r.random() < 0.3
            specs = []
            for v in (names[:r.randint(1, 2)] if wild else names):
                specs.extend([("variant", "E1", v)] * reps())
            if r.random() < 0.5:
                r.shuffle(specs)
            for p in specs:
                arm(p)
            if wild:
                arm(("wild",))
        elif kind == "opt":
            vs = self.vars_of(env, ("opt", INT))
            subj = E(b, "var", x=r.choice(vs)) if vs else E(b, "some", a=self.expr(env, INT, 1))
            specs = [("some",)] * reps() + [("none",)] * r.choice([1, 1, 1, 2])
            r.shuffle(specs)
            for p in specs:
                if p[0] == "some":
                    x = self.fresh(env)
                    bind = r.random() < 0.7
                    arm(("some", x if bind else None), {x: [INT, False, False]} if bind else None)
                else:
                    arm(("none",))
        else:
            subj = E(b, "call", f="fn2", xs=[(None, self.expr(env, INT, 1))])
            wild = r.random() < 0.25
            specs = [("ok",)] * reps() + ([] if wild else [("err",)] * reps())
            if r.random() < 0.5:
                r.shuffle(specs)
            for p in specs:
                x = self.fresh(env)
                bind = r.random() < 0.7
                arm((p[0], x if bind else None), {x: [INT if p[0] == "ok" else STR, False, False]} if bind else None)
            if wild:
                arm(("wild",))
        return S(b, "match", e=subj, ar=arms)

    def program(self):
        r = self.rng
        b = self.b
        funs = []
        v = lambda n: E(b, "var", x=n)
        funs.append({"name": "fn1", "params": [("v1", INT), ("v2", STR)], "ret": INT, "body": [S(b, "return", e=v("v1"))]})
        funs.append({"name": "fn2", "params": [("v1", INT)], "ret": RES_S, "body": [S(b, "return", e=E(b, "ok", a=v("v1")))]})
        funs.append({"name": "fn3", "params": [("v1", INT)], "ret": RES_I, "body": [S(b, "return", e=E(b, "ok", a=v("v1")))]})
        funs.append({"name": "fn4", "params": [("v1", ("named", "E1"))], "ret": BOOL,
                     "body": [S(b, "return", e=E(b, "bin", o=("cmp", "=="), a=v("v1"), b=E(b, "variant", en="E1", v="K1")))]})
        funs.append({"name": "fn5", "params": [("v1", ("opt", INT))], "ret": INT, "body": [S(b, "return", e=E(b, "lit", l=("int", 0)))]})
        # several generated functions over the same name pool; different return types (Result / not) in sequence
        rets = [r.choice([UNIT, INT, RES_S, RES_S, BOOL]), r.choice([UNIT, INT, RES_I, BOOL]), r.choice([RES_S, UNIT, INT])]
        r.shuffle(rets)
        for k, name in enumerate(RANDOM_FUNS):
            self.ret = rets[k]
            ptys = [INT, INT, STR, ("named", "E1"), ("named", "M1"), ("opt", INT), BOOL]
            r.shuffle(ptys)
            pnames = list(self.POOL)
            r.shuffle(pnames)
            params = list(zip(pnames, ptys))[:r.randint(1, 4)]
            env = [{n: [t, False, False] for n, t in params}]
            body = self.stmts(env, 3 if k == 0 else 2, r.randint(3, 5) if k == 0 else r.randint(2, 4), ["fn"])
            funs.append({"name": name, "params": params, "ret": self.ret, "body": body})
        r.shuffle(funs)
        return {"enums": ENUMS, "models": MODELS, "funs": funs}


# ----------------------------------------------------------------------------------------------
# walking a program with contexts and environments (python mirror of the DOCUMENTED scoping, used
# only to choose edit sites; the verdicts come from the real checker and from the Coq model)

def walk(p, fn_name="fn9"):
    """yield (kind, node, ctx, env, ret) for statements ('stmt'), block insertion points ('slot', (block, index))
    and expressions ('expr', with the role of the expression in ctx[-1])."""
    out = []
    f = [x for x in p["funs"] if x["name"] == fn_name][0]
    ret = f["ret"]

    def vis(env):
        o = {}
        for sc in env:
            o.update(sc)
        return o

    def ex(e, ctx, env):
        out.append(("expr", e, ctx, vis(env), ret))
        for k in ("a", "b"):
            if isinstance(e.get(k), dict):
                ex(e[k], ctx, env)
        for _, a in e.get("xs", []):
            ex(a, ctx, env)

    def bl(b, ctx, env, binds=None):
        env = env + [dict(binds or {})]
        for idx, s in enumerate(b):
            out.append(("slot", (b, idx), ctx, (vis(env), dict(env[-1])), ret))
            st(s, ctx, env)
        out.append(("slot", (b, len(b)), ctx, (vis(env), dict(env[-1])), ret))

    def st(s, ctx, env):
        out.append(("stmt", s, ctx, vis(env), ret))
        t = s["t"]
        if t == "assign":
            ex(s["e"], ctx + ["init"], env)
            v = vis(env)
            if s["k"] != "plain" or s["x"] not in v:
                env[-1][s["x"]] = (s["ann"] or "?", s["k"] == "mut")
        elif t in ("compound", "expr"):
            ex(s["e"], ctx + ["operand"], env)
        elif t == "return":
            if s["e"]:
                ex(s["e"], ctx + ["retval"], env)
        elif t == "if":
            ex(s["c"], ctx + ["if-cond"], env)
            bl(s["th"], ctx + ["then"], env)
            for c, b in s["el"]:
                ex(c, ctx + ["elif-cond"], env)
                bl(b, ctx + ["elif"], env)
            if s["els"] is not None:
                bl(s["els"], ctx + ["else"], env)
        elif t == "while":
            ex(s["c"], ctx + ["while-cond"], env)
            bl(s["b"], ctx + ["while"], env)
        elif t == "for":
            ex(s["e"], ctx + ["range-arg"], env)
            bl(s["b"], ctx + ["for"], env, {s["x"]: (INT, False)})
        elif t == "match":
            ex(s["e"], ctx + ["subject"], env)
            for arm in s["ar"]:
                binds = {}
                p_ = arm["p"]
                if p_[0] in ("some", "ok") and p_[1]:
                    binds[p_[1]] = (INT, False)
                if p_[0] == "err" and p_[1]:
                    binds[p_[1]] = (STR, False)
                if arm["g"]:
                    ex(arm["g"], ctx + ["guard"], env + [binds])
                bl(arm["b"], ctx + ["arm"], env, binds)

    env0 = [{n: (t, False) for n, t in f["params"]}]
    # the function body shares the parameter scope
    for idx, s in enumerate(f["body"]):
        out.append(("slot", (f["body"], idx), ["fn"], (vis(env0), dict(env0[-1])), ret))
        st(s, ["fn"], env0)
    out.append(("slot", (f["body"], len(f["body"])), ["fn"], (vis(env0), dict(env0[-1])), ret))
    return out


def wrong_lit(b, t, rng):
    """a literal whose type is incompatible with t"""
    if t == INT:
        return E(b, "lit", l=rng.choice([("str", 7), ("bool", True)]))
    if t == STR:
        return E(b, "lit", l=rng.choice([("int", 7), ("bool", False)]))
    return E(b, "lit", l=rng.choice([("int", 7), ("str", 7)]))


def simple_expr(b, t, env_vis):
    vs = [n for n, v in env_vis.items() if v[0] == t]
    if vs:
        return E(b, "var", x=vs[0])
    if t == INT:
        return E(b, "lit", l=("int", 3))
    if t == STR:
        return E(b, "lit", l=("str", 3))
    if t == BOOL:
        return E(b, "lit", l=("bool", True))
    if t[0] == "opt":
        return E(b, "some", a=simple_expr(b, t[1], env_vis))
    if t[0] == "named" and t[1].startswith("E"):
        return E(b, "variant", en=t[1], v=dict(ENUMS)[t[1]][0])
    if t[0] == "named":
        return E(b, "ctor", f=t[1], xs=[(f, simple_expr(b, ft, env_vis)) for f, ft in dict(MODELS)[t[1]]])
    if t == RES_S:
        return E(b, "call", f="fn2", xs=[(None, E(b, "lit", l=("int", 1)))])
    if t == RES_I:
        return E(b, "call", f="fn3", xs=[(None, E(b, "lit", l=("int", 1)))])
    raise ValueError(t)


BLOCK_CTX = ("fn", "then", "elif", "else", "while", "for", "arm", "dep")


def pat_key(p):
    """the variant a pattern stands for"""
    return "variant:" + p[2] if p[0] == "variant" else p[0]


def ctx_key(ctx):
    blocks = [c for c in ctx if c in BLOCK_CTX]
    role = [c for c in ctx if c not in BLOCK_CTX]
    k = blocks[-1] if blocks else "fn"
    if blocks and blocks[0] == "dep":
        k = "dep:" + k
    if len(blocks) >= 2 and blocks[-2] != "dep" and blocks[-2] != "fn":
        k = "nested-" + k
    return k + ("/" + role[-1] if role else "")


def make_edits(p, rng, per_kind, quota):
    """list of (edit name, context path, edited program, construct id).  Each edit deep-copies the
    program, then mutates exactly one node / inserts exactly one statement."""
    sites = [x for fn in RANDOM_FUNS for x in walk(p, fn)]
    next_id = 1 + max_id(p)
    edits = []

    def apply(fn):
        q = copy.deepcopy(p)
        b = Builder(next_id)
        idx = {}
        index_nodes(q, idx)
        return q, b, idx

    by_kind = {}

    def add(kind, ctx, thunk):
        by_kind.setdefault((kind, ctx_key(ctx)), []).append((kind, ctx, thunk))

    for what, node, ctx, env, ret in sites:
        if what == "expr":
            e = node
            if e["t"] == "var":
                def th(e=e):
                    q, b, idx = apply(None)
                    idx[e["i"]]["x"] = "v999"
                    return q, e["i"]
                add("unknown-name", ctx, th)
            if e["t"] == "call" and e["f"] in FUNS_SIG and e["xs"]:
                def th(e=e):
                    q, b, idx = apply(None)
                    n = idx[e["i"]]
                    k = rng.randrange(len(n["xs"]))
                    n["xs"][k] = (None, wrong_lit(b, FUNS_SIG[e["f"]][0][k], rng))
                    return q, e["i"]
                add("wrong-arg-type", ctx, th)

                def th2(e=e):
                    q, b, idx = apply(None)
                    n = idx[e["i"]]
                    if rng.random() < 0.5:
                        n["xs"].pop()
                    else:
                        n["xs"].append((None, E(b, "lit", l=("int", 1))))
                    return q, e["i"]
                add("wrong-arg-count", ctx, th2)
            if e["t"] == "ctor":
                for mode in ("missing", "duplicate", "unknown-field", "field-type"):
                    def th(e=e, mode=mode):
                        q, b, idx = apply(None)
                        n = idx[e["i"]]
                        if mode == "missing":
                            n["xs"].pop(rng.randrange(len(n["xs"])))
                        elif mode == "duplicate":
                            f0, a0 = n["xs"][rng.randrange(len(n["xs"]))]
                            n["xs"].append((f0, simple_expr(b, dict(dict(MODELS)[e["f"]])[f0], {})))
                        elif mode == "unknown-field":
                            n["xs"].append(("a99", E(b, "lit", l=("int", 1))))
                        else:
                            k = rng.randrange(len(n["xs"]))
                            f0 = n["xs"][k][0]
                            n["xs"][k] = (f0, wrong_lit(b, dict(dict(MODELS)[e["f"]])[f0], rng))
                        return q, e["i"]
                    add("ctor-" + mode, ctx, th)
            if e["t"] == "try":
                def th(e=e):
                    q, b, idx = apply(None)
                    idx[e["i"]]["a"] = E(b, "lit", l=("int", 5))
                    return q, e["i"]
                add("try-non-result", ctx, th)

                def th2(e=e):
                    q, b, idx = apply(None)
                    idx[e["i"]]["a"] = E(b, "call", f="fn3", xs=[(None, E(b, "lit", l=("int", 5)))])
                    return q, e["i"]
                add("try-error-type", ctx, th2)
            if e["t"] in ("lit",) and e["l"][0] == "int" and ctx[-1] in ("init", "operand", "retval", "if-cond", "while-cond", "elif-cond", "guard", "range-arg", "subject"):
                # an int literal somewhere: turn it into `<result call>?` / `<int>?`
                if ret == RES_S:
                    def th(e=e):
                        q, b, idx = apply(None)
                        n = idx[e["i"]]
                        inner = E(b, "call", f="fn3", xs=[(None, E(b, "lit", l=("int", 2)))])
                        n.clear()
                        n.update(E(b, "try", a=inner))
                        return q, n["i"]
                    add("try-error-type", ctx, th)

                    def th3(e=e):
                        q, b, idx = apply(None)
                        n = idx[e["i"]]
                        n.clear()
                        n.update(E(b, "try", a=E(b, "lit", l=("int", 2))))
                        return q, n["i"]
                    add("try-non-result", ctx, th3)
                elif ret[0] != "res":
                    def th(e=e):
                        q, b, idx = apply(None)
                        n = idx[e["i"]]
                        inner = E(b, "call", f="fn2", xs=[(None, E(b, "lit", l=("int", 2)))])
                        n.clear()
                        n.update(E(b, "try", a=inner))
                        return q, n["i"]
                    add("try-in-non-result-fn", ctx, th)
        elif what == "stmt":
            s = node
            if s["t"] == "assign" and s["ann"] and s["ann"] in (INT, STR, BOOL, ("named", "E1"), ("named", "M1"), ("opt", INT), RES_S):
                def th(s=s):
                    q, b, idx = apply(None)
                    idx[s["i"]]["e"] = wrong_lit(b, s["ann"], rng)
                    return q, s["i"]
                add("wrong-type-annotated", ctx, th)
            if s["t"] == "assign" and s["k"] == "plain" and not s["ann"] and s["x"] in env and env[s["x"]][1] and env[s["x"]][0] != "?":
                def th(s=s, t=env[s["x"]][0]):
                    q, b, idx = apply(None)
                    idx[s["i"]]["e"] = wrong_lit(b, t, rng)
                    return q, s["i"]
                add("wrong-type-reassign", ctx, th)
            if s["t"] == "return":
                def th(s=s, ret=ret):
                    q, b, idx = apply(None)
                    idx[s["i"]]["e"] = wrong_lit(b, ret, rng) if ret != UNIT else E(b, "lit", l=("int", 1))
                    return q, s["i"]
                add("wrong-return", ctx, th)
            if s["t"] == "match":
                pats = [a["p"] for a in s["ar"]]
                keys = [pat_key(p_) for p_ in pats]
                if "wild" not in keys and len(set(keys)) >= 2:
                    nvar = 3 if keys[0].startswith("variant") else 2
                    for key in sorted(set(keys)):
                        left = len([k for k in keys if k != key])
                        # every arm of ONE variant removed; "repeated": still at least as many arms as variants
                        name = "match-missing-variant" + ("-repeated-arms" if left >= nvar else "")

                        def th(s=s, key=key):
                            q, b, idx = apply(None)
                            n = idx[s["i"]]
                            n["ar"] = [a for a in n["ar"] if pat_key(a["p"]) != key]
                            return q, s["i"]
                        add(name, ctx, th)
        elif what == "slot":
            blk, pos = node
            vis, local = env
            imm = [(n, v) for n, v in vis.items() if not v[1] and v[0] != "?" and v[0] in (INT, STR, BOOL, ("named", "E1"), ("opt", INT))]
            if imm:
                depth_local = [x for x in imm if x[0] in local]
                depth_outer = [x for x in imm if x[0] not in local]
                for tag, cands in (("same-scope", depth_local), ("enclosing-scope", depth_outer)):
                    if not cands:
                        continue

                    def th(blk=blk, pos=pos, cands=cands):
                        q, b, idx = apply(None)
                        x, v = cands[rng.randrange(len(cands))]
                        st = S(b, "assign", k="plain", x=x, ann=None, e=simple_expr(b, v[0], {}))
                        qb = find_block(q, p, blk)
                        qb.insert(pos, st)
                        return q, st["i"]
                    add("reassign-immutable-" + tag, ctx, th)
                    ints = [x for x in cands if x[1][0] == INT]
                    if ints:
                        def th2(blk=blk, pos=pos, ints=ints):
                            q, b, idx = apply(None)
                            x, v = ints[rng.randrange(len(ints))]
                            st = S(b, "compound", x=x, o="Add", e=E(b, "lit", l=("int", 1)))
                            find_block(q, p, blk).insert(pos, st)
                            return q, st["i"]
                        add("compound-immutable-" + tag, ctx, th2)
            # a statement using an unknown name / a wrong-typed declaration, inserted in this context
            def th3(blk=blk, pos=pos):
                q, b, idx = apply(None)
                st = S(b, "expr", e=E(b, "print", xs=[(None, E(b, "var", x="v998"))]))
                find_block(q, p, blk).insert(pos, st)
                return q, st["i"]
            add("unknown-name-stmt", ctx, th3)

            def th4(blk=blk, pos=pos):
                q, b, idx = apply(None)
                st = S(b, "assign", k="let", x="v997", ann=INT, e=E(b, "lit", l=("str", 1)))
                find_block(q, p, blk).insert(pos, st)
                return q, st["i"]
            add("wrong-type-annotated", ctx, th4)
    for key in sorted(by_kind):
        lst = by_kind[key]
        rng.shuffle(lst)
        have = quota.get(key, 0)
        for kind, ctx, thunk in lst[:max(0, per_kind - have)]:
            q, cid = thunk()
            edits.append((kind, ctx, q, cid))
            quota[key] = quota.get(key, 0) + 1
    return edits


def max_id(p):
    m = [0]

    def visit(o):
        if isinstance(o, dict):
            for k in ("i", "ci", "bi", "mi", "pi"):
                if k in o:
                    m[0] = max(m[0], o[k])
            for v in o.values():
                visit(v)
        elif isinstance(o, (list, tuple)):
            for v in o:
                visit(v)
    visit(p["funs"])
    return m[0]


def index_nodes(p, idx):
    def visit(o):
        if isinstance(o, dict):
            if "i" in o and "t" in o:
                idx[o["i"]] = o
            for v in o.values():
                visit(v)
        elif isinstance(o, (list, tuple)):
            for v in o:
                visit(v)
    visit(p["funs"])


def find_block(q, p, blk):
    """the copy in q of the block object blk of p (same position in the tree)"""
    path = []

    def search(o, acc):
        if o is blk:
            path.extend(acc)
            return True
        if isinstance(o, dict):
            for k, v in o.items():
                if search(v, acc + [k]):
                    return True
        elif isinstance(o, (list, tuple)):
            for k, v in enumerate(o):
                if search(v, acc + [k]):
                    return True
        return False
    if not search(p["funs"], []):
        raise KeyError("block")
    o = q["funs"]
    for k in path:
        o = o[k]
    return o


# ----------------------------------------------------------------------------------------------
# trait adoption (declaration level; real checker only — not part of the Coq fragment)

TRAIT_BASE = '''@requires(a1: int)
trait T1:
    def m1(self) -> int: ...

    def m2(self) -> int:
        return self.a1

model M1 with T1:
%s

def main() -> None:
    println(1)
'''


def trait_cases():
    ok_body = "    a1: int\n\n    def m1(self) -> int:\n        return 1"
    return [
        ("trait-ok", TRAIT_BASE % ok_body, None),
        ("trait-missing-method", TRAIT_BASE % "    a1: int\n    a5: str", "model M1"),
        ("trait-missing-requires-field", TRAIT_BASE % "    a5: int\n\n    def m1(self) -> int:\n        return 1", "model M1"),
        ("trait-requires-field-type", TRAIT_BASE % "    a1: str\n\n    def m1(self) -> int:\n        return 1", "model M1"),
    ]


# ----------------------------------------------------------------------------------------------
# checker STATE families (real checker only; constructs outside the Coq fragment).  One family per piece of
# state the TypeChecker carries across declarations / scopes: the verdict on the marked line must not depend
# on what was checked before it.  (name, source, marker line or None = must be accepted, known finding id or None)

STATE_PRE = """const K: int = 3

model M1:
    a1: int

@requires(a1: int)
trait T1:
    def m1(self) -> int: ...

    def m2(self) -> int:
        return self.a1

"""


def state_cases():
    P = STATE_PRE
    return [
        # mutable_bindings (name-keyed set) / symbol scopes: `n` is mut in f, immutable in g
        ("state-mutname-ok", P + "def f() -> int:\n    mut n = 1\n    n += 1\n    return n\n\ndef g() -> int:\n    mut n = 2\n    n -= 1\n    return n\n", None, None),
        ("state-mutname-param", P + "def f() -> int:\n    mut n = 1\n    n += 1\n    return n\n\ndef g(n: int) -> int:\n    n += 1\n    return n\n", "    n += 1\n    return n\n", None),
        ("state-mutname-forvar", P + "def f() -> int:\n    mut n = 1\n    return n\n\ndef g() -> None:\n    for n in range(3):\n        n *= 2\n", "        n *= 2", None),
        ("state-mutname-sibling-block", P + "def g(c: bool) -> None:\n    if c:\n        mut n = 1\n        n += 1\n    else:\n        let n = 2\n        n += 1\n", "        let n = 2\n        n += 1", None),
        ("state-mutname-method-self", P + "class C1:\n    a1: int\n\n    def bump(mut self) -> None:\n        self.a1 += 1\n\ndef g(n: int) -> None:\n    mut m = n\n    m += 1\n    n //= 2\n", "    n //= 2", None),
        # current_return_error_type / return type of the enclosing function
        ("state-errtype-after-result-fn", P + "def a() -> Result[int, str]:\n    return Ok(1)\n\ndef b() -> Result[int, int]:\n    x = a()?\n    return Ok(x)\n", "    x = a()?", None),
        ("state-return-after-result-fn", P + "def a() -> Result[int, str]:\n    return Ok(1)\n\ndef b() -> int:\n    return Ok(1)\n", "def b() -> int:\n    return Ok(1)", None),
        ("state-try-after-result-fn", P + "def a() -> Result[int, str]:\n    return Ok(1)\n\ndef b() -> int:\n    x = a()?\n    return x\n", "    x = a()?", "try-in-nonresult-fn"),
        # current_trait_requires / current_trait_name: a function after a trait with default methods
        ("state-field-after-trait", P + "def g(p: M1) -> int:\n    return p.zz\n", "    return p.zz", None),
        ("state-adoption-before-trait-decl", "model M9 with T9:\n    a1: int\n\ntrait T9:\n    def m1(self) -> int: ...\n\ndef main() -> None:\n    println(1)\n", "model M9 with T9:", None),
        # const table / module scope
        ("state-const-compound", P + "def g() -> None:\n    K += 1\n", "    K += 1", None),
        ("state-const-reassign", P + "def g() -> None:\n    K = 4\n", "    K = 4", "nested-reassign"),
        # shadowing across scopes: the inner binding must not leak / the outer one must be back afterwards
        ("state-shadow-restored", P + "def g() -> int:\n    let n = 1\n    if true:\n        mut n = 2\n        n += 1\n    n += 1\n    return n\n", "    n += 1\n    return n", None),
        ("state-shadow-type-restored", P + "def g() -> int:\n    let n = 1\n    if true:\n        let n = \"s\"\n        println(n)\n    return n + \"t\"\n", "    return n + \"t\"", None),
        # mutation through an immutable binding: field / index assignment
        ("state-field-assign-immutable", P + "def g() -> None:\n    p = M1(a1=1)\n    p.a1 = 2\n", "    p.a1 = 2", "mutate-through-immutable"),
        ("state-index-assign-immutable", P + "def g() -> None:\n    xs = [1, 2]\n    xs[0] = 5\n", "    xs[0] = 5", "mutate-through-immutable"),
        ("state-field-assign-mut-ok", P + "def g() -> None:\n    mut p = M1(a1=1)\n    p.a1 = 2\n", None, None),
    ]


# ----------------------------------------------------------------------------------------------
# prefix x violation matrix (real checker only).  Every rule violation of the property's list is placed in a
# body AFTER each scope-opening / state-touching expression or statement form (and BEFORE it, as a control), in
# functions and methods, Result-returning or not.  Differential oracle: the verdict on the violation (an error
# inside its lines) must be the same as with no prefix at all; a violation that is missed even without prefix
# must carry a known-finding id.

MX_PRE = """enum E1:
    K1
    K2

model M1:
    a1: int
    a2: str

def hs(a: int) -> Result[int, str]:
    return Ok(a)

def hi(a: int) -> Result[int, int]:
    return Ok(a)

def two(a: int, s: str) -> int:
    return a

def app(f: (int) -> int, a: int) -> int:
    return f(a)

"""

# name -> (header, body indent, trailer).  q0: int parameter, every body ends with the trailer's return
MX_FORMS = {
    "fn-result": ("def t(q0: int, qe: E1, qo: Option[int]) -> Result[int, str]:\n", 4, "    return Ok(q0)\n"),
    "fn-int": ("def t(q0: int, qe: E1, qo: Option[int]) -> int:\n", 4, "    return q0\n"),
    "fn-none": ("def t(q0: int, qe: E1, qo: Option[int]) -> None:\n", 4, "    return\n"),
    "method-result": ("class C1:\n    c: int\n\n    def t(self, q0: int, qe: E1, qo: Option[int]) -> Result[int, str]:\n", 8, "        return Ok(q0)\n"),
    "method-int": ("class C1:\n    c: int\n\n    def t(mut self, q0: int, qe: E1, qo: Option[int]) -> int:\n", 8, "        return q0\n"),
}

MX_PREFIXES = {
    "none": "",
    "closure-bound": "k1 = (n) => n * 2\n",
    "closure-passed": "k2 = app((n) => n + 1, q0)\n",
    "closure-nested": "k3 = (n) => app((m) => m * 2, n)\n",
    "closure-called": "k4 = ((n) => n + 1)(q0)\n",
    "closure-in-block": "if q0 > 0:\n    k5 = (n) => n - 1\n",
    "listcomp": "l1 = [x * x for x in range(q0)]\n",
    "listcomp-filter": "l2 = [x for x in range(q0) if x % 2 == 0]\n",
    "dictcomp": "d1 = {x: x + 1 for x in range(q0)}\n",
    "dictcomp-filter": "d2 = {x: x for x in range(q0) if x > 1}\n",
    "match-stmt": "match qe:\n    case E1.K1:\n        println(1)\n    case E1.K2:\n        println(2)\n",
    "match-expr": "m1 = match qo:\n    Some(w) => w\n    None => 0\n",
    "if-else": "if q0 > 1:\n    println(1)\nelif q0 > 0:\n    println(2)\nelse:\n    println(3)\n",
    "fstring": "s1 = f\"a{q0 + 1}b{qe == E1.K1}\"\n",
    "method-call-closure": "l3 = [1, 2]\nl3.append(app((n) => n, 3))\n",
    "for-closed": "for z in range(q0):\n    mut acc = z\n    acc += 1\n",
    "while-closed": "mut w1 = q0\nwhile w1 > 0:\n    w1 -= 1\n",
    "inner-try": "t1 = hs(q0)?\n",
    "match-guard-binder": "match qo:\n    case Some(w) if w > 1:\n        println(w)\n    case _:\n        println(0)\n",
}

# name -> (statement text, known finding id when the real checker misses it even without any prefix, forms it applies to)
MX_VIOLATIONS = {
    "unknown-name": ("println(nope)", None, None),
    "wrong-type-assign": ("b1: int = \"s\"", None, None),
    "wrong-type-reassign": ("mut b2 = 1\nb2 = \"s\"", None, None),
    "wrong-return": ("if q0 > 5:\n    return \"s\"", None, None),
    "wrong-arg": ("b3 = two(\"a\", 1)", "arg-unchecked", None),
    "reassign-immutable": ("b4 = 1\nb4 = 2", None, None),
    "compound-immutable": ("q0 += 1", None, None),
    "try-non-result": ("b5 = q0?", None, None),
    "try-error-type": ("b6 = hi(q0)?", None, ("fn-result", "method-result")),
    "try-in-nonresult-fn": ("b6 = hi(q0)?", "try-in-nonresult-fn", ("fn-int", "fn-none", "method-int")),
    "match-missing-variant": ("match qe:\n    case E1.K1:\n        println(1)", None, None),
    "match-missing-none": ("match qo:\n    case Some(w) if w > 0:\n        println(w)\n    case Some(w):\n        println(0)", None, None),
    "ctor-missing-field": ("b7 = M1(a1=1)", None, None),
    "ctor-unknown-field": ("b8 = M1(a1=1, a2=\"s\", zz=3)", None, None),
    "ctor-duplicate-field": ("b9 = M1(a1=1, a1=2, a2=\"s\")", None, None),
    "field-unknown": ("b10 = M1(a1=1, a2=\"s\")\nprintln(b10.zz)", None, None),
}


def mx_indent(text, n):
    return "".join(" " * n + l + "\n" for l in text.split("\n") if l != "")


def mx_cases():
    """list of dict(name, form, prefix, violation, pos, src, lo, hi, kid)"""
    out = []
    for fname, (head, ind, tail) in MX_FORMS.items():
        for vname, (vtxt, kid, only) in MX_VIOLATIONS.items():
            if only and fname not in only:
                continue
            if fname in ("fn-result", "method-result") and vname == "try-in-nonresult-fn":
                continue
            for pname, ptxt in MX_PREFIXES.items():
                if fname in ("fn-int", "fn-none", "method-int") and pname == "inner-try":
                    continue
                for pos in (("after",) if pname == "none" else ("after", "before")):
                    v = mx_indent(vtxt, ind)
                    pr = mx_indent(ptxt, ind)
                    body = (pr + v) if pos == "after" else (v + pr)
                    src = MX_PRE + head + body + tail
                    lo = len(MX_PRE) + len(head) + (len(pr) if pos == "after" else 0)
                    out.append({"name": "mx:%s/%s/%s/%s" % (fname, pname, vname, pos), "form": fname, "prefix": pname, "violation": vname,
                                "pos": pos, "src": src, "lo": lo, "hi": lo + len(v), "kid": kid})
    return out


# ----------------------------------------------------------------------------------------------
# DECLARATION-level stream (coq/C03/Decls.v): trait declarations (required / default methods, @requires),
# `with T1, T2` adoptions on models and classes, `extends` chains, constructor calls.
#   tie:    Decls.dcheck (vm_compute) vs the real checker, same set of (diagnostic kind, span), on every case
#   oracle: this script's own reading of the documented rule (py_conforms_*; order-free walk along `extends`)
#           judges every adoption / constructor call / `extends` of every generated program
# A declaration-level program is {"deps": [decl], "main": [decl]}; a decl is a dict (see DGen).

SELF = ("self",)
E1T = ("named", "E1")

DK_TABLE = [("Unknown symbol", 0), ("inherits from itself", 1), ("has no field", 2), ("Type mismatch", 3),
            ("requires field", 4), ("requires method", 5), ("to match its signature", 6), ("ositional", 7),
            ("Duplicate constructor argument", 8), ("Cannot assign", 9), ("Missing required field", 10)]
DKINDS = ["unknown", "cyclic", "nofield", "mismatch", "reqtype", "missingmethod", "signature", "positional", "duparg",
          "fieldtype", "missingarg"]
DARMS = ["adopt:undeclared", "adopt:non-trait", "adopt:trait", "model:symbol-table", "model:name-only-fallback",
         "class:class_info-none", "inherit:parent-found", "inherit:parent-not-a-class-yet", "extends:unknown-base",
         "extends:cyclic", "ctor:unknown-name", "ctor:not-constructible", "ctor:positional", "ctor:keyword-loop",
         "resolve:typevar"]
DFLAGS = ["wf_basic", "types_ordered", "extends_ordered", "kinds_ok", "bodies_ok"]
FLAG_FINDING = {"types_ordered": "forward-type-unchecked", "extends_ordered": "forward-extends-ignored",
                "kinds_ok": "adoption-kind-unchecked", "bodies_ok": "abstract-impl-accepted"}
UNLOCATED = "extends-diagnostic-unlocated"


def dmsg_kind(m):
    for k, v in DK_TABLE:
        if k in m:
            return v
    return 99


def dnum(n):
    """Coq number of a declaration name: ONE name space, like the real symbol table"""
    if n == "Self":
        return 0
    base = {"T": 0, "M": 100, "C": 200, "E": 300, "f": 400, "X": 500}[n[0]]
    return base + name_n(n)


def dty_src(t):
    k = t[0]
    if k == "self":
        return "Self"
    if k == "opt":
        return "Option[%s]" % dty_src(t[1])
    if k == "res":
        return "Result[%s, %s]" % (dty_src(t[1]), dty_src(t[2]))
    return ty_src(t)


def dty_coq(t):
    k = t[0]
    if k == "self":
        return "(TNamed 0)"
    if k == "named":
        return "(TNamed %d)" % dnum(t[1])
    if k == "opt":
        return "(TOpt %s)" % dty_coq(t[1])
    if k == "res":
        return "(TRes %s %s)" % (dty_coq(t[1]), dty_coq(t[2]))
    return ty_coq(t)


def dval_src(t):
    """a literal of type t (constructor arguments, field defaults)"""
    k = t[0]
    if k == "int":
        return "1"
    if k == "str":
        return '"s"'
    if k == "bool":
        return "true"
    if k == "named" and t[1].startswith("E"):
        return "%s.K1" % t[1]
    if k == "opt":
        return "None"
    if k == "res":
        return "Ok(%s)" % dval_src(t[1])
    raise ValueError(t)


def meth_src(m, pre, abstract_ok=True):
    ps = []
    if m["recv"] == "self":
        ps.append("self")
    elif m["recv"] == "mut":
        ps.append("mut self")
    ps += ["p%d: %s" % (k + 1, dty_src(t)) for k, t in enumerate(m["params"])]
    head = "    %s%sdef %s(%s) -> %s:" % (pre, "async " if m["async"] else "", m["name"], ", ".join(ps), dty_src(m["ret"]))
    if not m["body"]:
        return [head + " ..."]
    r = m["ret"]
    if r == UNIT:
        body = "pass"
    elif r[0] == "named" and not r[1].startswith("E"):
        k = [i for i, t in enumerate(m["params"]) if t == r]
        body = ("return p%d" % (k[0] + 1)) if k else "return M9(a1=1)"       # M9 is the data model of every generated program
    else:
        body = "return " + dval_src(r)
    return [head, "        " + body]


def decl_src(d, pub=False):
    pre = "pub " if pub else ""
    out = []
    k = d["k"]
    if k == "enum":
        out += ["%senum %s:" % (pre, d["name"]), "    K1", "    K2"]
    elif k == "trait":
        if d["reqs"]:
            out.append("@requires(%s)" % ", ".join("%s: %s" % (n, dty_src(t)) for n, t in d["reqs"]))
        out.append("%strait %s:" % (pre, d["name"]))
        if not d["meths"]:
            out.append("    pass")
        for j, m in enumerate(d["meths"]):
            if j:
                out.append("")
            out += meth_src(m, "")
    elif k in ("model", "class"):
        head = "%s%s %s" % (pre, k, d["name"])
        if d.get("ext"):
            head += " extends " + d["ext"]
        if d["ads"]:
            head += " with " + ", ".join(a["t"] for a in d["ads"])
        out.append(head + ":")
        for f in d["fields"]:
            out.append("    %s: %s%s" % (f["name"], dty_src(f["ty"]), (" = " + dval_src(f["ty"])) if f["default"] else ""))
        for m in d["meths"]:
            out.append("")
            out += meth_src(m, "")
    elif k == "fun":
        out.append("%sdef %s() -> None:" % (pre, d["name"]))
        for j, c in enumerate(d["calls"]):
            args = ", ".join(("%s=%s" % (a["name"], dval_src(a["ty"])) if a["name"] else dval_src(a["ty"])) for a in c["args"])
            out.append("    w%d = %s(%s)" % (j + 1, c["callee"], args))
        out.append("    pass")
    out.append("")
    return out


def dprog_src(decls, pub=False, header=""):
    out = [header, ""] if header else []
    for d in decls:
        out += decl_src(d, pub)
    return "\n".join(out) + "\n"


def meth_coq(m):
    rc = {"none": "RNone", "self": "RSelf", "mut": "RMut"}[m["recv"]]
    return "(Build_meth %d %d (Build_msig %s %s [%s] %s) %s)" % (
        m["i"], name_n(m["name"]), rc, "true" if m["async"] else "false", "; ".join(dty_coq(t) for t in m["params"]),
        dty_coq(m["ret"]), "true" if m["body"] else "false")


def decl_coq(d):
    k = d["k"]
    n = dnum(d["name"])
    if k == "enum":
        return "(DEnum %d %d)" % (d["i"], n)
    ms = "[%s]" % "; ".join(meth_coq(m) for m in d.get("meths", []))
    if k == "trait":
        return "(DTrait %d %d [%s] %s)" % (d["i"], n, "; ".join("(Build_req %d %s)" % (name_n(a), dty_coq(t)) for a, t in d["reqs"]), ms)
    if k in ("model", "class"):
        ads = "[%s]" % "; ".join("(%d, %d)" % (a["i"], dnum(a["t"])) for a in d["ads"])
        fs = "[%s]" % "; ".join("(Build_fld %d %d %d %s %s)" % (f["i"], f["ti"], name_n(f["name"]), dty_coq(f["ty"]), "true" if f["default"] else "false")
                                for f in d["fields"])
        if k == "model":
            return "(DModel %d %d %s %s %s)" % (d["i"], n, ads, fs, ms)
        return "(DClass %d %d %s %s %s %s)" % (d["i"], n, "(Some %d)" % dnum(d["ext"]) if d.get("ext") else "None", ads, fs, ms)
    cs = "; ".join("(Build_call %d %d %d [%s])" % (c["i"], c["ci"], dnum(c["callee"]), "; ".join(
        "(Build_arg %s %d %s)" % ("(Some %d)" % name_n(a["name"]) if a["name"] else "None", a["i"], dty_coq(a["ty"])) for a in c["args"])) for c in d["calls"])
    return "(DFun %d %d [%s])" % (d["i"], n, cs)


def dprog_coq(p):
    return "(Build_dprogram [%s] [%s])" % ("; ".join(decl_coq(d) for d in p["deps"]), "; ".join(decl_coq(d) for d in p["main"]))


def dzip(p, tree):
    """id -> real byte span, from the span skeleton of the parsed main module; validates the rendering"""
    sp = {0: (0, 0)}
    nodes = [d for d in tree if d["k"] != "import"]
    if len(nodes) != len(p["main"]):
        raise ZipError("declaration count %d vs %d" % (len(nodes), len(p["main"])))
    for d, r in zip(p["main"], nodes):
        want = {"trait": "trait", "model": "model", "class": "class", "enum": "enum", "fun": "fn"}[d["k"]]
        if r["k"] != want or r.get("n") != d["name"]:
            raise ZipError("declaration %s %s vs %s %s" % (d["k"], d["name"], r["k"], r.get("n")))
        sp[d["i"]] = (r["s"], r["e"])
        ch = r["c"]
        if d["k"] == "class" and r.get("x") != d.get("ext"):
            raise ZipError("extends of %s: %s" % (d["name"], r.get("x")))
        if d["k"] == "trait" and [tuple(x) for x in r.get("rq", [])] != [(a, dty_src(t)) for a, t in d["reqs"]]:
            raise ZipError("@requires of %s: %s" % (d["name"], r.get("rq")))
        if d["k"] in ("model", "class"):
            ws = [c for c in ch if c["k"] == "with"]
            fs = [c for c in ch if c["k"] == "fielddecl"]
            if [c["n"] for c in ws] != [a["t"] for a in d["ads"]] or [c["n"] for c in fs] != [f["name"] for f in d["fields"]]:
                raise ZipError("members of %s" % d["name"])
            for a, c in zip(d["ads"], ws):
                sp[a["i"]] = (c["s"], c["e"])
            for f, c in zip(d["fields"], fs):
                if c.get("ty") != dty_src(f["ty"]) or c.get("d") != f["default"]:
                    raise ZipError("field %s of %s: %s" % (f["name"], d["name"], c.get("ty")))
                sp[f["i"]] = (c["s"], c["e"])
                sp[f["ti"]] = (c["c"][0]["s"], c["c"][0]["e"])
        if d["k"] in ("model", "class", "trait"):
            ms = [c for c in ch if c["k"] in ("method", "absmethod")]
            if [(c["n"], c["k"] == "method") for c in ms] != [(m["name"], m["body"]) for m in d["meths"]]:
                raise ZipError("methods of %s" % d["name"])
            for m, c in zip(d["meths"], ms):
                want = "%s|%s|%s|%s" % (m["recv"], "true" if m["async"] else "false", ",".join(dty_src(t) for t in m["params"]), dty_src(m["ret"]))
                if c.get("sig") != want:
                    raise ZipError("signature of %s.%s: %s" % (d["name"], m["name"], c.get("sig")))
                sp[m["i"]] = (c["s"], c["e"])
        if d["k"] == "fun":
            st = [c for c in ch if c["k"] == "assign"]
            if len(st) != len(d["calls"]):
                raise ZipError("statements of %s" % d["name"])
            for c, r2 in zip(d["calls"], st):
                call = r2["c"][0]
                if call["k"] != "call" or call["c"][0].get("n") != c["callee"] or len(call["c"]) - 1 != len(c["args"]):
                    raise ZipError("call %s" % c["callee"])
                sp[c["i"]] = (call["s"], call["e"])
                sp[c["ci"]] = (call["c"][0]["s"], call["c"][0]["e"])
                for a, ra in zip(c["args"], call["c"][1:]):
                    if (ra["k"] == "named") != bool(a["name"]) or (a["name"] and ra.get("n") != a["name"]):
                        raise ZipError("argument of %s" % c["callee"])
                    sp[a["i"]] = (ra["s"], ra["e"])
    return sp


# ---- this script's reading of the documented rule (order-free; independent of Decls.v and of the checker)
def py_decl(P, n, kinds):
    ds = [d for d in P if d["name"] == n and d["k"] in kinds]
    return ds[0] if ds else None


def py_members(P, n, key, name_of):
    """effective members of the model / class named n: own, then (classes) those of the `extends` chain that are
    not redeclared nearer; None if n is not a model / class"""
    d = py_decl(P, n, ("model", "class"))
    if d is None:
        return None
    out = {}
    seen = set()
    while d is not None and d["name"] not in seen:
        seen.add(d["name"])
        for m in d[key]:
            out.setdefault(name_of(m), m)
        d = py_decl(P, d["ext"], ("class",)) if d["k"] == "class" and d.get("ext") else None
    return out


def sig_of(m):
    return (m["recv"], m["async"], tuple(m["params"]), m["ret"])


def py_conforms_adoption(P, d, tname):
    t = py_decl(P, tname, ("trait",))
    if t is None:
        return False, "not a declared trait"
    fs = py_members(P, d["name"], "fields", lambda f: f["name"])
    ms = py_members(P, d["name"], "meths", lambda m: m["name"])
    for a, ty in t["reqs"]:
        if a not in fs:
            return False, "required field %s missing" % a
        if fs[a]["ty"] != ty:
            return False, "required field %s has another type" % a
    for m in t["meths"]:
        if m["body"]:
            continue
        if m["name"] not in ms:
            return False, "required method %s missing" % m["name"]
        if sig_of(ms[m["name"]]) != sig_of(m):
            return False, "required method %s has another signature" % m["name"]
        if not ms[m["name"]]["body"]:
            return False, "required method %s is not implemented (`...`)" % m["name"]
    return True, ""


def py_conforms_ctor(P, c):
    fs = py_members(P, c["callee"], "fields", lambda f: f["name"])
    if fs is None:
        return False, "not a declared model / class"
    names = []
    for a in c["args"]:
        if not a["name"]:
            return False, "positional argument"
        if a["name"] in names:
            return False, "duplicate field %s" % a["name"]
        names.append(a["name"])
        if a["name"] not in fs:
            return False, "unknown field %s" % a["name"]
        if fs[a["name"]]["ty"] != a["ty"]:
            return False, "field %s given a value of another type" % a["name"]
    for n, f in fs.items():
        if not f["default"] and n not in names:
            return False, "missing field %s" % n
    return True, ""


def py_conforms_extends(P, d):
    """`extends b`: b is a declared class and the chain from b does not come back to d"""
    if not d.get("ext"):
        return True, ""
    cur = py_decl(P, d["ext"], ("class",))
    if cur is None:
        return False, "base %s is not a declared class" % d["ext"]
    seen = set()
    while cur is not None and cur["name"] not in seen:
        if cur["name"] == d["name"]:
            return False, "cyclic extends"
        seen.add(cur["name"])
        cur = py_decl(P, cur["ext"], ("class",)) if cur.get("ext") else None
    return True, ""


def py_cyclic(P):
    for d in P:
        if d["k"] == "class":
            seen = set()
            cur = d
            while cur is not None and cur.get("ext"):
                if cur["name"] in seen:
                    return True
                seen.add(cur["name"])
                cur = py_decl(P, cur["ext"], ("class",))
    return False


# ---- generator ---------------------------------------------------------------------------------
FIELD_POOL = {"a1": INT, "a2": STR, "a3": BOOL, "a4": E1T, "a5": INT, "a6": STR, "a7": ("opt", INT), "a8": ("res", INT, STR)}
LITERAL_TYS = (INT, STR, BOOL, E1T)
METH_POOL = ["m1", "m2", "m3", "m4", "m5", "m6"]


class DGen:
    """a conforming, strict base program: enum, data model, 1-3 traits, a chain of classes, models, functions with
    constructor calls.  Field types and method signatures are global per NAME, so that names shared between traits
    stay satisfiable together."""

    def __init__(self, rng):
        self.rng = rng
        self.b = Builder(1)

    def meth(self, name, body, sig=None):
        s = sig or self.sigs[name]
        return {"i": self.b.id(), "name": name, "recv": s[0], "async": s[1], "params": list(s[2]), "ret": s[3], "body": body}

    def fld(self, name, default=None, ty=None):
        t = ty or FIELD_POOL[name]
        d = (t not in LITERAL_TYS) or (self.rng.random() < 0.25 if default is None else default)
        return {"i": self.b.id(), "ti": self.b.id(), "name": name, "ty": t, "default": d}

    def rand_sig(self):
        r = self.rng
        ptys = [INT, STR, BOOL, E1T, ("opt", INT), SELF, ("named", "M9"), ("res", INT, STR)]
        params = tuple(r.choice(ptys) for _ in range(r.choice([0, 0, 1, 1, 2])))
        rets = [INT, STR, BOOL, UNIT, ("opt", INT), ("opt", SELF), ("res", INT, STR)] + [p for p in params if p == ("named", "M9")]
        return (r.choice(["self", "self", "self", "mut", "none"]), r.random() < 0.15, params, r.choice(rets))

    def base(self):
        r = self.rng
        b = self.b
        self.sigs = {m: self.rand_sig() for m in METH_POOL}
        decls = [{"k": "enum", "i": b.id(), "name": "E1"},
                 {"k": "model", "i": b.id(), "name": "M9", "ads": [], "fields": [self.fld("a1", False)], "meths": []}]
        traits = []
        for k in range(r.choice([1, 2, 2, 3])):
            reqs = r.sample(sorted(FIELD_POOL), r.choice([0, 1, 2, 2, 4]))
            names = r.sample(METH_POOL, r.choice([0, 1, 2, 2, 4, 5]))
            nabs = r.randint(0, len(names)) if r.random() < 0.8 else len(names)
            meths = [self.meth(m, j >= nabs) for j, m in enumerate(names)]
            r.shuffle(meths)
            t = {"k": "trait", "i": b.id(), "name": "T%d" % (k + 1), "reqs": [(a, FIELD_POOL[a]) for a in reqs], "meths": meths}
            traits.append(t)
            decls.append(t)
        # classes: a chain C1 <- C2 <- C3 and possibly an independent C4
        chain = ["C%d" % (k + 1) for k in range(r.choice([1, 2, 2, 3, 3]))]
        classes = {}
        for k, cn in enumerate(chain):
            classes[cn] = {"k": "class", "i": b.id(), "name": cn, "ext": chain[k - 1] if k else None, "ads": [], "fields": [], "meths": []}
        if r.random() < 0.4:
            classes["C4"] = {"k": "class", "i": b.id(), "name": "C4", "ext": None, "ads": [], "fields": [], "meths": []}
        models = {mn: {"k": "model", "i": b.id(), "name": mn, "ads": [], "fields": [], "meths": []} for mn in ["M1", "M2"][:r.choice([1, 2, 2])]}

        def ancestors(cn):
            out = [cn]
            while classes[out[-1]]["ext"]:
                out.append(classes[out[-1]]["ext"])
            return out

        def eff(cn, key):
            names = set()
            for a in ancestors(cn):
                names |= set(x["name"] for x in classes[a][key])
            return names

        for cn, c in classes.items():
            ads = [r.choice(traits) for _ in range(r.choice([0, 1, 1, 2, 2, 3]))]      # duplicates / diamonds happen
            for t in ads:
                c["ads"].append({"i": b.id(), "t": t["name"]})
                for a, _ in t["reqs"]:
                    if a not in eff(cn, "fields"):
                        classes[r.choice(ancestors(cn))]["fields"].append(self.fld(a))
                for m in t["meths"]:
                    if not m["body"] and m["name"] not in eff(cn, "meths"):
                        classes[r.choice(ancestors(cn))]["meths"].append(self.meth(m["name"], True))
        for mn, m in models.items():
            for t in [r.choice(traits) for _ in range(r.choice([0, 1, 1, 2, 2]))]:
                m["ads"].append({"i": b.id(), "t": t["name"]})
                for a, _ in t["reqs"]:
                    if a not in [f["name"] for f in m["fields"]]:
                        m["fields"].append(self.fld(a))
                for tm in t["meths"]:
                    if not tm["body"] and tm["name"] not in [x["name"] for x in m["meths"]]:
                        m["meths"].append(self.meth(tm["name"], True))
        # extra members, overrides of inherited members (same type / signature; a default may appear)
        for cn, c in list(classes.items()) + list(models.items()):
            own_f = [f["name"] for f in c["fields"]]
            for a in r.sample(sorted(FIELD_POOL), r.choice([0, 1, 1, 2])):
                if a not in own_f:
                    c["fields"].append(self.fld(a))
                    own_f.append(a)
            own_m = [m["name"] for m in c["meths"]]
            for m in r.sample(METH_POOL, r.choice([0, 0, 1, 2])):
                if m not in own_m:
                    c["meths"].append(self.meth(m, True))
                    own_m.append(m)
            if not c["fields"]:
                c["fields"].append(self.fld("a5"))
            r.shuffle(c["fields"])
            r.shuffle(c["meths"])
        decls += [classes[cn] for cn in chain] + ([classes["C4"]] if "C4" in classes else [])
        decls += list(models.values())
        # functions with constructor calls
        P = decls
        ctypes = [d for d in decls if d["k"] in ("model", "class")]
        for k in range(2):
            calls = []
            for d in r.sample(ctypes, min(len(ctypes), r.choice([1, 2, 3]))):
                fs = py_members(P, d["name"], "fields", lambda f: f["name"])
                args = [{"name": n, "i": b.id(), "ty": f["ty"]} for n, f in fs.items()
                        if not f["default"] or (f["ty"] in LITERAL_TYS and r.random() < 0.5)]
                r.shuffle(args)
                calls.append({"i": b.id(), "ci": b.id(), "callee": d["name"], "args": args})
            decls.append({"k": "fun", "i": b.id(), "name": "fn%d" % (k + 1), "calls": calls})
        return {"deps": [], "main": decls}


def dfind(p, name):
    for part in ("deps", "main"):
        for d in p[part]:
            if d["name"] == name:
                return d
    return None


def other_ty(t, rng):
    return rng.choice([x for x in (INT, STR, BOOL, ("opt", INT), ("opt", STR), ("res", INT, INT), E1T) if x != t])


def decl_edits(p, rng):
    """yield (edit name, edited program): ONE deviation each, at every position it can occur"""
    P = p["main"]
    b0 = 1 + max(x for x in _all_ids(p))
    out = []

    def cp():
        return copy.deepcopy(p), Builder(b0)

    def provider(q, dname, key, member):
        """the declaration of the `extends` chain of dname that provides the member"""
        d = dfind(q, dname)
        seen = set()
        while d is not None and d["name"] not in seen:
            seen.add(d["name"])
            for x in d[key]:
                if x["name"] == member:
                    return d, x
            d = dfind(q, d["ext"]) if d["k"] == "class" and d.get("ext") else None
        return None, None

    for d in P:
        if d["k"] in ("model", "class"):
            for ai, a in enumerate(d["ads"]):
                t = dfind(p, a["t"])
                for ri, (fa, fty) in enumerate(t["reqs"]):
                    q, b = cp()
                    pd, f = provider(q, d["name"], "fields", fa)
                    pd["fields"].remove(f)
                    if not pd["fields"]:
                        pd["fields"].append({"i": b.id(), "ti": b.id(), "name": "a9", "ty": INT, "default": True})
                    out.append(("adopt-drop-required-field[%d/%d]" % (ri, len(t["reqs"])), q))
                    q, b = cp()
                    pd, f = provider(q, d["name"], "fields", fa)
                    f["ty"] = other_ty(fty, rng)
                    f["default"] = True
                    out.append(("adopt-required-field-type[%d/%d]" % (ri, len(t["reqs"])), q))
                absm = [m for m in t["meths"] if not m["body"]]
                for mi, m in enumerate(absm):
                    q, b = cp()
                    pd, x = provider(q, d["name"], "meths", m["name"])
                    pd["meths"].remove(x)
                    out.append(("adopt-drop-required-method[%d/%d]" % (mi, len(absm)), q))
                    for how in ("recv", "async", "param-count", "param-type", "ret"):
                        q, b = cp()
                        pd, x = provider(q, d["name"], "meths", m["name"])
                        if how == "recv":
                            x["recv"] = {"self": "mut", "mut": "self", "none": "self"}[x["recv"]]
                        elif how == "async":
                            x["async"] = not x["async"]
                        elif how == "param-count":
                            x["params"] = x["params"] + [INT] if rng.random() < 0.5 or not x["params"] else x["params"][:-1]
                        elif how == "param-type":
                            if not x["params"]:
                                continue
                            k = rng.randrange(len(x["params"]))
                            x["params"][k] = other_ty(x["params"][k], rng)
                        else:
                            x["ret"] = other_ty(x["ret"], rng)
                        out.append(("adopt-signature-%s[%d/%d]" % (how, mi, len(absm)), q))
                    q, b = cp()
                    pd, x = provider(q, d["name"], "meths", m["name"])
                    x["body"] = False
                    out.append(("adopt-abstract-impl[%d/%d]" % (mi, len(absm)), q))
                for bad in ("X9", "M9", "E1", "fn1"):
                    q, b = cp()
                    dfind(q, d["name"])["ads"][ai]["t"] = bad
                    out.append(("adopt-%s[%d/%d]" % ("undeclared-trait" if bad == "X9" else "non-trait-" + bad, ai, len(d["ads"])), q))
                # the trait's declaration moved to the END of the module (declared after everything it mentions and
                # after its adopters): conforming, must still be accepted
                q, b = cp()
                td = dfind(q, a["t"])
                q["main"].remove(td)
                q["main"].append(td)
                out.append(("trait-declared-last", q))
            if d["k"] == "class":
                for bad in ("X9", "M9", "T1", d["name"]):
                    q, b = cp()
                    dfind(q, d["name"])["ext"] = bad
                    out.append(("extends-%s" % ("undeclared" if bad == "X9" else "self" if bad == d["name"] else "non-class-" + bad), q))
                if d.get("ext"):
                    # the parent declared AFTER the child
                    q, b = cp()
                    pd = dfind(q, d["ext"])
                    q["main"].remove(pd)
                    q["main"].insert(q["main"].index(dfind(q, d["name"])) + 1, pd)
                    out.append(("extends-forward", q))
                    q, b = cp()
                    root = dfind(q, "C1")
                    root["ext"] = d["name"]
                    out.append(("extends-cycle", q))
        if d["k"] == "fun":
            for cj, c in enumerate(d["calls"]):
                n = len(c["args"])
                tag = "[call %d, %d args]" % (cj, n)
                for k in range(n):
                    q, b = cp()
                    dfind(q, d["name"])["calls"][cj]["args"].pop(k)
                    out.append(("ctor-drop-arg@%d%s" % (k, tag), q))
                    q, b = cp()
                    args = dfind(q, d["name"])["calls"][cj]["args"]
                    args.insert(rng.randint(0, n), {"name": args[k]["name"], "i": b.id(), "ty": args[k]["ty"]})
                    out.append(("ctor-duplicate-arg@%d%s" % (k, tag), q))
                    q, b = cp()
                    args = dfind(q, d["name"])["calls"][cj]["args"]
                    args[k]["ty"] = rng.choice([x for x in LITERAL_TYS if x != args[k]["ty"]])
                    out.append(("ctor-wrong-type@%d%s" % (k, tag), q))
                    q, b = cp()
                    dfind(q, d["name"])["calls"][cj]["args"][k]["name"] = None
                    out.append(("ctor-positional@%d%s" % (k, tag), q))
                for k in range(n + 1):
                    q, b = cp()
                    dfind(q, d["name"])["calls"][cj]["args"].insert(k, {"name": "a9", "i": b.id(), "ty": INT})
                    out.append(("ctor-unknown-field@%d%s" % (k, tag), q))
                for bad in ("X9", "T1", "E1"):
                    q, b = cp()
                    dfind(q, d["name"])["calls"][cj]["callee"] = bad
                    out.append(("ctor-callee-%s%s" % ("undeclared" if bad == "X9" else "not-constructible-" + bad, tag), q))
    # forward type references: a model M8 declared LAST, mentioned by a trait's @requires / signature and by a field
    for d in P:
        if d["k"] == "trait" and (d["reqs"] or [m for m in d["meths"] if not m["body"]]):
            q, b = cp()
            q["main"].append({"k": "model", "i": b.id(), "name": "M8", "ads": [], "fields": [{"i": b.id(), "ti": b.id(), "name": "a1", "ty": INT, "default": False}], "meths": []})
            t = dfind(q, d["name"])
            if t["reqs"] and rng.random() < 0.6:
                k = rng.randrange(len(t["reqs"]))
                t["reqs"][k] = (t["reqs"][k][0], ("named", "M8"))
                out.append(("fwdref-requires-type", q))
            else:
                ms = [m for m in t["meths"] if not m["body"]]
                if ms:
                    m = rng.choice(ms)
                    m["ret"] = ("opt", ("named", "M8"))
                    out.append(("fwdref-signature-type", q))
    for d in P:
        if d["k"] == "fun" and d["calls"]:
            q, b = cp()
            q["main"].append({"k": "model", "i": b.id(), "name": "M8", "ads": [], "fields": [{"i": b.id(), "ti": b.id(), "name": "a1", "ty": INT, "default": False}], "meths": []})
            c = dfind(q, d["name"])["calls"][0]
            td = dfind(q, c["callee"])
            if c["args"]:
                _, f = provider(q, c["callee"], "fields", c["args"][0]["name"])
                f["ty"] = ("named", "M8")
                f["default"] = False
                out.append(("fwdref-field-type", q))
            break
    # ill-formed source (tie only): repeated declaration names / member names
    for kind in ("trait", "model", "class"):
        ds = [d for d in P if d["k"] == kind]
        if ds:
            q, b = cp()
            d = copy.deepcopy(rng.choice(ds))
            _renumber(d, b)
            if d.get("meths"):
                d["meths"] = d["meths"][:-1]
            if d.get("fields") and len(d["fields"]) > 1:
                d["fields"] = d["fields"][1:]
            q["main"].insert(rng.randint(0, len(q["main"]) - 2), d)
            out.append(("illformed-duplicate-%s-declaration" % kind, q))
    ms = [d for d in P if d["k"] in ("model", "class") and d["ads"]]
    if ms:
        q, b = cp()
        d = dfind(q, rng.choice(ms)["name"])
        other = [x for x in P if x["k"] in ("trait", "enum") and x["name"] != d["name"]]
        if d["k"] == "model":
            q["main"].append({"k": "class", "i": b.id(), "name": d["name"], "ext": None, "ads": [], "fields": [{"i": b.id(), "ti": b.id(), "name": "a1", "ty": INT, "default": False}], "meths": []})
        else:
            q["main"].append({"k": "model", "i": b.id(), "name": d["name"], "ads": [], "fields": [{"i": b.id(), "ti": b.id(), "name": "a1", "ty": INT, "default": False}], "meths": []})
        out.append(("illformed-%s-name-redeclared-as-other-kind" % d["k"], q))
        q, b = cp()
        d = dfind(q, rng.choice(ms)["name"])
        if d["fields"]:
            f = copy.deepcopy(d["fields"][0])
            f["i"], f["ti"] = b.id(), b.id()
            f["ty"] = other_ty(f["ty"], rng)
            f["default"] = True
            d["fields"].append(f)
            out.append(("illformed-duplicate-field", q))
        q, b = cp()
        d = dfind(q, rng.choice(ms)["name"])
        if d["meths"]:
            m = copy.deepcopy(d["meths"][0])
            m["i"] = b.id()
            m["params"] = m["params"] + [INT]
            d["meths"].append(m)
            out.append(("illformed-duplicate-method", q))
    return out


def _all_ids(p):
    acc = []

    def visit(o):
        if isinstance(o, dict):
            for k in ("i", "ti", "ci"):
                if isinstance(o.get(k), int):
                    acc.append(o[k])
            for v in o.values():
                visit(v)
        elif isinstance(o, (list, tuple)):
            for v in o:
                visit(v)
    visit(p)
    return acc


def _renumber(o, b):
    if isinstance(o, dict):
        for k in ("i", "ti", "ci"):
            if isinstance(o.get(k), int):
                o[k] = b.id()
        for v in o.values():
            _renumber(v, b)
    elif isinstance(o, list):
        for v in o:
            _renumber(v, b)


def split_deps(p, rng):
    """the leading declarations (enum, data model, traits, possibly base classes) moved into a dependency module"""
    main = p["main"]
    k = 2
    while k < len(main) and main[k]["k"] == "trait":
        k += 1
    if main[k]["k"] == "class" and rng.random() < 0.5:
        k += 1
    k = rng.randint(2, k)
    q = copy.deepcopy(p)
    q["deps"], q["main"] = q["main"][:k], q["main"][k:]
    return q


def _f(i, ti, name, ty, default=False):
    return {"i": i, "ti": ti, "name": name, "ty": ty, "default": default}


def _m(i, name, body):
    return {"i": i, "name": name, "recv": "self", "async": False, "params": [], "ret": INT, "body": body}


def decl_witnesses():
    """(Coq constant of ProofsDecls.v, finding id, the same program as a python tree, expectation on the real checker)"""
    M = lambda i, n, ads, fs, ms: {"k": "model", "i": i, "name": n, "ads": ads, "fields": fs, "meths": ms}
    C = lambda i, n, ext, ads, fs, ms: {"k": "class", "i": i, "name": n, "ext": ext, "ads": ads, "fields": fs, "meths": ms}
    call = lambda i, ci, callee, args: {"i": i, "ci": ci, "callee": callee, "args": [{"name": a, "i": k, "ty": t} for a, k, t in args]}
    fwdext = lambda c: [C(1, "C3", "C4", [], [_f(2, 3, "a2", INT)], []), C(4, "C4", None, [], [_f(5, 6, "a1", INT)], []),
                        {"k": "fun", "i": 7, "name": "fn1", "calls": [c]}]
    return [
        ("w_fwdref", "forward-type-unchecked", "accepted",
         [{"k": "trait", "i": 1, "name": "T1", "reqs": [("a1", ("named", "M2"))], "meths": []},
          M(2, "M2", [], [_f(3, 4, "a2", INT)], []), C(5, "C3", None, [{"i": 6, "t": "T1"}], [_f(7, 8, "a1", INT)], [])]),
        ("w_fwdfield", "forward-type-unchecked", "accepted",
         [M(1, "M1", [], [_f(2, 3, "a1", ("named", "M2"))], []), M(4, "M2", [], [_f(5, 6, "a2", INT)], []),
          {"k": "fun", "i": 7, "name": "fn1", "calls": [call(8, 9, "M1", [("a1", 10, INT)])]}]),
        ("(w_fwdext_decls c_fwdext_missing)", "forward-extends-ignored", "accepted", fwdext(call(8, 9, "C3", [("a2", 10, INT)]))),
        ("(w_fwdext_decls c_fwdext_full)", "forward-extends-ignored", "rejected", fwdext(call(8, 9, "C3", [("a1", 11, INT), ("a2", 10, INT)]))),
        ("w_kind", "adoption-kind-unchecked", "accepted",
         [M(1, "M2", [], [_f(2, 3, "a1", INT)], []), M(4, "M1", [{"i": 5, "t": "M2"}], [_f(6, 7, "a1", INT)], [])]),
        ("w_abstract", "abstract-impl-accepted", "accepted",
         [{"k": "trait", "i": 1, "name": "T1", "reqs": [], "meths": [_m(2, "m1", False)]},
          C(3, "C1", None, [{"i": 4, "t": "T1"}], [_f(5, 6, "a1", INT)], [_m(7, "m1", False)])]),
        ("w_unlocated", UNLOCATED, "unlocated", [C(1, "C2", "X9", [], [_f(2, 3, "a1", INT)], [])]),
    ]


DREQ = "From Coq Require Import ZArith List.\nFrom Verif Require Import C03.Ast C03.Checker C03.Decls.\nImport ListNotations.\nOpen Scope N_scope."
# the witnesses of ProofsDecls.v are evaluated in a file of their own: with ProofsDecls imported, coqc elaborates the
# (large) generated program terms about four times slower
DREQW = DREQ.replace("C03.Decls.", "C03.Decls C03.ProofsDecls.")


def decl_stream(chk, binary, known, model_ok, corr_bad, fails, dist, classes):
    rng = chk.rng
    quick = chk.tier == "quick"
    n_base = 7 if quick else 60
    per_edit = 2 if quick else 14
    cases = []
    quota = {}
    wits = decl_witnesses()
    for wname, fid, expect, decls in wits:
        cases.append({"name": wname, "edit": "witness:" + fid, "prog": {"deps": [], "main": decls}, "coq": wname, "expect": expect})
    for k in range(n_base):
        p = DGen(rng).base()
        cases.append({"name": "d%d" % k, "edit": "unedited", "prog": p})
        cases.append({"name": "d%d" % k, "edit": "unedited+deps", "prog": split_deps(p, rng)})
        eds = decl_edits(p, rng)
        rng.shuffle(eds)
        for name, q in eds:
            key = name.split("[")[0].split("@")[0]
            pos = name
            if quota.get(pos, 0) >= per_edit or quota.get(("k", key), 0) >= per_edit * 6:
                continue
            quota[pos] = quota.get(pos, 0) + 1
            quota[("k", key)] = quota.get(("k", key), 0) + 1
            cases.append({"name": "d%d" % k, "edit": name, "prog": q})
            if rng.random() < 0.12 and not name.startswith(("illformed", "trait-declared-last", "fwdref", "extends-forward")):
                cases.append({"name": "d%d" % k, "edit": name + "+deps", "prog": split_deps(q, rng)})
    inputs = []
    for c in cases:
        p = c["prog"]
        hdr = ("from dep import %s" % ", ".join(d["name"] for d in p["deps"])) if p["deps"] else ""
        c["src"] = dprog_src(p["main"], header=hdr)
        c["input"] = {"main": c["src"], "deps": [["dep", dprog_src(p["deps"], pub=True)]] if p["deps"] else []}
        inputs.append(c["input"])
    real = run_real(binary, inputs)
    live = []
    for c, r in zip(cases, real):
        if r["parse"] != "ok":
            corr_bad.append({"case": c["name"], "kind": c["edit"], "why": "generated declaration-level source does not parse: %s %s" % (r["parse"], r.get("errors") or r.get("message")), "source": c["src"], "input": c["input"]})
            continue
        try:
            c["sp"] = dzip(c["prog"], r["tree"])
        except (ZipError, KeyError, IndexError) as ex:
            corr_bad.append({"case": c["name"], "kind": c["edit"], "why": "parsed declarations differ from the generated ones: %s" % ex, "source": c["src"]})
            continue
        c["real_raw"] = r["errors"]
        c["real"] = set((dmsg_kind(e[3]), (e[0], e[1])) for e in r["errors"])
        live.append(c)
    if model_ok:
        wl = [c for c in live if c.get("coq")]
        ev = vlib.coq_eval(DREQ, "dprogram", "run_decls", [dprog_coq(c["prog"]) for c in live], shard=24, tag="c03d")
        evw = vlib.coq_eval(DREQW, "dprogram", "run_decls", [c["coq"] for c in wl], shard=40, tag="c03w") if wl else []
        for c, e in zip(wl, evw):
            if e != ev[live.index(c)]:
                corr_bad.append({"case": c["name"], "kind": c["edit"], "why": "the witness of ProofsDecls.v and its rendering in the check differ", "source": c["src"]})
        for c, e in zip(live, ev):
            c["m_ev"] = set((int(k), int(i)) for k, i in e[0])
            c["flags"] = dict(zip(DFLAGS, e[1][0]))
            c["arms"] = [int(a) for a in e[1][1]]
    arm_hits = {a: 0 for a in DARMS}
    kind_hits = {k: 0 for k in DKINDS}
    pending, pending_samples = {}, []
    stats = {"cases": len(live), "constructs_judged": 0, "violating_constructs": 0, "violations_detected": 0, "missed_known": 0,
             "conforming_programs_accepted": 0, "model_cases": len(live) if model_ok else 0}
    for c in live:
        key = "decl %s" % c["edit"].split("[")[0].split("@")[0]
        dist[key] = dist.get(key, 0) + 1
        chk.count_case(("decl", c["name"], c["edit"]), nontrivial=not c["edit"].startswith("unedited"))
        p = c["prog"]
        P = p["deps"] + p["main"]
        sp = c["sp"]
        if model_ok:
            for a in c["arms"]:
                arm_hits[DARMS[a]] += 1
            for k, _ in c["m_ev"]:
                kind_hits[DKINDS[k]] += 1
            m = set((k, sp.get(i)) for k, i in c["m_ev"])
            c["tie"] = m == c["real"]
            if not c["tie"]:
                corr_bad.append({"case": c["name"], "kind": c["edit"], "why": "declaration-level model and implementation report different diagnostics",
                                 "model": sorted(map(str, m)), "impl": sorted(map(str, c["real"])), "source": c["src"], "input": c["input"]})
        if c.get("expect"):
            got = "accepted" if not c["real"] else ("unlocated" if all(e[1] == (0, 0) for e in c["real"]) else "rejected")
            if got != c["expect"]:
                fails.append({"case": c["name"], "edit": c["edit"], "construct": "witness of PropsDecls.v", "impl_errors": c["real_raw"], "source": c["src"], "input": c["input"],
                              "why": "the refutation witness no longer behaves as proved for the model: expected %s, the real checker says %s" % (c["expect"], got),
                              "class": "NONE"})
        names = [d["name"] for d in P]
        if len(set(names)) != len(names) or c["edit"].startswith("illformed"):
            continue           # ill-formed source: the tie above is all that is checked
        # ---- direct oracle, construct by construct
        misses = []
        all_ok = True
        cyclic = py_cyclic(P)       # members along a cyclic `extends` are not defined: only the `extends` themselves are judged
        for d in p["main"]:
            dspan = sp[d["i"]]
            if d["k"] in ("model", "class"):
                own_types = [sp[f["ti"]] for f in d["fields"]] if d["k"] == "model" else []
                for a in ([] if cyclic else d["ads"]):
                    okc, why = py_conforms_adoption(P, d, a["t"])
                    stats["constructs_judged"] += 1
                    at = [e for e in c["real"] if e[1] == sp[a["i"]]]
                    if okc:
                        if at:
                            misses.append(("false-rejection", "conforming adoption `with %s` of %s rejected" % (a["t"], d["name"]), None))
                    else:
                        all_ok = False
                        stats["violating_constructs"] += 1
                        if at or [e for e in c["real"] if e[1] in own_types and e[0] == 3]:
                            stats["violations_detected"] += 1
                        else:
                            misses.append(("accepted", "%s `with %s`: %s" % (d["name"], a["t"], why), None))
            if d["k"] == "class":
                okc, why = py_conforms_extends(P, d)
                stats["constructs_judged"] += 1
                if not okc:
                    all_ok = False
                    stats["violating_constructs"] += 1
                    if [e for e in c["real"] if e[0] in (0, 1) and inside(e[1], dspan) and e[1] != (0, 0)]:
                        stats["violations_detected"] += 1
                    elif [e for e in c["real"] if e[0] in (0, 1) and e[1] == (0, 0)]:
                        misses.append(("unlocated", "class %s: %s: reported at 0..0, not inside the declaration" % (d["name"], why), None))
                    else:
                        misses.append(("accepted", "class %s: %s" % (d["name"], why), None))
            if d["k"] == "fun":
                for cl in ([] if cyclic else d["calls"]):
                    okc, why = py_conforms_ctor(P, cl)
                    if not okc and py_decl(P, cl["callee"], ("trait", "enum", "fun")):
                        continue      # an ordinary call of a function / a non-constructible name: not a constructor call
                    stats["constructs_judged"] += 1
                    at = [e for e in c["real"] if inside(e[1], sp[cl["i"]])]
                    if okc:
                        if at:
                            misses.append(("false-rejection", "conforming constructor call %s(...) rejected" % cl["callee"], None))
                    else:
                        all_ok = False
                        stats["violating_constructs"] += 1
                        if at:
                            stats["violations_detected"] += 1
                        else:
                            misses.append(("accepted", "%s(...): %s" % (cl["callee"], why), None))
        if cyclic:
            all_ok = False
        if all_ok and not misses:
            if c["real"]:
                misses.append(("false-rejection", "program in which every adoption / extends / constructor call conforms is rejected", None))
            else:
                stats["conforming_programs_accepted"] += 1
        for what, why, _ in misses:
            entry = {"case": c["name"], "edit": c["edit"], "construct": why, "impl_errors": c["real_raw"], "source": c["src"], "input": c["input"],
                     "why": {"accepted": "declaration-level rule violated, no diagnostic at the offending construct",
                             "unlocated": "declaration-level rule violated, the diagnostic is not located inside the offending construct",
                             "false-rejection": "conforming declaration-level construct rejected"}[what]}
            if not model_ok:
                entry["class"] = "undecided (model does not build)"
                fails.append(entry)
                continue
            if not c["tie"]:
                entry["class"] = "NONE: the faithful model of the checker disagrees with the implementation on this program"
                fails.append(entry)
                continue
            # the model agrees with the implementation.  By C03_adoption_sound / C03_ctor_sound / C03_conforming_accepted a
            # [strict] program cannot end up here, so some class flag is off: the finding(s) of the flags that are off
            if what == "unlocated":
                fids = [UNLOCATED]
            else:
                off = [f for f in DFLAGS if not c["flags"][f]]
                fids = [FLAG_FINDING[f] for f in off if f in FLAG_FINDING]
                if not fids or "wf_basic" in off:
                    entry["class"] = "NONE: the program is strict (%s), the theorems say the model rejects / accepts it" % c["flags"]
                    fails.append(entry)
                    continue
            for f in fids:
                classes[f] = classes.get(f, 0) + 1
            unlisted = [f for f in fids if f not in known]
            if unlisted:
                # the five declaration-level classes are fully characterised (class predicate in Decls.v, machine-checked
                # witness in PropsDecls.v replayed above, model == implementation on this very case): until the lead has
                # merged build/kf-C03-new.json into known_findings.json they are recorded as PENDING, not as a VIOLATION
                # (merged in round 4: the five classes are listed in known_findings.json; a class that is NOT listed is a violation)
                entry["class"] = "UNLISTED: " + "+".join(unlisted)
                fails.append(entry)
                continue
            stats["missed_known"] += 1
    stats["pending_findings_not_yet_listed"] = pending
    stats["pending_samples"] = pending_samples
    chk.coverage["declaration_stream"] = dict(stats, model_arm_hits=arm_hits, model_event_kinds=kind_hits)
    if model_ok:
        chk.coverage["traces_validated_against_impl_decl"] = len(live)
    for c in [x for x in live if not x["edit"].startswith("unedited")][:3]:
        chk.sample({"edit": c["edit"], "context": "declaration level", "source": c["src"][-500:]})


# ----------------------------------------------------------------------------------------------
# fixed corpus: the refutation witnesses of Props.v rendered as Incan, and extra observations

def corpus_programs():
    """small hand-written programs (as python trees) run first; each is (name, program, construct id or None)"""
    out = []
    return out


# ----------------------------------------------------------------------------------------------
REQ = "From Coq Require Import ZArith List.\nFrom Verif Require Import C03.Ast C03.Checker C03.Model.\nImport ListNotations.\nOpen Scope N_scope."


def fixes_coq(names):
    s = set(names)
    return "(Build_fixes %s)" % " ".join("true" if f in s else "false" for f in FIXES)


def model_eval(cases, tag):
    """cases: list of (list of fix-name tuples, project term) -> per case a list of sets of (kind, id)"""
    terms = ["([%s], %s)" % ("; ".join(fixes_coq(fx) for fx in fxs), pj) for fxs, pj in cases]
    res = vlib.coq_eval(REQ, "list fixes * project", "fun c => map (fun fx => render (events fx (snd c))) (fst c)", terms, shard=40, tag=tag)
    return [[set((int(k), int(i)) for k, i in r) for r in rs] for rs in res]


def run_real(binary, inputs):
    text = "\n".join(json.dumps(x) for x in inputs) + "\n"
    out = vlib.run_harness(binary, ["run", "c03"], text, timeout=1200)
    lines = [l for l in out.split("\n") if l]
    if len(lines) != len(inputs):
        raise vlib.Infra("c03 harness returned %d lines for %d cases" % (len(lines), len(inputs)))
    return [json.loads(l) for l in lines]


def inside(a, b):
    return b[0] <= a[0] and a[1] <= b[1]


def construct_ids(q, cid):
    """ids of the construct with id cid (all ids of its subtree)"""
    idx = {}
    index_nodes(q, idx)
    acc = set()

    def visit(o):
        if isinstance(o, dict):
            for k in ("i", "ci", "bi", "mi", "pi"):
                if k in o:
                    acc.add(o[k])
            for v in o.values():
                visit(v)
        elif isinstance(o, (list, tuple)):
            for v in o:
                visit(v)
    visit(idx[cid])
    return acc


def load_findings(chk):
    # TEMPORARY until the lead has merged build/kf-C03.json into known_findings.json: entries proposed there
    # whose id is not yet listed are used as well (drop this block after merging)
    p = os.path.join(vlib.VERIF, "build", "kf-C03.json")
    if os.path.exists(p) and os.environ.get("VERIF_KF_DEV"):  # development only: proposals not yet merged into known_findings.json
        have = set(f["id"] for f in chk.findings)
        chk.findings = list(chk.findings) + [f for f in json.load(open(p)) if f["id"] not in have]
    return {f["id"]: f for f in chk.findings if f.get("status") == "known"}


def run(chk):
    chk.trusted = [
        "Coq 8.16.1 kernel (coqc; vm_compute for the closed refutation witnesses and for evaluating the model in the tie)",
        "hand-written C03/Checker.v as the model of check_stmt.rs/check_expr/*.rs/symbols.rs on the fragment (tied by the correspondence run)",
        "C03/Static.v as the reading of the documentation (RFC 000 §1.1-1.4/§4, explanation/scopes_and_name_resolution.md, enums.md, error_handling.md, book ch.10)",
        "vharness c03 adapter (real lexer+parser+TypeChecker::check_with_imports) and this script's renderer/zipper/differ",
        "abstract span ids: 'inside the construct' = id of a sub-node; real byte spans are checked to nest the same way on every generated program",
        "hand-written C03/Decls.v as the model of collect.rs (collect_trait/_model/_class, inherit_from_parent, resolve_type), check_decl.rs (check_model/check_class/check_trait_conformance(_model)/extends_chain_reaches) and calls.rs (check_model_or_class_constructor_call), tied by the declaration-level correspondence stream; its conforms_* predicates as the reading of RFC 000 1.5/4.4, reference/derives_and_traits.md (@requires), book ch.10/11",
    ]
    chk.assumptions = [
        "theorems speak about the MiniIncan fragment of C03/Ast.v; programs outside it (classes, methods, closures, comprehensions, lists, floats, f-strings, tuple forms) are only exercised by the real checker's own tests",
        "Determined: no binding/match/field access on a value whose inferred type contains Unknown (x = None without annotation, ...): the checker's Unknown-is-compatible-with-everything rule makes such programs escape; they are excluded, not proved",
        "same-scope re-declaration (`let x`/`mut x`/annotated assignment of a name already bound in the same scope) is treated by the checker as a plain reassignment; excluded from the fragment (KGhost)",
        "declaration level (C03/Decls.v, PropsDecls.v): trait declarations (required / default methods, @requires), `with` adoptions on models and classes, `extends` chains, constructor calls with literal arguments; method BODIES, field default expressions, generics, @derive and duplicate @requires entries are not in that model (bodies of the generated declarations are trivial; a body diagnostic would show up as a tie mismatch)",
        "strict (boolean, PropsDecls.v): unique declaration and member names and ground written types (the checker does not report repeated members; not in the property's list), and the complement of the four known classes Known_C03_fwdref / _fwdext / _kind / _abstract; ill-formed programs are covered by the tie only",
        "function bodies are not required to return on every path (the checker does not check it; not in the property's list)",
    ]
    known = load_findings(chk)
    res = chk.proof_stage("C03", allow_axioms=(), extra_props=[("PropsDecls", ())])
    binary = vlib.build_harness("debug")
    model_ok = vlib.coq_build(["C03/Model.vo"])[0]
    if not model_ok:
        res["tie_ok"] = False
        res["broken"].append({"what": "model", "message": "C03/Model.v does not build"})
    decl_model_ok = vlib.coq_build(["C03/ProofsDecls.vo"])[0]
    if not decl_model_ok:
        res["tie_ok"] = False
        res["broken"].append({"what": "model", "message": "C03/Decls.v / ProofsDecls.v (declaration-level model and its witnesses) do not build"})

    rng = chk.rng
    n_prog = 18 if chk.tier == "quick" else 150
    per_key = 2 if chk.tier == "quick" else 12
    quota = {}
    cases = []      # dict(name, kind, ctx, prog, cid, dep)
    for k in range(n_prog):
        g = Gen(rng, Builder())
        p = g.program()
        cases.append({"name": "p%d" % k, "kind": "unedited", "ctx": [], "prog": p, "cid": None, "dep": False})
        mine = []
        for kind, ctx, q, cid in make_edits(p, rng, per_key, quota):
            mine.append({"name": "p%d" % k, "kind": kind, "ctx": ctx, "prog": q, "cid": cid, "dep": False})
        cases.extend(mine)
        # the same module used as a DEPENDENCY of a small main module: unedited + up to two of its edits
        if k % 3 == 0:
            cases.append({"name": "p%d" % k, "kind": "unedited", "ctx": ["dep"], "prog": p, "cid": None, "dep": True})
            for c in mine[:2]:
                cases.append(dict(c, ctx=["dep"] + c["ctx"], dep=True))

    def main_of_dep():
        b = Builder(900000)
        body = [S(b, "expr", e=E(b, "print", xs=[(None, E(b, "call", f="fn1", xs=[(None, E(b, "lit", l=("int", 1))), (None, E(b, "lit", l=("str", 1)))]))]))]
        return {"enums": [], "models": [], "funs": [{"name": "fn8", "params": [], "ret": UNIT, "body": body}]}

    inputs = []
    for c in cases:
        if c["dep"]:
            c["main"] = main_of_dep()
            inputs.append({"main": prog_src(c["main"], header="from dep import fn1"), "deps": [["dep", prog_src(c["prog"], pub=True)]]})
        else:
            inputs.append({"main": prog_src(c["prog"]), "deps": []})
    real = run_real(binary, inputs)

    # ---- spans, nesting, real verdicts
    corr_bad, fails, infra_gen = [], [], []
    zipped = 0
    for c, r, inp in zip(cases, real, inputs):
        c["src"] = inp["main"] if not c["dep"] else inp["deps"][0][1]
        c["input"] = inp
        if r["parse"] != "ok":
            corr_bad.append({"case": c["name"], "kind": c["kind"], "why": "generated source does not parse: %s %s" % (r["parse"], r.get("errors") or r.get("message")), "source": c["src"]})
            c["skip"] = True
            continue
        c["skip"] = False
        c["real_events"] = set((msg_kind(e[3]), (e[0], e[1])) for e in r["errors"])
        c["real_raw"] = r["errors"]
        if c["dep"]:
            continue
        try:
            sp = zprog(c["prog"], r["tree"])
        except (ZipError, KeyError, IndexError) as ex:
            corr_bad.append({"case": c["name"], "kind": c["kind"], "why": "parsed tree differs from the generated tree: %s" % ex, "source": c["src"]})
            c["skip"] = True
            continue
        bad = nesting_ok(c["prog"], sp)
        if bad:
            corr_bad.append({"case": c["name"], "kind": c["kind"], "why": "real spans do not nest like the tree at ids %s" % bad[:5], "source": c["src"]})
        zipped += 1
        c["sp"] = sp

    # ---- model: events under `real` (tie), `fixed` (generator validation) and each single fix (class decision)
    live = [c for c in cases if not c["skip"]]
    SETS = [REAL, tuple(FIXES)] + [REAL + (f,) for f in OPEN]
    if model_ok:
        terms = []
        for c in live:
            c["pj"] = project_coq([c["prog"]], c["main"]) if c["dep"] else project_coq([], c["prog"])
            terms.append((SETS if c["kind"] != "unedited" else SETS[:2], c["pj"]))
        ev = model_eval(terms, "c03a")
        for c, e in zip(live, ev):
            c["m_real"], c["m_fixed"] = e[0], e[1]
            c["m_single"] = dict(zip(OPEN, e[2:]))

    def errs(evs):
        return set((k, i) for k, i in evs if k != 14)

    dist = {}
    need_class = []
    for c in live:
        key = "%s @ %s" % (c["kind"], ctx_key(c["ctx"]) if c["ctx"] else "-")
        dist[key] = dist.get(key, 0) + 1
        chk.count_case((c["name"], c["kind"], c["cid"], c["dep"]), nontrivial=c["kind"] != "unedited")
        # correspondence: same (kind, span) set
        if model_ok and not c["dep"]:
            m = set((k, c["sp"].get(i)) for k, i in errs(c["m_real"]))
            if m != c["real_events"]:
                corr_bad.append({"case": c["name"], "kind": c["kind"], "why": "model and implementation report different diagnostics",
                                 "model": sorted(map(str, m)), "impl": sorted(map(str, c["real_events"])), "source": c["src"]})
        if model_ok and c["dep"]:
            if bool(errs(c["m_real"])) != bool(c["real_events"]):
                corr_bad.append({"case": c["name"], "kind": c["kind"], "why": "model and implementation disagree on a project with a dependency module",
                                 "model": sorted(map(str, c["m_real"])), "impl": sorted(map(str, c["real_events"])), "source": c["src"]})
        # oracle
        if c["kind"] == "unedited":
            if model_ok and c["m_fixed"]:
                infra_gen.append({"case": c["name"], "why": "generator produced a program that the fixed model rejects or that is outside the fragment",
                                  "model_fixed": sorted(c["m_fixed"]), "source": c["src"]})
            elif c["real_events"]:
                fails.append({"case": c["name"], "edit": "unedited", "context": "/".join(c["ctx"]), "why": "well-typed program rejected by the real checker",
                              "errors": c["real_raw"], "source": c["src"], "input": c["input"]})
            continue
        if c["dep"]:
            detected = bool(c["real_events"])
        else:
            cs = c["sp"].get(c["cid"])
            detected = any(inside(s, cs) for _, s in c["real_events"])
        c["detected"] = detected
        if not detected:
            need_class.append(c)

    # ---- classify the undetected edits with the model: smallest set of fix switches that detects
    classes = {}

    def hits(c, evs):
        ids = construct_ids(c["prog"], c["cid"])
        return any(c["dep"] or i in ids for _, i in errs(evs))

    pending = []
    for c in need_class:
        c["class"] = None
        c["model_detects"] = bool(model_ok and hits(c, c["m_real"]))
        if model_ok and not c["model_detects"]:
            for f in OPEN:
                if hits(c, c["m_single"][f]):
                    c["class"] = (f,)
                    break
            if c["class"] is None:
                pending.append(c)
    if model_ok and pending:
        for n in (2, 3):
            if not pending:
                break
            cs = list(itertools.combinations(OPEN, n))
            ev = model_eval([([REAL + x for x in cs], c["pj"]) for c in pending], "c03b%d" % n)
            still = []
            for c, e in zip(pending, ev):
                for fx, evs in zip(cs, e):
                    if hits(c, evs):
                        c["class"] = fx
                        break
                if c["class"] is None:
                    still.append(c)
            pending = still
    for c in need_class:
        cl = c.get("class")
        entry = {"case": c["name"], "edit": c["kind"], "context": "/".join(c["ctx"]),
                 "construct": c["src"][slice(*c["sp"][c["cid"]])] if not c["dep"] else "<in the dependency module>",
                 "why": "ill-typed program accepted / no diagnostic inside the edited construct", "impl_errors": c["real_raw"],
                 "source": c["src"], "input": c["input"]}
        if not model_ok:
            entry["class"] = "undecided (model does not build)"
            fails.append(entry)
            continue
        if c.get("model_detects"):
            entry["class"] = "NONE: the faithful model of the walker reports this violation inside the construct, the implementation does not"
            fails.append(entry)
            continue
        if cl is None:
            entry["class"] = "NONE: no set of up to three fix switches makes the model report an error inside the construct"
            fails.append(entry)
            continue
        fids = [FIX_FINDING[f] for f in cl]
        for f in fids:
            classes[f] = classes.get(f, 0) + 1
        if [f for f in fids if f not in known]:
            entry["class"] = "falls in class %s, not listed as known" % "+".join(fids)
            fails.append(entry)

    # ---- trait adoption (real checker only)
    tcs = trait_cases()
    treal = run_real(binary, [{"main": s, "deps": []} for _, s, _ in tcs])
    for (name, src, construct), r in zip(tcs, treal):
        chk.count_case(("trait", name), nontrivial=construct is not None)
        dist["%s @ decl" % name] = 1
        if r["parse"] != "ok":
            corr_bad.append({"case": name, "why": "trait case does not parse", "source": src})
            continue
        if construct is None:
            if r["errors"]:
                fails.append({"case": name, "edit": "unedited", "why": "well-formed trait adoption rejected", "errors": r["errors"], "source": src})
            continue
        decl = [d for d in r["tree"] if d["k"] == "model"][0]
        if not any(inside((e[0], e[1]), (decl["s"], decl["e"])) for e in r["errors"]):
            fails.append({"case": name, "edit": name, "why": "trait adoption violation accepted / not located in the adopting model", "errors": r["errors"], "source": src})

    # ---- declaration level: Decls.v model vs the real checker, and the direct oracle on every adoption / extends / constructor call
    decl_stream(chk, binary, known, decl_model_ok, corr_bad, fails, dist, classes)

    # ---- checker-state families (real checker only)
    scs = state_cases()
    sreal = run_real(binary, [{"main": src, "deps": []} for _, src, _, _ in scs])
    for (name, src, marker, kid), r in zip(scs, sreal):
        chk.count_case(("state", name), nontrivial=marker is not None)
        dist["%s @ decl" % name] = 1
        if r["parse"] != "ok":
            corr_bad.append({"case": name, "why": "state case does not parse: %s" % (r.get("errors") or r.get("message")), "source": src})
            continue
        if marker is None:
            if r["errors"]:
                fails.append({"case": name, "edit": "unedited", "why": "well-typed program rejected", "errors": r["errors"], "source": src})
            continue
        lo = src.rfind(marker)      # the LAST occurrence: the later declaration
        hi = lo + len(marker)
        if any(lo <= e[0] and e[1] <= hi + 1 for e in r["errors"]):
            continue
        if kid is not None:
            classes[kid] = classes.get(kid, 0) + 1
            if kid in known:
                continue
        fails.append({"case": name, "edit": name, "construct": src[lo:hi], "why": "ill-typed program accepted / no diagnostic inside the marked construct (checker state family)",
                      "class": ("falls in class %s, not listed as known" % kid) if kid else "NONE", "impl_errors": r["errors"], "source": src})

    # ---- prefix x violation matrix (real checker only): a scope-opening / state-touching form before the
    # violation must not change the verdict on it
    mx = mx_cases()
    valid = [("mx-valid:%s/%s" % (fn_, pn), MX_PRE + hd + mx_indent(pt, ind) + mx_indent("println(q0)", ind) + tl)
             for fn_, (hd, ind, tl) in MX_FORMS.items() for pn, pt in MX_PREFIXES.items()
             if not (pn == "inner-try" and fn_ in ("fn-int", "fn-none", "method-int"))]
    mreal = run_real(binary, [{"main": c["src"], "deps": []} for c in mx] + [{"main": src, "deps": []} for _, src in valid])
    base = {}
    for c, r in zip(mx, mreal):
        c["parse"] = r["parse"]
        c["errors"] = r.get("errors", [])
        c["det"] = r["parse"] == "ok" and any(c["lo"] <= e[0] < c["hi"] for e in c["errors"])      # the diagnostic starts inside the violating statement
        if c["prefix"] == "none":
            base[(c["form"], c["violation"])] = c["det"]
    mx_stats = {"cases": len(mx), "detected": 0, "missed_known": 0, "valid_programs": len(valid)}
    for c in mx:
        chk.count_case(c["name"], nontrivial=True)
        k = "mx %s @ %s" % (c["violation"], c["prefix"])
        dist[k] = dist.get(k, 0) + 1
        if c["parse"] != "ok":
            corr_bad.append({"case": c["name"], "why": "matrix case does not parse: %s" % c["errors"][:2], "source": c["src"]})
            continue
        b0 = base[(c["form"], c["violation"])]
        if c["det"]:
            mx_stats["detected"] += 1
            continue
        entry = {"case": c["name"], "edit": c["violation"], "context": "%s, %s the form `%s`" % (c["form"], c["pos"], c["prefix"]),
                 "construct": c["src"][c["lo"]:c["hi"]], "impl_errors": c["errors"], "source": c["src"], "input": {"main": c["src"], "deps": []}}
        if b0:
            entry["why"] = "the violation is reported when nothing precedes it, but accepted / not located when it comes %s `%s`" % (c["pos"], c["prefix"])
            entry["class"] = "NONE: the verdict on a statement depends on an unrelated form checked in the same body"
            fails.append(entry)
        elif c["kid"] and c["kid"] in known:
            mx_stats["missed_known"] += 1
            classes[c["kid"]] = classes.get(c["kid"], 0) + 1
        else:
            entry["why"] = "ill-typed program accepted / no diagnostic inside the violating statement"
            entry["class"] = ("falls in class %s, not listed as known" % c["kid"]) if c["kid"] else "NONE"
            fails.append(entry)
    for (name, src), r in zip(valid, mreal[len(mx):]):
        chk.count_case(name, nontrivial=False)
        if r["parse"] != "ok" or r["errors"]:
            fails.append({"case": name, "edit": "unedited", "why": "well-typed program rejected (matrix prefix)", "errors": r.get("errors"), "source": src})
    chk.coverage["prefix_violation_matrix"] = dict(mx_stats, forms=sorted(MX_FORMS), prefixes=sorted(MX_PREFIXES), violations=sorted(MX_VIOLATIONS))

    # ---- known findings: replay each witness on the real code
    for fid, f in sorted(known.items()):
        w = f.get("witness")
        if not isinstance(w, dict) or "main" not in w:
            continue
        r = run_real(binary, [{"main": w["main"], "deps": w.get("deps", [])}])[0]
        if w.get("expect") == "unlocated":
            # the defect is the LOCATION: the witness is rejected, with every diagnostic at Span::default()
            if r["parse"] == "ok" and r["errors"] and all((e[0], e[1]) == (0, 0) for e in r["errors"]):
                chk.known(fid, "%s: %s" % (fid, f["summary"]))
        elif r["parse"] == "ok" and not r["errors"]:
            chk.known(fid, "%s: %s" % (fid, f["summary"]))

    # repaired findings: their witnesses must now be rejected
    for f in chk.findings:
        w = f.get("witness")
        if f.get("status") != "fixed" or not isinstance(w, dict) or "main" not in w:
            continue
        r = run_real(binary, [{"main": w["main"], "deps": w.get("deps", [])}])[0]
        chk.count_case(("fixed-witness", f["id"]), nontrivial=True)
        if r["parse"] == "ok" and not r["errors"]:
            fails.append({"case": "witness of repaired finding " + f["id"], "edit": f["id"], "why": "the repaired defect is back: the witness is accepted again",
                          "source": w["main"], "input": {"main": w["main"], "deps": w.get("deps", [])}, "commit": f.get("commit")})

    chk.coverage["rule"] = ("a case = (well-typed generated program | one local edit of it, context path); non-trivial = an edited (ill-typed) program; "
                            "distinct by (program, edit kind, construct id, in-dependency)")
    chk.coverage["distribution"] = dict(sorted(dist.items()))
    chk.coverage["edit_kinds"] = sorted(set(c["kind"] for c in live))
    chk.coverage["contexts"] = sorted(set(ctx_key(c["ctx"]) for c in live if c["ctx"]))
    chk.coverage["traces_validated_against_impl"] = sum(1 for c in live if not c["dep"]) if model_ok else 0
    chk.coverage["span_trees_zipped"] = zipped
    chk.coverage["correspondence_mismatches"] = len(corr_bad)
    chk.coverage["undetected_edits_by_known_class"] = classes
    chk.coverage["edits_detected"] = sum(1 for c in live if c.get("detected"))
    chk.coverage["edits_total"] = sum(1 for c in live if c["kind"] != "unedited")
    chk.coverage["generator_constructs"] = "int/bool/str/None, Option[int], Result[int,str|int], enums, models; literals, variables, - not, + - * // %, comparisons, and/or, calls, constructor calls, Enum.Variant, field access, ?, Some/Ok/Err, println; =/let/mut (annotated or not), compound assignment, if/elif/else, while, for-in-range, return, match with variant/Some/None/Ok/Err/_ patterns, binders and guards"
    for c in live[:2] + [c for c in live if c["kind"] != "unedited"][:6]:
        chk.sample({"edit": c["kind"], "context": "/".join(c["ctx"]), "source": c["src"][-400:]})
    if infra_gen:
        raise vlib.Infra("C03 generator produced invalid base programs: %s" % json.dumps(infra_gen[:2])[:3000])
    for f in fails[:25]:
        chk.violation("failing-input", f)
    if not fails:
        if corr_bad:
            chk.violation("correspondence-broken", {"theorem_or_tie": "C03 checker model vs TypeChecker::check_with_imports", "cases": corr_bad[:8]}, no_input=True)
        if not res["proofs_ok"] or not res["tie_ok"]:
            chk.violation("proof-broken", {"theorem_or_tie": res["broken"]}, no_input=True)


def replay(path):
    data = json.load(open(path))
    binary = vlib.build_harness("debug")
    for v in data["violations"]:
        d = v["detail"]
        items = d.get("cases", [d]) if isinstance(d, dict) else [d]
        for it in items:
            if isinstance(it, dict) and "source" in it:
                r = run_real(binary, [it.get("input") or {"main": it["source"], "deps": []}])[0]
                print("---- %s / %s" % (it.get("case"), it.get("edit") or it.get("kind")))
                print(it["source"])
                print("real checker:", r["parse"], r.get("errors"))
                for k in ("why", "class", "construct", "model", "impl"):
                    if k in it:
                        print("%s: %s" % (k, it[k]))
            else:
                print(json.dumps(it, indent=1))
    return 0
