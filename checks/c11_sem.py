"""Grammar-directed stream for C11: small WELL-FORMED programs with deliberate semantic oddities, crossed
systematically (built-in generic types at every arity x positions x every way of using a value; constructor
patterns at right and wrong arities; calls, constructors, methods, operators, control flow, decorators, imports,
duplicates, recursion).  Deterministic: the full cross product is enumerated in a fixed order and the quick tier
takes a seeded sample.  Used by checks/c11.py (helper module of the C11 check)."""

HEADER = """model P:
    x: int
    y: str = "a"

    def m(self, k: int) -> int:
        return k

enum E:
    A
    B(int)
    C(int, str)

type N = newtype int

trait Tr:
    def t(self) -> int: ...

class K with Tr:
    z: int

    def t(self) -> int:
        return self.z

def g(a: int, b: str = "s") -> int:
    return a

"""

# ---------------------------------------------------------------------------------- types

BUILTIN_ARITIES = [
    "Result", "Result[int]", "Result[int, str]", "Result[int, str, bool]",
    "Option", "Option[int]", "Option[int, str]",
    "List", "List[int]", "List[int, str]",
    "Dict", "Dict[str]", "Dict[str, int]", "Dict[str, int, bool]",
    "Set", "Set[int]", "Set[int, str]",
    "Tuple", "Tuple[int]", "Tuple[int, str]", "Tuple[int, str, bool]", "(int, str)", "(int,)",
    "FrozenList[int]", "FrozenList", "FrozenDict[str]", "FrozenDict[str, int]", "FrozenSet[int, int]",
]
NESTED = [
    "Option[Result[str]]", "Option[Result[int, str]]", "Result[Option[int]]", "Result[Result[int], Result[str]]",
    "List[Option[Result[int]]]", "Dict[List[int], Set[str]]", "Option[Option[Option[int]]]", "Result[(int, str)]",
    "Tuple[Result[int], Option[str]]", "List[Dict[str]]", "Option[E]", "Result[P, E]", "Result[E]", "List[P]", "Dict[str, P]",
    "Option[N]", "Result[N]", "Option[Tr]", "List[K]",
]
SIMPLE = ["int", "str", "bool", "float", "None", "Unit", "bytes", "P", "E", "N", "K", "Tr", "Zzz", "P[int]", "E[int, str]", "int[str]",
          "(int) -> int", "() -> None", "Self", "FrozenStr"]
TYPES = BUILTIN_ARITIES + NESTED + SIMPLE

# ---------------------------------------------------------------------------------- ways of using a value v of the type

PATTERNS = ["Ok(a)", "Ok()", "Ok(a, b)", "Ok(_)", "Err(e)", "Err()", "Err(_)", "Err(a, b)", "Some(x)", "Some()", "Some(a, b)", "Some(_)",
            "None", "None(x)", "E.A", "E.B(x)", "E.B()", "E.B(x, y, z)", "E.C(x)", "E.C(x, y)", "E.Zzz(x)", "E.A(x)", "Zzz(x)", "Zzz", "P(x)",
            "P(x, y, z)", "N(x)", "(a, b)", "(a, b, c)", "(a,)", "()", "1", '"s"', "True", "1.5", "_", "y",
            "Some(Err(_))", "Some(Ok(q))", "Ok(Some(x))", "Ok(Err(z))", "Err(Ok(z))", "Err(Err(z))", "Some(Some(Some(x)))", "Ok((a, b))",
            "(Ok(a), Some(b))", "(Err(a), None)", "Some(E.B(x))", "Ok(E.C(x))", "Err(P(x))"]


def match_arrow(p):
    return "    match v:\n        %s => return 1\n        _ => return 2\n" % p


def match_case(p):
    return "    match v:\n        case %s:\n            return 1\n        case _:\n            return 2\n" % p


def match_only(p):
    return "    match v:\n        %s => return 1\n    return 3\n" % p


def match_guard(p):
    return "    match v:\n        %s if 1 > 0 => return 1\n        _ => return 2\n" % p


STMTS = ["w = v?", "w = v.unwrap()", "w = v[0]", "w = v[1]", "w = v[-1]", "w = v[1:2]", "w = v[::0]", "w = v[:]", 'w = v["k"]', "w = v[v]",
         "w = v.0", "w = v.1", "w = v.5", "w = v.zzz", "w = v.x", "w = v.len()", "w = v.m(1)", "w = v.m()", "w = v.t()", "w = v()", "w = v(1)",
         "w = v(a=1)", "for q in v:\n        pass", "for a, b in v:\n        pass", "w = len(v)", "w = v + v", "w = v + 1", 'w = v + "s"', "w = not v",
         "w = -v", "w = v == v", "w = v and 1", "w = v in v", "w = 1 in v", "w = v ** v", "w = v // 0", "w = v % v", 'w = v < "s"', "w = v is None",
         "w = await v", 'w = f"{v}"', 'w = f"{v.x} {v[0]} {v?}"', "v = v", "v += 1", "v.x = 1", "v[0] = 1", "a, b = v", "x = y = v", "w = [q for q in v]",
         "w = {q: q for q in v}", "w = (q) => v", "w = v if v else v", "w = g(v)", "w = g(v, v)", "w = P(x=v)", "w = E.B(v)", "w = N(v)", "w = Some(v)?",
         "w = Ok(v)?", "w = Err(v)?", "w = str(v)", "w = int(v)", "w = float(v)", "w = range(v)", "w = v..v", "w = [v, 1, \"s\"]", "w = {v: v}",
         "w = {v, v}", "w = (v, v).2", "return v", "while v:\n        break", "if v:\n        pass\n    elif v > 1:\n        pass", "assert v",
         "let w: int = v", "mut w: str = v", "w: List[int] = v", "println(v)", "yield v", "w = v as int" ]


def usages():
    out = []
    for p in PATTERNS:
        out.append(("match=>:" + p, match_arrow(p)))
    for p in PATTERNS[::2]:
        out.append(("matchcase:" + p, match_case(p)))
    for p in PATTERNS[::3]:
        out.append(("matchonly:" + p, match_only(p)))
    for p in PATTERNS[::5]:
        out.append(("matchguard:" + p, match_guard(p)))
    for s in STMTS:
        out.append(("stmt:" + s.split("\n")[0], "    %s\n    return 0\n" % s))
    return out


def typed_value_programs():
    """types x usages: the value is a parameter of that type."""
    us = usages()
    for t in TYPES:
        for (uname, body) in us:
            yield ("sem-type-use", "%s|%s" % (t, uname), HEADER + "def f(v: %s) -> int:\n%s" % (t, body))


def position_programs():
    """every type in every declaration position, with a trivial use."""
    for t in TYPES:
        yield ("sem-type-position", "return|" + t, HEADER + "def f() -> %s:\n    pass\n\ndef h() -> None:\n    w = f()\n    match w:\n        Err(e) => pass\n        Some(s) => pass\n        _ => pass\n" % t)
        yield ("sem-type-position", "field|" + t, HEADER + "model M:\n    a: %s\n\ndef h(m: M) -> None:\n    match m.a:\n        Err(e) => pass\n        Ok(o) => pass\n        None => pass\n        _ => pass\n    w = m.a?\n" % t)
        yield ("sem-type-position", "classfield|" + t, HEADER + "class Q:\n    a: %s\n\n    def get(self) -> %s:\n        return self.a\n\ndef h(q: Q) -> None:\n    w = q.get()\n    x = w[0]\n" % (t, t))
        yield ("sem-type-position", "let|" + t, HEADER + "def h() -> None:\n    let a: %s = None\n    mut b: %s = a\n    match b:\n        Err(e) => pass\n        _ => pass\n" % (t, t))
        yield ("sem-type-position", "const|" + t, HEADER + "const A: %s = 1\n\ndef h() -> None:\n    println(A)\n" % t)
        yield ("sem-type-position", "newtype|" + t, HEADER + "type W = newtype %s\n\ndef h(w: W) -> None:\n    x = w.0\n    match w.0:\n        Err(e) => pass\n        _ => pass\n" % t)
        yield ("sem-type-position", "alias|" + t, HEADER + "type W = %s\n\ndef h(w: W) -> None:\n    match w:\n        Err(e) => pass\n        Some(x) => pass\n        _ => pass\n" % t)
        yield ("sem-type-position", "variant|" + t, HEADER + "enum V:\n    One(%s)\n    Two(%s, %s)\n\ndef h(v: V) -> None:\n    match v:\n        V.One(Err(e)) => pass\n        V.Two(a, Some(b)) => pass\n        _ => pass\n" % (t, t, t))
        yield ("sem-type-position", "closure|" + t, HEADER + "def h() -> None:\n    k = (a: %s) => a\n    w = k(1)\n" % t)
        yield ("sem-type-position", "generic-fn|" + t, HEADER + "def idn[T](a: T) -> T:\n    return a\n\ndef h(v: %s) -> None:\n    w = idn(v)\n    u = idn[%s](v)\n" % (t, t))


# ---------------------------------------------------------------------------------- expressions x expressions

VALUES = ["1", "-1", "0", "9223372036854775807", "1.5", "0.0", '"s"', '""', "True", "None", "[1, 2]", "[]", '{"a": 1}', "{}", "{1, 2}", "(1, \"s\")", "()",
          "P(x=1)", "E.A", "E.B(1)", "N(1)", "K(z=1)", "Some(1)", "Ok(1)", "Err(\"e\")", "g", "P", "E", "(q) => q", 'b"ab"', 'f"{1}"', "1..3", "range(3)",
          "[q for q in [1]]", "g(1)", "self", "Zzz"]
BINOPS = ["+", "-", "*", "/", "//", "%", "**", "==", "!=", "<", "<=", ">", ">=", "and", "or", "in", "not in", "is", ".."]


def operator_programs():
    for a in VALUES:
        for b in VALUES:
            # every pair under a rotating operator, every operator under a rotating pair: |VALUES|^2 programs
            op = BINOPS[(VALUES.index(a) * 7 + VALUES.index(b) * 3) % len(BINOPS)]
            yield ("sem-operators", "%s %s %s" % (a, op, b), HEADER + "def h() -> None:\n    w = %s %s %s\n    u = w\n" % (a, op, b))
    for op in BINOPS:
        for a in VALUES[::3]:
            yield ("sem-operators", "const %s %s %s" % (a, op, a), HEADER + "const A = %s %s %s\n\ndef h() -> None:\n    println(A)\n" % (a, op, a))
    for a in VALUES:
        for u in ["-%s", "not %s", "%s?", "%s.0", "%s[0]", "%s[1:]", "%s()", "%s.zzz", "await %s", "len(%s)", "%s.len()", "for q in %s:\n        pass",
                  "a, b = %s", "%s = 1", "%s += 1", "return %s", "match %s:\n        Err(e) => pass\n        _ => pass", "w = %s\n    w.x = 1", "yield %s"]:
            yield ("sem-unary", u % a, HEADER + "def h() -> None:\n    %s\n" % (u % a))


# ---------------------------------------------------------------------------------- hand-listed oddities

def listed_programs():
    def fn(body, sig="def h() -> None:"):
        return HEADER + sig + "\n" + "".join("    %s\n" % l for l in body.split("\n"))

    calls = ["P()", "P(1)", "P(x=1)", 'P(x=1, y="a", z=2)', "P(x=1, x=2)", "P(1, 2, 3)", 'P(y="a")', 'P(x="wrong")', "P(x=1)(2)", "P.x", "P.m(1)", "P(x=1).m()",
             "P(x=1).m(1, 2)", "P(x=1).m(k=1)", "P(x=1).m(zzz=1)", "P(x=1).nomethod()", "P.new()", "K()", "K(z=1, z=2)", "K(z=1).t(1)", "Tr()", "Tr.t()", "N()",
             "N(1, 2)", 'N("s")', "N(N(1))", "E()", "E.A()", "E.A(1)", "E.B", "E.B()", "E.B(1, 2, 3)", 'E.B("s")', "E.C(1)", "E.Zzz", "E.Zzz(1)", "E.A.x", "E.B(1).0",
             "g()", "g(1, 2, 3)", "g(a=1)", "g(zzz=1)", "g(1, a=1)", 'g(b="s")', "g(1)(2)", "g.x", "g[0]", "g[int](1)", "zzz()", "zzz.y()", "h()", "h(1)",
             "range()", "range(1, 2, 3, 4)", 'range("s")', "range(1.5)", "len()", "len(1, 2)", "len(1)", "print()", "println()", "println(1, 2, 3)", "zip()", "zip([1])",
             "enumerate()", "enumerate(1)", "min()", "max(1)", "abs()", 'abs("s")', "int()", "int(1, 2)", "str()", 'float("x")', "bool()", "sum()", "sorted()", "sorted(1)",
             "isinstance()", "Some()", "Some(1, 2)", "Ok()", "Ok(1, 2)", "Err()", "None()", "sleep()", 'sleep("s")', "json_stringify()", "json_stringify(1, 2)",
             "json_parse()", "assert_eq(1)", "assert_eq()", "assert_true()", "fail()", "input(1, 2)", "open()", "list()", "dict(1)", "set(1, 2)", "tuple()", "type(1)",
             "read_file()", "write_file(1)", "spawn()", "spawn(1)", "channel()", "channel(1, 2)", "Mutex()", "Mutex.new()", "RwLock.new(1, 2)", "HashMap.new(1)",
             '"s".upper(1)', '"s".zzz()', '"s".split()', '"s".split(1)', '"s".join()', '"s".join(1)', '"s".replace("a")', '"s".format()', '"s"[0]', '"s"[1:2:0]', '"é"[0:1]',
             "(1).upper()", "(1).abs()", "1.foo", "1.0.foo()", "[1].keys()", "[1].append()", "[1].append(1, 2)", '[1].append("s")', "[].pop()", "[1].pop(1, 2)", "[1].get()",
             "[1].insert(1)", "[1].contains()", "[1][5]", "[1][-5]", '[1]["s"]', "[1][1.5]", "[1][:1:0]", "{}.push(1)", '{"a": 1}.get()', '{"a": 1}.get(1, 2, 3)', '{"a": 1}[1]',
             '{"a": 1}.keys(1)', "{1, 2}.add()", "{1, 2}[0]", "(1, 2).0", "(1, 2).2", "(1, 2).99999999999999999999", "(1, 2)[0]", "(1,).0", "().0", "None.x", "None()", "None[0]",
             "True.x", "True()", "Some(1).unwrap(1)", "Some(1).zzz()", "Some(1).0", "Ok(1).unwrap_or()", "Err(1).map()", "Ok(1)?", "Some(1)?", "1?", '"s"?', "None?",
             "(q) => q", "((q) => q)()", "((q) => q)(1, 2)", "((q, q) => q)(1, 2)", "(() => 1)(1)", "((q: Zzz) => q)(1)", "[q for q in 1]", "[q for q in [1] if q.zzz]",
             "[zzz for q in [1]]", "{q: w for q in [1]}", "{q: q for q in {}}", "[q for q, w in [1]]", "[a for a in [b for b in [c for c in [1]]]]",
             'f"{zzz}"', 'f"{1 +}"', 'f"{}"', 'f"{P}"', 'f"{g}"', 'f"{E.B}"', 'f"{[1][5]}"', 'f"{1:>10}"', 'f"{1!r}"', 'f"{f"{1}"}"', 'f"{(1, 2).5}"',
             "1 if 2 else 3", '1 if "s" else None', "1 < 2 < 3", '1 < "s" < 3.5', "not not not 1", "-None", '-"s"', "- - -1", "1 is 1", "1 in 1", "1..2..3", "1..", "..1",
             "9223372036854775807 + 1", "-9223372036854775807 - 2", "9223372036854775807 * 2", "2 ** 64", "2 ** -1", "0 ** 0", "1 // 0", "1 % 0", "1 / 0", "1.0 // 0.0",
             "1.0 % 0.0", "(-9223372036854775807 - 1) // -1", "(-9223372036854775807 - 1) % -1", "1e308 * 10.0", "2 ** 0.5", "2.5 ** 2", '"a" * 3', '3 * "a"', '"a" * -1',
             "[1] * 2", "[1] + [\"s\"]", "(1, 2) + (3,)", '"a" + 1', '1 + "a"', "True + True", "None + None", "[1] == [1]", "P(x=1) == P(x=1)", "P(x=1) < P(x=2)", "E.A == E.A",
             "E.A < E.B(1)", "g == g", "self", "self.x", "Self", "super", "crate", "_", "__", "await 1", "await g(1)", "yield", "yield 1", "lambda", "pass", "...", "break",
             "continue", "return 1", "return", "raise 1", "del x", "global x", "import x", "assert", "assert 1, 2, 3", "x: int", "x: int = \"s\"", "let x", "mut x", "let x = y",
             "mut x = x", "x += 1", "x = x", "1 = 2", "g = 1", "P = 1", "E.A = 1", "g(1) = 2", '"s" = 1', "(a, b) = 1", "a, b = 1, 2, 3", "a, b, c = (1, 2)", "a, a = (1, 2)",
             "[a, b] = [1, 2]", "a = b = c = 1", "a.b.c = 1", "a[0][1] = 2", "len = 1", "int = 2", "None = 1", "True = False", "x = (y = 1)", "if x = 1:\n    pass"]
    for c in calls:
        yield ("sem-listed", "expr:" + c, fn("w = %s\nu = w" % c))
        yield ("sem-listed", "stmt:" + c, fn(c))
    for c in calls[::4]:
        yield ("sem-listed", "const:" + c, HEADER + "const A = %s\n" % c)
        yield ("sem-listed", "default:" + c, HEADER + "def q(a: int = %s) -> int:\n    return a\n" % c)
        yield ("sem-listed", "field-default:" + c, HEADER + "model M:\n    a: int = %s\n" % c)
        yield ("sem-listed", "return:" + c, fn("return %s" % c, "def h() -> int:"))
        yield ("sem-listed", "method:" + c, HEADER + "class Q:\n    a: int\n\n    def r(self) -> int:\n        w = %s\n        return self.a\n" % c)

    flow = ["break", "continue", "return 1", "return", "yield 1", "yield", "await g(1)", "self.x = 1", "return self", "pass", "...", '"""doc"""', "x",
            "while True:\n    pass", "while True:\n    break\nelse:\n    pass", "for q in []:\n    continue", "for q in range(0):\n    return q",
            "if True:\n    return 1\nelse:\n    return \"s\"", "if 1:\n    pass\nelif \"s\":\n    pass\nelif None:\n    pass", "match 1:\n    _ => break",
            "match 1:\n    1 => continue\n    1 => pass", "match E.A:\n    E.A => pass", "match E.A:\n    E.B(x) => pass\n    E.B(y) => pass", "match (1, 2):\n    (a, a) => pass",
            "match None:\n    Some(x) => return x\n    None => return", "match 1:\n    pass", "for q in [1]:\n    for q in [q]:\n        for q in [q]:\n            break",
            "def inner() -> int:\n    return 1\nreturn inner()", "w = (q) => (r) => (s) => q + r + s\nu = w(1)(2)(3)(4)", "with x as y:\n    pass", "try:\n    pass\nexcept:\n    pass"]
    sigs = ["def h() -> None:", "def h() -> int:", "async def h() -> None:", "def h(self) -> None:", "def h(a: int, a: int) -> None:", "def h(a: int = 1, b: int) -> None:",
            "def h(*a) -> None:", "def h(a) -> None:", "def h():", "def h() -> Zzz:", "def h[T]() -> T:", "def h[T, T](a: T) -> T:", "def h(mut a: int) -> None:", "pub def h() -> None:",
            "def main() -> int:", "def main(a: int) -> None:", "async def main() -> None:", "def __init__(self) -> None:", "def len() -> int:", "def P() -> int:"]
    for s in sigs:
        for b in flow:
            yield ("sem-flow", "%s|%s" % (s, b.split("\n")[0]), HEADER + s + "\n" + "".join("    %s\n" % l for l in b.split("\n")))
    for b in flow:
        yield ("sem-flow", "toplevel|" + b.split("\n")[0], HEADER + b + "\n")
        yield ("sem-flow", "method|" + b.split("\n")[0], HEADER + "class Q:\n    a: int\n\n    def r(self) -> None:\n" + "".join("        %s\n" % l for l in b.split("\n")))
        yield ("sem-flow", "staticlike|" + b.split("\n")[0], HEADER + "model Q:\n    a: int\n\n    def r() -> None:\n" + "".join("        %s\n" % l for l in b.split("\n")))
        yield ("sem-flow", "trait-default|" + b.split("\n")[0], HEADER + "trait Q:\n    def r(self) -> None:\n" + "".join("        %s\n" % l for l in b.split("\n")))

    decos = ["@derive", "@derive()", "@derive(1)", "@derive(Zzz)", "@derive(Debug, Debug)", "@derive(Debug)", "@derive(Eq)", "@derive(Ord)", "@derive(Hash)", "@derive(PartialOrd)",
             "@derive(Default)", "@derive(Serialize, Deserialize)", "@derive(Clone, Copy)", '@derive("Debug")', "@derive(Debug=1)", "@derive(P)", "@derive(derive)", "@route", "@route()",
             "@route(1)", '@route("/x", 1, 2)', '@route("/", methods=[])', '@route("/", methods=["GET", 1])', '@route("/{a}/{a}")', '@route("")', '@route("/x", zzz=1)', "@fixture",
             "@fixture()", '@fixture(scope="zzz")', "@fixture(1, 2)", "@fixture(autouse=1)", "@xfail", '@xfail(reason=1)', "@skip", "@skip(1)", '@skip(reason="r", x=2)', "@parametrize()",
             '@parametrize("a", [1, 2])', '@parametrize("a, b", [(1,), (1, 2, 3)])', "@parametrize(1)", "@staticmethod", "@classmethod", "@property", "@zzz", "@a.b.c", "@g", "@g(1)",
             "@P", "@1", '@"s"', "@rust::derive(Debug)", "@derive(Debug)\n@derive(Debug)", "@route(\"/a\")\n@route(\"/b\")", "@test", "@async", "@main"]
    targets = ["def d(a: int) -> int:\n    return a", "async def d() -> None:\n    pass", "model D:\n    a: int", "class D:\n    a: int\n\n    def r(self) -> int:\n        return 1",
               "enum D:\n    A\n    B(int)", "enum D:\n    A", "trait D:\n    def r(self) -> int: ...", "type D = newtype int", "const D: int = 1",
               "model D:\n    a: float\n    b: List[float]\n    c: (a: int) -> int" if False else "model D:\n    a: float\n    b: List[float]", "model D:\n    pass", "enum D:\n    pass", "class D:\n    pass"]
    for d in decos:
        for t in targets:
            yield ("sem-decorators", "%s|%s" % (d.split("\n")[0], t.split("\n")[0]), HEADER + d + "\n" + t + "\n")
        yield ("sem-decorators", d + "|method", HEADER + "class D:\n    a: int\n\n    %s\n    def r(self) -> int:\n        return 1\n" % d.replace("\n", "\n    "))
        yield ("sem-decorators", d + "|field", HEADER + "model D:\n    %s\n    a: int\n" % d.replace("\n", "\n    "))

    imports = ["import a", "import a::b::c as d", "import a as a", "from a import b", "from a import b as c, d as c", "from . import x", "from .. import y", "from ...a import b",
               "from .a.b import c", "import rust::x", "import rust", "import rust::std", "from rust::a::b import c as d, e", "from rust import x", 'import python "x"',
               'import python "x" as P', 'import python "x" as g', "import crate::x", "import super::x", "import super::super::x", "import self", "import crate", "from crate import x",
               "from super import x", "import std", "import incan", "import testing", "from testing import assert_eq, zzz", "import web", "from web import App, route, zzz",
               "import P", "import g", "from P import x", "import a::P", "from a import P", "from a import g, g", "import a\nimport a", "import a as b\nimport c as b",
               "from a import b\nfrom a import b", "import def", "import a::def", "from a import def", "import a::", "import ::a", "from rust::serde import Serialize\n@derive(Serialize)\nmodel S:\n    a: int",
               "from rust::tokio import spawn", "import rust::std::collections::HashMap as P", "import rust::x::y::z::w::v::u"]
    for i in imports:
        yield ("sem-imports", i.split("\n")[0], i + "\n" + HEADER + "def h() -> None:\n    pass\n")
        yield ("sem-imports", "use:" + i.split("\n")[0], i + "\n" + HEADER + "def h() -> None:\n    w = a.f(1)\n    u = b\n    q = x.y.z\n    r = d()\n")
        yield ("sem-imports", "late:" + i.split("\n")[0], HEADER + "def h() -> None:\n    pass\n" + i + "\n")

    dups = ["def q() -> int:\n    return 1\ndef q() -> str:\n    return \"s\"", "model Q:\n    a: int\nmodel Q:\n    b: str", "model Q:\n    a: int\nenum Q:\n    A", "enum Q:\n    A\n    A",
            "enum Q:\n    A(int)\n    A(str)", "model Q:\n    a: int\n    a: str", "class Q:\n    a: int\n\n    def r(self) -> int:\n        return 1\n\n    def r(self) -> str:\n        return \"s\"",
            "class Q:\n    r: int\n\n    def r(self) -> int:\n        return 1", "const Q: int = 1\nconst Q: int = 2", "const Q: int = 1\ndef Q() -> int:\n    return 1", "type Q = newtype int\ntype Q = newtype str",
            "trait Q:\n    def r(self) -> int: ...\ntrait Q:\n    def r(self) -> int: ...", "trait Q:\n    def r(self) -> int: ...\n    def r(self) -> int: ...", "def g() -> int:\n    return 1", "model P:\n    q: int",
            "enum E:\n    Z", "type N = newtype str", "def int() -> int:\n    return 1", "model str:\n    a: int", "enum Option:\n    Some(int)\n    None", "enum Result:\n    Ok\n    Err", "model List:\n    a: int",
            "def Some(a: int) -> int:\n    return a", "def println(a: int) -> None:\n    pass", "const True: int = 1", "model self:\n    a: int", "def main() -> None:\n    pass\ndef main() -> None:\n    pass"]
    for d in dups:
        yield ("sem-duplicates", d.split("\n")[0], HEADER + d + "\n\ndef h() -> None:\n    w = Q\n")
        yield ("sem-duplicates", "used:" + d.split("\n")[0], HEADER + d + "\n\ndef h(a: Q, b: Option[int], c: Result[int, str], d: List[int]) -> None:\n    w = q()\n    match b:\n        Some(x) => pass\n        None => pass\n    match c:\n        Ok(x) => pass\n        Err(e) => pass\n")

    recs = ["model A:\n    a: A", "model A:\n    a: B\nmodel B:\n    a: A", "model A:\n    a: Option[A]", "model A:\n    a: List[A]", "enum V:\n    W(V)", "enum V:\n    W(Option[V])\n    X",
            "type X = newtype X", "type X = newtype Y\ntype Y = newtype X", "type X = X", "type X = List[X]", "const A: int = A", "const A: int = B\nconst B: int = A", "const A: int = A + 1",
            "const A: List[int] = [A]", "const A: int = g(1)", "const A: int = len(\"s\")", "const A: str = \"a\" + \"b\" * 3", "const A: int = 1 // 0", "const A: int = 1 % 0", "const A: float = 1.0 / 0.0",
            "const A: int = 9223372036854775807 + 1", "const A: int = -9223372036854775807 - 2", "const A: int = 2 ** 63", "const A: int = 2 ** -1", "const A: int = 2 ** 9999999999", "const A: int = (-9223372036854775807 - 1) // -1",
            "const A: int = 7 // 2", "const A: int = -7 % 3", "const A: float = 7.5 // 2.0", "const A: int = 1 << 2", "const A: bool = 1 < 2 < 3", "const A: bool = not 1", "const A: int = -True",
            "const A: str = f\"{1}\"", "const A: str = \"a\"[0]", "const A: int = [1, 2][5]", "const A: int = (1, 2).5", "const A: int = {\"a\": 1}[\"b\"]", "const A: FrozenList[int] = [1, \"s\"]",
            "const A: FrozenDict[str, int] = {1: 1}", "const A: FrozenSet[int] = {1, 1}", "const A: bytes = b\"\\xff\"", "const A: FrozenStr = 1", "const A: (int, str) = (1, 2, 3)", "const A: Option[int] = Some(1)",
            "const A: Result[int] = Ok(1)", "const A: P = P(x=1)", "const A: E = E.B(1)", "const A: N = N(1)", "const A = None", "const A: int", "const A", "const A: int = if 1 else 2", "const A: int = (q) => q",
            "def r(n: int) -> int:\n    return r(n)", "def r(n: int) -> int:\n    return s(n)\ndef s(n: int) -> int:\n    return r(n)", "trait T1 with T1:\n    def r(self) -> int: ...", "class C1 with C1:\n    a: int",
            "class C1 with Zzz:\n    a: int", "class C1 with Tr:\n    a: int", "class C1 with Tr, Tr:\n    a: int\n\n    def t(self) -> int:\n        return 1", "class C1 with P:\n    a: int", "class C1 with E:\n    a: int",
            "class C1 with Tr:\n    a: int\n\n    def t(self, extra: int) -> str:\n        return \"s\"", "trait T1:\n    a: int", "trait T1:\n    def r(self) -> int:\n        return self.zzz", "model M1 with Tr:\n    a: int",
            "enum V with Tr:\n    A", "type X = newtype int:\n    def r(self) -> int:\n        return self.0", "type X = newtype int:\n    def from_underlying(v: int) -> Result[X]:\n        return Ok(X(v))",
            "type X = newtype int:\n    def from_underlying(v: str) -> X:\n        return X(1)", "type X = newtype List[Result[int]]", "type X = newtype (int, str)", "type X = newtype Zzz"]
    for r in recs:
        yield ("sem-recursive", r.split("\n")[0], HEADER + r + "\n\ndef h() -> None:\n    pass\n")
        yield ("sem-recursive", "used:" + r.split("\n")[0], HEADER + r + "\n\ndef h(a: A, v: V, x: X) -> None:\n    w = A\n    u = a.a.a\n    match v:\n        V.W(q) => pass\n        _ => pass\n    y = x.0\n    z = X(1)\n    println(f\"{A} {r(1)}\")\n")


# ---------------------------------------------------------------------------------- inputs aimed at the audited panic sites
# (self-audit of src/frontend/typechecker, src/backend/ir/{lower,emit}, const_eval, format: every group of
#  `[..]` indexing / unwrap / expect / unreachable! / assert! / format_ident! / length arithmetic has an input here)

def audit_programs():
    def fn(body, sig="def h() -> None:", pre=""):
        return HEADER + pre + sig + "\n" + "".join("    %s\n" % l for l in body.split("\n"))

    groups = {
        # R1 Literal::f64_unsuffixed(inf) (emit/expressions/mod.rs:98, emit/types.rs:126)
        "R1-float-overflow": ["w = 1e999", "w = [1e999]", 'w = f"{1e999}"', "w = -1e999", "w = 1e308 * 10.0", "w = 1.7976931348623157e308", "w = 1e309",
                              "match 1.5:\n    case 1e999:\n        pass\n    case _:\n        pass", "w = 123456789012345678901234567890.0e300"],
        # R2 format_ident!(tuple index) in assignment targets (emit/expressions/lvalue.rs:87,123)
        "R2-tuple-field-target": ["a = (P(x=1), 2)\na.0.x = 5", "a = (1, 2)\na.0 = 5", "a = (1, 2)\na.0 += 5", "xs = list()\nxs[0].0 = 1", "a = ((1, 2), 3)\na.0.1 = 4",
                                   "a = [(1, 2)]\na[0].1 = 3", "a = N(1)\na.0 = 2"],
        # R3 syn::Index::from(usize >= u32::MAX) (emit/expressions/indexing.rs:165)
        "R3-huge-tuple-index": ["xs = list()\ny = xs[0].4294967296", "xs = list()\ny = xs[0].4294967295", "xs = list()\ny = xs[0].4294967294", "a = (1, 2)\ny = a.4294967296",
                                "xs = list()\ny = xs[0].99999999999999999999999"],
        # R4 format_ident!("0") for a newtype constructed without positional argument (emit/expressions/structs_enums.rs:77)
        "R4-newtype-ctor": ["w = N()", "w = N(x=1)", "w = N(v=1)", "w = N(1)", "w = N(1, 2)", "w = N(0=1)"],
        # G3/G4/G5 arity guards of builtins, methods, kwargs
        "G-arity": ["w = range()", "w = zip([1])", "w = len()", "w = min()", "w = sorted()", "w = bool()", 'w = "a".replace("b")', 'w = {"a": 1}.insert("k")', "w = [1, 2].swap(1)",
                    "w = g(b=\"s\")", "w = g(1, 2, b=\"s\")", "w = write_file(1)", "w = enumerate()", "w = sum(1, 2, 3)", "w = isinstance(1)", "w = max()", "w = abs()", "w = round(1.5, 2, 3)"],
        # G6 generic annotations with too few arguments
        "G-generic-arity": ["w: Dict[int] = {}\nu = w[1]", "w: Result[int] = Ok(1)\nu = w?", "w: List = []\nu = w[0]", "w: Option = None\nu = w?", "w: Set = {1}\nfor q in w:\n    pass",
                            "w: Dict = {}\nfor k, v in w:\n    pass", "w: Tuple = (1,)\nu = w.0", "w: FrozenDict[str] = {}\nu = w[\"a\"]"],
        # G7 tuple indexing
        "G-tuple-index": ["t = (1, 2)\nw = t.5", "t = (1, 2)\nw = t[7]", "t = (1, 2)\nw = t[-3]", "t = (1, 2)\nw = t[-1]", "t = ()\nw = t.0", "t = (1,)\nw = t[0:5]"],
        # G9 numeric operators / compound assignment
        "G-numeric-ops": ["x = 1\nx //= 0", "x = 1\nx **= 2", "x = 1.5\nx %= 0.0", "x = \"s\"\nx -= 1", "x = 1\nx += \"s\"", "x = [1]\nx *= 2", "x = 1\nx /= 2", "w = 1 == 1 == 1"],
        # G11 chained assignment
        "G-chained-assign": ["a = b = c = 5", "a = b = (1, 2)", "a: int = b = 1", "a = b = c = d = e = f = [1]", "a, b = c = (1, 2)"],
        # G12 newtype checked construction
        "G-newtype-checked": [""],
        # G14/G15 negative indices, labels
        "G-neg-index": ["xs = [1]\nw = xs[-1]", "xs = [1]\nw = xs[-9223372036854775807]", "xs = [1]\nw = xs[- -1]", "xs = [1]\nw = xs[-0]", 's = "abc"\nw = s[-1:]', 's = "abc"\nw = s[::-1]'],
    }
    for gname, bodies in groups.items():
        for b in bodies:
            if b:
                yield ("sem-audit", "%s|%s" % (gname, b.split("\n")[0]), fn(b))
    # R5 cyclic inheritance: unbounded recursion in lower/decl.rs collect_inherited_fields / collect_inherited_methods
    for src in ["class A1 extends A1:\n    a: int\n", "class A1 extends B1:\n    a: int\n\nclass B1 extends A1:\n    b: int\n",
                "class A1 extends B1:\n    a: int\n\nclass B1 extends C1:\n    b: int\n\nclass C1 extends A1:\n    c: int\n",
                "class A1 extends Zzz:\n    a: int\n", "class A1 extends P:\n    a: int\n", "class A1 extends E:\n    a: int\n", "class A1 extends K:\n    a: int\n\ndef h(a: A1) -> int:\n    return a.t() + a.z\n",
                "class A1 extends K:\n    z: int\n", "class A1 extends K, K:\n    a: int\n", "class A1 extends A1 with Tr:\n    a: int\n"]:
        yield ("sem-audit", "R5-extends|" + src.split("\n")[0], HEADER + src)
    # rho-shaped hierarchies (added after seed C11-4): a tail of 0..3 classes leading into an `extends` cycle of length 1..3, in
    # declaration order and reversed; every walk along `extends` (checker, lowering) must end with a diagnostic, never hang
    for tail in range(4):
        for cyc in (1, 2, 3):
            names = ["T%d" % i for i in range(tail)] + ["C%d" % i for i in range(cyc)]
            decls = []
            for i, n in enumerate(names):
                parent = names[i + 1] if i + 1 < len(names) else "C0"
                decls.append("class %s extends %s:\n    f%d: int\n" % (n, parent, i))
            for order in ("decl", "rev"):
                ds = decls if order == "decl" else decls[::-1]
                use = "\ndef h(a: %s) -> int:\n    return a.f0\n" % names[0]
                yield ("sem-audit", "R5-rho|tail=%d cycle=%d %s" % (tail, cyc, order), HEADER + "\n".join(ds) + use)
    # G12 checked newtypes (from_underlying) with odd signatures and argument counts
    for m in ["def from_underlying(v: int) -> Result[X, str]:\n        return Ok(X(v))", "def from_underlying() -> Result[X, str]:\n        return Ok(X(1))",
              "def from_underlying(v: int, w: int) -> Result[X, str]:\n        return Ok(X(v))", "def from_underlying(self) -> X:\n        return self", "def from_underlying(v: int) -> int:\n        return v"]:
        for call in ["X(1)", "X()", "X(1, 2)", "X(v=1)", 'X("s")']:
            yield ("sem-audit", "G12|%s|%s" % (m.split("\n")[0], call), HEADER + "type X = newtype int:\n    %s\n\ndef h() -> None:\n    w = %s\n" % (m, call))
    # G13 route handlers with 0 / 1 / 2 parameters, G1 names, G19 pretty printing of unusual items
    for params in ["", "a: str", "a: str, b: int", "a: P", "req: Zzz", "self"]:
        yield ("sem-audit", "G13-route|" + params, 'from web import App, route\n' + HEADER + '@route("/x/{a}")\nasync def r(%s) -> str:\n    return "s"\n\ndef main() -> None:\n    app = App()\n    app.run()\n' % params)
    for name in ["r#x", "x0", "_", "__x__", "X", "fn", "type", "match", "self_", "crate_", "async", "dyn", "abstract", "try", "union", "macro_rules", "Self", "a" * 300]:
        yield ("sem-audit", "G1-name|" + name[:20], HEADER + "def %s(%s: int) -> int:\n    %s = %s + 1\n    return %s\n\nmodel M_%s:\n    %s: int\n" % (name, name, name, name, name, name[:8], name))


# ---------------------------------------------------------------------------------- const-evaluated index / slice lattice

I64MAX = "9223372036854775807"
I64MIN = "(-9223372036854775807 - 1)"
CONST_CONTAINERS = [
    ("str", ['""', '"a"', '"ab"', '"hello"', '"h\u00e9ll\U0001f600"'], [0, 1, 2, 5, 5], "str"),
    ("bytes", ['b""', 'b"a"', 'b"ab"', 'b"hello"'], [0, 1, 2, 5], "bytes"),
    ("list", ["[]", "[1]", "[1, 2]", "[1, 2, 3, 4, 5]"], [0, 1, 2, 5], "FrozenList[int]"),
    ("tuple", ["()", "(1,)", "(1, 2)", "(1, 2, 3, 4, 5)"], [0, 1, 2, 5], None),
]


def bound_values(n):
    """the bound lattice for a container of length n (None = omitted)"""
    vals = [None, "0", "1", str(n - 1), str(n), str(n + 1), "-1", str(-n), str(-n - 1), I64MAX, I64MIN]
    out = []
    for v in vals:
        if v not in out:
            out.append(v)
    return out


STEP_VALUES = [None, "1", "-1", "2", "-2", "0", I64MAX, I64MIN]


def slice_text(a, b, st):
    t = "%s:%s" % (a or "", b or "")
    if st is not None:
        t += ":" + st
    return t


def const_slice_programs(quick):
    """index and every slice shape over const strings / bytes / lists / tuples of length 0, 1, 2, 5: bounds and steps from the
    lattice, written as literals, as negated / parenthesised literals and as references to int consts; in const initialisers,
    parameter defaults, field defaults and function bodies; nested (slice of slice, index of slice).
    One program per (container, start, step): all end bounds as separate consts.  quick: steps {omitted, 1} for every
    (start, end) pair (this includes every reversed-bounds combination), the other steps on a diagonal."""
    for kind, lits, lens, ann in CONST_CONTAINERS:
        for lit, n in zip(lits, lens):
            decl = "pub const S%s = %s\n" % ((": " + ann) if ann else "", lit)
            bounds = bound_values(n)
            for ia, a in enumerate(bounds):
                for ist, st in enumerate(STEP_VALUES):
                    if quick and st not in (None, "1") and (ia + ist) % 4 != 0:
                        continue
                    ends = bounds
                    label = "%s/%s|[%s:*:%s]" % (kind, lit, a, st)
                    # 1. const initialisers
                    body = "".join("pub const T%d = S[%s]\n" % (j, slice_text(a, b, st)) for j, b in enumerate(ends))
                    yield ("sem-const-slice", "const|" + label, decl + body + "\ndef main() -> None:\n    println(T0)\n")
                    # 2. function bodies (run-time path of the emitter) and parameter / field defaults
                    if not quick or (st in (None, "1") and n in (2, 5)):
                        body = "".join("    t%d = S[%s]\n" % (j, slice_text(a, b, st)) for j, b in enumerate(ends))
                        yield ("sem-const-slice", "body|" + label, decl + "def main() -> None:\n" + body + "    println(t0)\n")
                        local = "".join("    t%d = s[%s]\n" % (j, slice_text(a, b, st)) for j, b in enumerate(ends))
                        yield ("sem-const-slice", "local|" + label, "def main() -> None:\n    s = %s\n%s    println(t0)\n" % (lit, local))
                    if st in (None, "1", "-1"):
                        b = ends[(ia * 3 + 1) % len(ends)]
                        yield ("sem-const-slice", "default|" + label, decl + "def q(x: %s = S[%s]) -> None:\n    pass\n\nmodel M:\n    f: %s = S[%s]\n" % (ann or "int", slice_text(a, b, st), ann or "int", slice_text(a, b, st)))
            # indices
            idx = "".join("pub const X%d = S[%s]\n" % (j, b) for j, b in enumerate(bounds) if b is not None)
            yield ("sem-const-slice", "const-index|%s/%s" % (kind, lit), decl + idx)
            for j, b in enumerate(bounds):
                if b is not None:
                    yield ("sem-const-slice", "const-index1|%s/%s|%s" % (kind, lit, b), decl + "pub const X = S[%s]\n\ndef main() -> None:\n    println(X)\n    y = S[%s]\n" % (b, b))
            # bounds written as negated / parenthesised literals and as const references
            refs = "const I0: int = 0\nconst I1: int = 1\nconst I3: int = 3\nconst IN: int = -1\nconst IL: int = %d\nconst IB: int = %s\nconst IS: int = %s\nconst IZ: int = 1 - 1\n" % (n, I64MAX, I64MIN)
            forms = ["I3:I1", "I1:I3", "IN:I0", "IL:I0", "I0:IL", "IB:IS", "IS:IB", "I3:I1:I1", "I1:I3:IN", "I0:IL:IZ", "I3:", ":I1", "::IN", "::IZ", "I3", "IN", "IL", "IB", "IS",
                     "-(1):-(3)", "- -3:- -1", "(3):(1)", "-0:-0", "+3:+1" , "3:1:True", "True:False", "1.5:2", "\"a\":1", "None:None", "I3:I1:None", "3 - 1:1 + 1", "2 * 2:1", "1 // 0:1", "I3 if True else I1:1"]
            body = "".join("pub const R%d = S[%s]\n" % (j, f) for j, f in enumerate(forms))
            yield ("sem-const-slice", "const-refs-all|%s/%s" % (kind, lit), decl + refs + body)
            for f in forms:
                if quick and n != 5:
                    continue
                yield ("sem-const-slice", "const-refs|%s/%s|%s" % (kind, lit, f), decl + refs + "pub const R = S[%s]\n\ndef main() -> None:\n    println(R)\n    r = S[%s]\n" % (f, f))
            # nested: slice of slice, index of slice, slice of index
            nest = ["S[1:4][0:2]", "S[1:4][2:0]", "S[3:1][0:1]", "S[3:1][0]", "S[1:4][0]", "S[1:4][-1]", "S[1:4][5]", "S[::-1][3:1]", "S[::-1][1:3]", "S[::2][::2]", "S[4:0:-1][3:1]",
                    "S[0][0:1]", "S[0][1:0]", "S[-1][::-1]", "S[:][:][:]", "S[1:][1:][1:][1:][1:][1:]", "S[3:1][3:1][3:1]", "S[%s:][:%s]" % (I64MAX, I64MIN), "(S + S)[%d:1]" % (n + 1), "(S * 2)[3:1]"]
            body = "".join("pub const N%d = %s\n" % (j, e) for j, e in enumerate(nest))
            yield ("sem-const-slice", "const-nested-all|%s/%s" % (kind, lit), decl + body)
            for e in nest:
                if quick and n != 5:
                    continue
                yield ("sem-const-slice", "const-nested|%s/%s|%s" % (kind, lit, e), decl + "pub const N = %s\n\ndef main() -> None:\n    println(N)\n    m = %s\n" % (e, e))
    # literal receivers (no named const) in const position
    for lit in ['"hello"', 'b"hello"', "[1, 2, 3, 4, 5]", "(1, 2, 3, 4, 5)", 'f"hello"', '"a" + "bcde"', '"ab" * 3']:
        for sl in ["3:1", "-4:0", "1:3", "5:0", "0:5", "6:7", "-9:-8", "3:1:1", "1:3:-1", "::0", "::-1", "%s:%s" % (I64MAX, I64MIN), "%s:%s" % (I64MIN, I64MAX), "3", "5", "-6"]:
            yield ("sem-const-slice", "const-literal|%s[%s]" % (lit, sl), "pub const T = %s[%s]\n\ndef main() -> None:\n    println(T)\n" % (lit, sl))


def all_programs():
    for gen in (audit_programs, position_programs, operator_programs, listed_programs, typed_value_programs):
        for item in gen():
            yield item


def stream(rng, quick):
    """(group, label, source).  thorough: everything.  quick: all of the small groups and a seeded sample of the two big
    cross products, in which every type and every usage occurs at least a fixed number of times."""
    items = list(all_programs()) + list(const_slice_programs(quick))
    if not quick:
        return items
    big = [x for x in items if x[0] in ("sem-type-use", "sem-operators", "sem-unary")]
    small = [x for x in items if x[0] not in ("sem-type-use", "sem-operators", "sem-unary")]
    # Latin-square style cover of types x usages: usage j goes with types (j*k + i) for a few i
    us = usages()
    nt = len(TYPES)
    keep = set()
    for j, (uname, _) in enumerate(us):
        for i in range(5):
            keep.add("%s|%s" % (TYPES[(j * 7 + i * 5 + rng.randrange(nt)) % nt], uname))
    # every built-in arity form and nested form meets every match pattern (the densest area)
    for t in BUILTIN_ARITIES[:17] + NESTED[:8]:
        for p in PATTERNS:
            keep.add("%s|match=>:%s" % (t, p))
    chosen = [x for x in big if x[0] == "sem-type-use" and x[1] in keep]
    ops = [x for x in big if x[0] != "sem-type-use"]
    chosen += rng.sample(ops, min(len(ops), 500))
    return small + chosen
