"""C17 — a validated newtype can never hold an invalid value.

proof:   coq/C17/Props.v over the hand model coq/C17/Model.v (hook selection, construction-site
         rewrite with the current_impl_type bookkeeping, per-module AstLowering, value-level
         evaluation of the rewritten code, TypeChecker::types_compatible).
tie:     correspondence — generated newtype declarations x construction sites (single- and
         multi-file) as real Incan source through the REAL pipeline (collect_modules ->
         check_with_imports -> IrCodegen -> Rust text); for every site the emitted call
         (`T::hook(..).expect("validated newtype construction failed: T::hook")` vs the raw tuple
         constructor) is compared with the model's prediction (model evaluated by vm_compute).
oracle:  the property itself, independent of the model: a newtype that defines a hook in the sense
         of the property sentence must have EVERY site outside its own methods emitted as the hook
         call with the right hook name; thorough tier: real cargo builds, accepted and rejected
         arguments, the process must stop with the validation failure; `--check`-level mixing of
         two newtypes over the same underlying type must be rejected."""
import json
import os
import re
import shutil
import subprocess

import vlib

SCRATCH = os.path.join(vlib.BUILD, "c17-%d" % os.getpid())
GEN_TARGET = os.path.join(vlib.VERIF, "build", "gen-target")
IDENT = r"[A-Za-z_][A-Za-z0-9_]*(?:::[A-Za-z_][A-Za-z0-9_]*)*"
REQ = ("From Coq Require Import ZArith List Bool String Ascii.\nFrom Verif Require Import Base.I64 C17.Model.\n"
       "Import ListNotations.\nOpen Scope Z_scope.\nOpen Scope string_scope.\nOpen Scope list_scope.")

CANON = {"i64": "int", "i32": "int", "f64": "float", "f32": "float"}


def cq(s):
    return '"%s"' % s


# ------------------------------------------------------------------------------ types

class Ty:
    """annotation: spelling + structure. kind 'simple' (name) or 'generic' (name, [Ty])."""

    def __init__(self, name, args=None):
        self.name, self.args = name, args

    def src(self):
        return self.name if self.args is None else "%s[%s]" % (self.name, ", ".join(a.src() for a in self.args))

    def coq(self, spans):
        if self.args is None:
            return "(TSimple %s)" % cq(self.name)
        parts = []
        for a in self.args:
            t = a.coq(spans)
            spans[0] += 1
            parts.append("(%s, %d)" % (t, spans[0]))
        return "(TNode KGeneric %s [%s])" % (cq(self.name), "; ".join(parts))

    def denot(self):
        if self.args is None:
            return CANON.get(self.name, self.name)
        return (self.name, tuple(a.denot() for a in self.args))

    def plain(self):
        return self.args is None and CANON.get(self.name, self.name) == self.name

    def nested(self):
        return self.args is not None and len(self.args) > 0


INT, STR, FLOAT, LIST_INT = Ty("int"), Ty("str"), Ty("float"), Ty("List", [Ty("int")])
UNDER = {"int": INT, "str": STR, "float": FLOAT, "list": LIST_INT}


def lit_src(under, m):
    return {"int": "%d" % m, "str": '"s%d"' % m, "float": "%d.5" % m, "list": "[%d]" % m}[under]


def lit_coq(under, m):
    return "(ENode KList [ELit %d])" % m if under == "list" else "(ELit %d)" % m


def lit_rx(under, m):
    return {"int": r"%d(?![0-9.])" % m, "str": r'"s%d"' % m, "float": r"%d\.5" % m, "list": r"vec!\[%d(?![0-9])" % m}[under]


def reject_cond(under, v):
    return {"int": "%s <= 0" % v, "str": "len(%s) == 0" % v, "float": "%s <= 0.0" % v, "list": "len(%s) == 0" % v}[under]


# ------------------------------------------------------------------------------ declarations

class Method:
    def __init__(self, name, recv, params, ret, body_src, body_coq="[]", is_async=False, decorators=(), defaults=None, abstract=False):
        self.name, self.recv, self.params, self.ret = name, recv, params, ret   # params: [(pname, Ty)]
        self.body_src, self.body_coq = body_src, body_coq                        # ret: Ty
        self.is_async, self.decorators, self.defaults, self.abstract = is_async, decorators, defaults or {}, abstract

    def src(self):
        ps = (["self"] if self.recv else []) + \
             ["%s: %s%s" % (n, t.src(), (" = " + self.defaults[n]) if n in self.defaults else "") for n, t in self.params]
        head = "    %sdef %s(%s) -> %s:" % ("async " if self.is_async else "", self.name, ", ".join(ps), self.ret.src())
        decs = ["    @%s" % d for d in self.decorators]
        if self.abstract:
            return decs + [head + " ..."]
        return decs + [head] + ["        " + l for l in self.body_src]

    def coq(self, spans):
        ps = "; ".join(t.coq(spans) for _, t in self.params)
        return ("{| m_name := %s; m_recv := %s; m_params := [%s]; m_ret := %s; m_body := %s |}"
                % (cq(self.name), "true" if self.recv else "false", ps, self.ret.coq(spans), self.body_coq))


class Newtype:
    def __init__(self, name, under, methods, pub=False):
        self.name, self.under, self.methods, self.pub = name, under, methods, pub
        self.module = None
        self.index = None

    def uty(self):
        return UNDER[self.under]

    def src(self):
        head = "%stype %s = newtype %s" % ("pub " if self.pub else "", self.name, self.uty().src())
        if not self.methods:
            return [head]
        out = [head + ":"]
        for m in self.methods:
            out += m.src() + [""]
        return out

    def coq(self, spans):
        u = self.uty().coq(spans)
        return ("(DNewtype {| nt_name := %s; nt_under := %s; nt_methods := [%s] |})"
                % (cq(self.name), u, "; ".join(m.coq(spans) for m in self.methods)))

    # the SPEC (property sentence), written independently of the lowering
    def well_shaped(self, m):
        return (not m.recv and m.name.startswith("from_") and len(m.params) == 1
                and m.params[0][1].denot() == self.uty().denot()
                and m.ret.args is not None and m.ret.name in ("Result", "result") and len(m.ret.args) >= 1
                and m.ret.args[0].args is None and m.ret.args[0].name == self.name)

    def spec_hook(self):
        ws = [m for m in self.methods if self.well_shaped(m)]
        if any(m.name == "from_underlying" for m in ws):
            return "from_underlying"
        return ws[0].name if len(ws) == 1 else None

    def plain(self):
        return self.uty().plain() and all(t.plain() for m in self.methods for _, t in m.params)

    def alias_spelled(self):
        def al(t):
            return t.args is None and CANON.get(t.name, t.name) != t.name
        return al(self.uty()) or any(al(t) for m in self.methods for _, t in m.params)


def hook_method(T, under, name, kind="ok", ptype=None, retname="Result"):
    """A from_* method of newtype T. kind: ok | two | recv | option | other | mismatch"""
    u = UNDER[under]
    pt = ptype or u
    res = Ty(retname, [Ty(T), STR])
    body_ok = ["if %s:" % reject_cond(under, "v"), '    return Err("bad %s")' % T, "return Ok(%s(v))" % T]
    if kind == "ok":
        return Method(name, False, [("v", pt)], res, body_ok)
    if kind == "two":
        return Method(name, False, [("v", pt), ("w", INT)], res, ["return Ok(%s(v))" % T])
    if kind == "recv":
        return Method(name, True, [("v", pt)], res, ["return Ok(%s(v))" % T])
    if kind == "option":
        return Method(name, False, [("v", pt)], Ty("Option", [Ty(T)]), ["return Some(%s(v))" % T])
    if kind == "other":
        return Method(name, False, [("v", pt)], Ty(retname, [Ty("Plain" + under.capitalize()), STR]),
                      ["return Ok(Plain%s(v))" % under.capitalize()])
    if kind == "zero":
        return Method(name, False, [], res, ["return Ok(%s(%s))" % (T, lit_src(under, 1))])
    if kind == "three":
        return Method(name, False, [("v", pt), ("w", INT), ("z", INT)], res, ["return Ok(%s(v))" % T])
    if kind == "onearg":        # Result[T] with one type argument (accepted: args non-empty); body abstract
        return Method(name, False, [("v", pt)], Ty(retname, [Ty(T)]), [], abstract=True)
    if kind == "async":
        return Method(name, False, [("v", pt)], res, body_ok, is_async=True)
    if kind == "decorated":
        return Method(name, False, [("v", pt)], res, body_ok, decorators=("staticmethod",))
    if kind == "default":
        return Method(name, False, [("v", pt)], res, body_ok, defaults={"v": lit_src(under, 5)})
    if kind == "abstract":
        return Method(name, False, [("v", pt)], res, [], abstract=True)
    if kind == "retnested":     # Result[Option[T], str]: first type argument is not the bare newtype
        return Method(name, False, [("v", pt)], Ty(retname, [Ty("Option", [Ty(T)]), STR]), ["return Ok(Some(%s(v)))" % T])
    if kind == "retplain":      # -> T
        return Method(name, False, [("v", pt)], Ty(T), ["return %s(v)" % T])
    if kind == "mismatch":
        wrong = STR if under != "str" else INT
        conv = {"int": "len(v)", "str": "str(v)", "float": "float(len(v))", "list": "[len(v)]"}[under]
        return Method(name, False, [("v", wrong)], res, ["return Ok(%s(%s))" % (T, conv)])
    raise ValueError(kind)


# ------------------------------------------------------------------------------ sites and contexts

class Site:
    def __init__(self, marker, nt, form="direct"):
        self.marker, self.nt, self.form = marker, nt, form
        self.module = None       # module index of the site
        self.decl_index = None   # index of the enclosing declaration in its module
        self.own = False         # inside nt's own methods
        self.ctx = None
        self.mult = 1            # how many times the lowering visits the site (inherited / trait-default methods; 0 = dropped)

    def src(self):
        T, l = self.nt.name, lit_src(self.nt.under, self.marker)
        return {"direct": "%s(%s)" % (T, l), "paren": "(%s)(%s)" % (T, l), "twoargs": "%s(%s, 2)" % (T, l),
                "threeargs": "%s(%s, 2, 3)" % (T, l), "qualified": "%s.%s(%s)" % (self.qual, T, l) if self.form == "qualified" else "",
                "alias": "mk%d(%s)" % (self.marker, l)}[self.form]

    def coq(self):
        T, l = cq(self.nt.name), lit_coq(self.nt.under, self.marker)
        return {"direct": "(ECall (EIdent %s) [None] [%s])" % (T, l),
                "paren": "(ECall (EParen (EIdent %s)) [None] [%s])" % (T, l),
                "twoargs": "(ECall (EIdent %s) [None; None] [%s; ELit 2])" % (T, l),
                "threeargs": "(ECall (EIdent %s) [None; None; None] [%s; ELit 2; ELit 3])" % (T, l),
                "qualified": "(ENode KMethodCall [EIdent \"qualifier\"; %s])" % l,
                "alias": "(ECall (EIdent %s) [None] [%s])" % (cq("mk%d" % self.marker), l)}[self.form]


def E(k, *subs):
    return "(ENode %s [%s])" % (k, "; ".join(subs))


def S(k, *subs):
    return "(SNode %s [%s])" % (k, "; ".join(subs))


def call(f, *args):
    return "(ECall (EIdent %s) [%s] [%s])" % (cq(f), "; ".join("None" for _ in args), "; ".join(args))


def blk(*stmts):
    return "(EBlock [%s])" % "; ".join(stmts)


# statement-level contexts inside `def ctx_k() -> None:`; each returns (source lines, [coq stmts]).
# `u` = "use_T" helper name (T -> int), s = site. `safe` = builds with rustc (thorough tier).
def ctx_table():
    def c_let(s, u, k):
        return ["a = %s" % s.src()], [S("SKAssign", s.coq())]

    def c_typed(s, u, k):
        return ["a: %s = %s" % (s.nt.name, s.src())], [S("SKAssign", s.coq())]

    def c_mut(s, u, k):
        return ["mut a = %s" % s.src()], [S("SKAssign", s.coq())]

    def c_arg(s, u, k):
        return ["n = %s(%s)" % (u, s.src())], [S("SKAssign", call(u, s.coq()))]

    def c_list(s, u, k):
        return ["xs = [%s]" % s.src()], [S("SKAssign", E("KList", s.coq()))]

    def c_tuple(s, u, k):
        return ["t = (%s, 1)" % s.src()], [S("SKAssign", E("KTupleE", s.coq(), "ELit 1"))]

    def c_dict(s, u, k):
        return ['d = {"k": %s}' % s.src()], [S("SKAssign", E("KDict", "ELit 0", s.coq()))]

    def c_paren(s, u, k):
        return ["a = (%s)" % s.src()], [S("SKAssign", "(EParen %s)" % s.coq())]

    def c_binary(s, u, k):
        return ["n = %s(%s) + 1" % (u, s.src())], [S("SKAssign", E("KBinary", call(u, s.coq()), "ELit 1"))]

    def c_fstring(s, u, k):
        return ['t = f"{%s(%s)}"' % (u, s.src())], [S("SKAssign", E("KFString", call(u, s.coq())))]

    # f-strings with a second interpolation whose nested identifiers sit at the same RELATIVE offsets as the helper's and the
    # newtype's callee identifiers (interpolations are parsed from their own substring; the checker's identifier-kind and type
    # maps are keyed by span).  Added after seed C17-4.
    def fs_collider(s, u):
        site = "%s(%s)" % (u, s.src())
        off = site.find(s.nt.name + "(", len(u))
        if off < 2:
            return None
        pad, vv = "p" * (off - 1), "v" * len(s.nt.name)
        return site, pad, vv

    def c_fstring_then_collider(s, u, k):
        c = fs_collider(s, u)
        if c is None:
            return c_fstring(s, u, k)
        site, pad, vv = c
        return ["%s = 1" % pad, "%s = 2" % vv, 't = f"{%s} {%s+%s}"' % (site, pad, vv)], \
               [S("SKAssign", "ELit 1"), S("SKAssign", "ELit 2"),
                S("SKAssign", E("KFString", call(u, s.coq()), E("KBinary", "EIdent \"%s\"" % pad, "EIdent \"%s\"" % vv)))]

    def c_collider_then_fstring(s, u, k):
        c = fs_collider(s, u)
        if c is None:
            return c_fstring(s, u, k)
        site, pad, vv = c
        return ["%s = 1" % pad, "%s = 2" % vv, 't = f"{%s+%s} {%s}"' % (pad, vv, site)], \
               [S("SKAssign", "ELit 1"), S("SKAssign", "ELit 2"),
                S("SKAssign", E("KFString", E("KBinary", "EIdent \"%s\"" % pad, "EIdent \"%s\"" % vv), call(u, s.coq())))]

    def c_ifcond(s, u, k):
        return ["if %s(%s) > 0:" % (u, s.src()), "    pass"], \
               [S("SKIf", E("KBinary", call(u, s.coq()), "ELit 0"), blk(S("SKExpr")))]

    def c_ifbody(s, u, k):
        return ["if 1 > 0:", "    a = %s" % s.src()], [S("SKIf", E("KBinary", "ELit 1", "ELit 0"), blk(S("SKAssign", s.coq())))]

    def c_elifbody(s, u, k):
        return ["if 1 > 2:", "    pass", "elif 2 > 1:", "    a = %s" % s.src()], \
               [S("SKIf", E("KBinary", "ELit 1", "ELit 2"), blk(S("SKExpr")), E("KBinary", "ELit 2", "ELit 1"), blk(S("SKAssign", s.coq())))]

    def c_elsebody(s, u, k):
        return ["if 1 > 2:", "    pass", "else:", "    a = %s" % s.src()], \
               [S("SKIf", E("KBinary", "ELit 1", "ELit 2"), blk(S("SKExpr")), blk(S("SKAssign", s.coq())))]

    def c_while(s, u, k):
        return ["mut i = 0", "while i < 1:", "    a = %s" % s.src(), "    i += 1"], \
               [S("SKAssign", "ELit 0"),
                S("SKWhile", E("KBinary", "EIdent \"i\"", "ELit 1"), blk(S("SKAssign", s.coq()), S("SKCompound", "ELit 1")))]

    def c_foriter(s, u, k):
        return ["for i in [%s(%s)]:" % (u, s.src()), "    pass"], [S("SKFor", E("KList", call(u, s.coq())), blk(S("SKExpr")))]

    def c_forbody(s, u, k):
        return ["for i in [1]:", "    a = %s" % s.src()], [S("SKFor", E("KList", "ELit 1"), blk(S("SKAssign", s.coq())))]

    def c_match(s, u, k):
        return ["x: int = 1", "match x:", "    case 1:", "        a = %s" % s.src(), "    case _:", "        pass"], \
               [S("SKAssign", "ELit 1"), S("SKExpr", E("KMatch", "EIdent \"x\"", blk(S("SKAssign", s.coq())), blk(S("SKExpr"))))]

    def c_closure(s, u, k):
        return ["f = (x) => %s(%s) + x" % (u, s.src()), "n = f(1)"], \
               [S("SKAssign", E("KClosure", E("KBinary", call(u, s.coq()), "EIdent \"x\""))), S("SKAssign", call("f", "ELit 1"))]

    def c_listcomp(s, u, k):
        return ["ys = [%s(%s) + i for i in [1, 2]]" % (u, s.src())], \
               [S("SKAssign", E("KListComp", E("KList", "ELit 1", "ELit 2"), E("KBinary", call(u, s.coq()), "EIdent \"i\"")))]

    def c_listcomp_elem(s, u, k):
        return ["ys = [%s for i in [1, 2]]" % s.src()], [S("SKAssign", E("KListComp", E("KList", "ELit 1", "ELit 2"), s.coq()))]

    def c_dictcomp(s, u, k):
        return ["zs = {i: %s(%s) for i in [1, 2]}" % (u, s.src())], \
               [S("SKAssign", E("KDictComp", E("KList", "ELit 1", "ELit 2"), "EIdent \"i\"", call(u, s.coq())))]

    def c_index(s, u, k):
        return ["n = [5, 6, 7][%s(%s)]" % (u, s.src())], [S("SKAssign", E("KIndex", E("KList", "ELit 5", "ELit 6", "ELit 7"), call(u, s.coq())))]

    def c_compound(s, u, k):
        return ["mut n = 0", "n += %s(%s)" % (u, s.src())], [S("SKAssign", "ELit 0"), S("SKCompound", call(u, s.coq()))]

    def c_indexassign(s, u, k):
        return ["mut xs = [1]", "xs[0] = %s(%s)" % (u, s.src())], \
               [S("SKAssign", E("KList", "ELit 1")), S("SKIndexAssign", "EIdent \"xs\"", "ELit 0", call(u, s.coq()))]

    def c_append(s, u, k):
        return ["mut xs: List[%s] = []" % s.nt.name, "xs.append(%s)" % s.src()], \
               [S("SKAssign", E("KList")), S("SKExpr", E("KMethodCall", "EIdent \"xs\"", s.coq()))]

    def c_nested_if_return(s, u, k):
        return ["if 1 > 0:", "    if 2 > 0:", "        n = %s(%s)" % (u, s.src())], \
               [S("SKIf", E("KBinary", "ELit 1", "ELit 0"), blk(S("SKIf", E("KBinary", "ELit 2", "ELit 0"), blk(S("SKAssign", call(u, s.coq()))))))]

    def c_unpack(s, u, k):
        return ["p, q = (%s, 1)" % s.src()], [S("SKTupleUnpack", E("KTupleE", s.coq(), "ELit 1"))]

    def c_chained(s, u, k):
        return ["p = q = %s(%s)" % (u, s.src())], [S("SKChained", call(u, s.coq()))]

    def c_println(s, u, k):
        return ["println(%s(%s))" % (u, s.src())], [S("SKExpr", call("println", call(u, s.coq())))]

    # (name, fn, builds-with-rustc)
    return [("let", c_let, True), ("typed-let", c_typed, True), ("mut-let", c_mut, True), ("argument", c_arg, True),
            ("list-element", c_list, True), ("tuple-element", c_tuple, True), ("dict-value", c_dict, True),
            ("parenthesised", c_paren, True), ("binary-operand", c_binary, True), ("fstring", c_fstring, True),
            ("fstring-then-collider", c_fstring_then_collider, True), ("collider-then-fstring", c_collider_then_fstring, True),
            ("if-condition", c_ifcond, True), ("if-body", c_ifbody, True), ("elif-body", c_elifbody, True),
            ("else-body", c_elsebody, True), ("while-body", c_while, True), ("for-iterable", c_foriter, True),
            ("for-body", c_forbody, True), ("match-arm", c_match, True), ("closure-body", c_closure, True),
            ("listcomp-body", c_listcomp, True), ("listcomp-element", c_listcomp_elem, False),
            ("dictcomp-value", c_dictcomp, False), ("index", c_index, False), ("compound-assign", c_compound, True),
            ("index-assign", c_indexassign, False), ("method-argument", c_append, True),
            ("nested-if", c_nested_if_return, True), ("tuple-unpack", c_unpack, False), ("chained-assign", c_chained, False),
            ("println-argument", c_println, True)]


CTXS = ctx_table()
NONCOPY_UNSAFE = {"while-body", "for-body", "closure-body", "listcomp-body"}


class Module:
    def __init__(self, name):
        self.name = name
        self.imports = []      # source lines
        self.decls = []        # (source lines, coq decl term or None (= DOther))
        self.sites = []

    def add(self, src, coq=None):
        self.decls.append((src, coq))
        return len(self.decls) - 1

    def source(self):
        out = list(self.imports)
        if out:
            out.append("")
        for src, _ in self.decls:
            out += src + [""]
        return "\n".join(out) + "\n"

    def coq(self):
        return "[%s]" % "; ".join(c if c is not None else "DOther" for _, c in self.decls)


class Project:
    def __init__(self):
        self.modules = []      # dependencies first, main last
        self.newtypes = []
        self.sites = []
        self.spans = [100]

    def files(self):
        return {("main.incn" if i == len(self.modules) - 1 else m.name + ".incn"): m.source() for i, m in enumerate(self.modules)}

    def coq(self):
        return "[%s]" % "; ".join(m.coq() for m in self.modules)


class Gen:
    def __init__(self, rng):
        self.rng = rng
        self.marker = 1000
        self.k = 0

    def mark(self):
        self.marker += 1
        return self.marker

    def fresh(self, base):
        self.k += 1
        return "%s%d" % (base, self.k)

    # ---- newtype declarations
    def newtype(self, proj, mod, name, under, variant, pub=False, own_site=True):
        T = name
        ms = []
        v = variant
        if v == "none":
            pass
        elif v == "fu":
            ms = [hook_method(T, under, "from_underlying")]
        elif v.startswith("single:"):
            ms = [hook_method(T, under, v.split(":")[1])]
        elif v == "fu+other":
            ms = [hook_method(T, under, "from_value"), hook_method(T, under, "from_underlying")]
        elif v == "two-from":
            ms = [hook_method(T, under, "from_a"), hook_method(T, under, "from_b")]
        elif v == "three-from":
            ms = [hook_method(T, under, "from_a"), hook_method(T, under, "from_b"), hook_method(T, under, "from_c")]
        elif v.startswith("illfu+single:"):       # ill-shaped from_underlying + one well-shaped from_x
            kind = v.split(":")[1]
            ms = [hook_method(T, under, "from_underlying", kind), hook_method(T, under, "from_checked")]
        elif v.startswith("illfu:"):
            ms = [hook_method(T, under, "from_underlying", v.split(":")[1])]
        elif v.startswith("ill+ok:"):             # ill-shaped from_x + well-shaped from_y -> exactly one candidate
            ms = [hook_method(T, under, "from_x", v.split(":")[1]), hook_method(T, under, "from_y")]
        elif v == "notfrom":
            ms = [hook_method(T, under, "make"), hook_method(T, under, "fromage")]
        elif v == "lower-result":
            ms = [hook_method(T, under, "from_underlying", retname="result")]
        elif v == "alias-param":
            alias = {"int": Ty("i64"), "float": Ty("f64")}[under]
            ms = [hook_method(T, under, "from_underlying", ptype=alias)]
        elif v == "bare-from_":
            ms = [hook_method(T, under, "from_")]
        elif v.startswith("fu:"):                 # from_underlying of an unusual but accepted / rejected shape
            ms = [hook_method(T, under, "from_underlying", v.split(":")[1])]
        elif v == "fu-first+other":
            ms = [hook_method(T, under, "from_underlying"), hook_method(T, under, "from_value")]
        elif v == "dup-fu":
            ms = [hook_method(T, under, "from_underlying"), hook_method(T, under, "from_underlying")]
        elif v.startswith("name:"):               # one well-shaped method under a given name (prefix boundary)
            ms = [hook_method(T, under, v.split(":")[1])]
        elif v.startswith("many:") or v.startswith("many+fu:"):
            n = int(v.split(":")[1])
            ms = [hook_method(T, under, "from_k%d" % i) for i in range(n)]
            if v.startswith("many+fu:"):
                ms.append(hook_method(T, under, "from_underlying"))
        else:
            raise ValueError(v)
        nt = Newtype(T, under, ms, pub)
        nt.variant = v
        if own_site and ms:
            m = self.mark()
            s = Site(m, nt)
            s.own = True
            s.ctx = "own-method"
            ms.append(Method("dflt", False, [], Ty(T), ["return %s" % s.src()], "[%s]" % S("SKReturn", s.coq())))
            proj.sites.append(s)
            mod.sites.append(s)
            s.module = proj.modules.index(mod)
            # ... and one nested inside a collection inside the own method (still exempt)
            s2 = Site(self.mark(), nt)
            s2.own = True
            s2.ctx = "own-method-nested"
            ms.append(Method("both", False, [], Ty("List", [Ty(T)]), ["return [%s]" % s2.src()], "[%s]" % S("SKReturn", E("KList", s2.coq()))))
            proj.sites.append(s2)
            mod.sites.append(s2)
            s2.module = proj.modules.index(mod)
        nt.module = proj.modules.index(mod)
        nt.index = mod.add(nt.src(), "PENDING")
        for s in mod.sites:
            if s.nt is nt and s.own:
                s.decl_index = nt.index
        mod.decls[nt.index] = (nt.src(), nt.coq(proj.spans))
        pub_kw = "pub " if pub else ""
        mod.add(["%sdef use_%s(v: %s) -> int:" % (pub_kw, T, T), "    return 1"], None)
        proj.newtypes.append(nt)
        return nt

    def plain_helpers(self, mod, unders):
        for u in unders:
            mod.add(["type Plain%s = newtype %s" % (u.capitalize(), UNDER[u].src())], None)

    # ---- sites
    def site_in_function(self, proj, mod, nt, ctx=None, form="direct", only_safe=False):
        cands = [c for c in CTXS if (c[2] or not only_safe)]
        name, fn, _ = ctx or self.rng.choice(cands)
        m = self.mark()
        s = Site(m, nt, form)
        s.qual = proj.modules[nt.module].name
        s.ctx = name
        fname = self.fresh("ctx_")
        u = "use_" + nt.name
        lines, stmts = fn(s, u, m)
        if form == "alias":
            lines = ["mk%d = %s" % (m, nt.name)] + lines
            stmts = [S("SKAssign", "EIdent %s" % cq(nt.name))] + stmts
        src = ["def %s() -> None:" % fname] + ["    " + l for l in lines]
        idx = mod.add(src, "(DFunction %s [%s])" % (cq(fname), "; ".join(stmts)))
        self._reg(proj, mod, s, idx)
        return s

    def _reg(self, proj, mod, s, idx):
        s.module = proj.modules.index(mod)
        s.decl_index = idx
        proj.sites.append(s)
        mod.sites.append(s)

    def site_return(self, proj, mod, nt):
        s = Site(self.mark(), nt)
        s.ctx = "return"
        fname = self.fresh("ret_")
        idx = mod.add(["def %s() -> %s:" % (fname, nt.name), "    return %s" % s.src()],
                      "(DFunction %s [%s])" % (cq(fname), S("SKReturn", s.coq())))
        self._reg(proj, mod, s, idx)
        return s

    def site_yield(self, proj, mod, nt):
        """`yield T(m)`: the lowering drops the operand (Expr::Yield => Unit placeholder) — nothing is constructed"""
        s = Site(self.mark(), nt)
        s.ctx = "yield-operand"
        s.mult = 0
        fname = self.fresh("gen_")
        idx = mod.add(["def %s() -> %s:" % (fname, nt.name), "    yield %s" % s.src()],
                      "(DFunction %s [%s])" % (cq(fname), S("SKExpr", "(EYield %s)" % s.coq())))
        self._reg(proj, mod, s, idx)
        return s

    def site_nested(self, proj, mod, outer, inner):
        """Outer(m1 + use_Inner(Inner(m2))) — int newtypes only"""
        so, si = Site(self.mark(), outer), Site(self.mark(), inner)
        so.ctx, si.ctx = "nested-call-outer", "nested-call-inner"
        fname = self.fresh("nest_")
        src = ["def %s() -> None:" % fname,
               "    a = %s(%d + use_%s(%s))" % (outer.name, so.marker, inner.name, si.src())]
        arg = E("KBinary", "ELit %d" % so.marker, call("use_" + inner.name, si.coq()))
        idx = mod.add(src, "(DFunction %s [%s])" % (cq(fname), S("SKAssign", "(ECall (EIdent %s) [None] [%s])" % (cq(outer.name), arg))))
        self._reg(proj, mod, so, idx)
        self._reg(proj, mod, si, idx)
        return so, si

    def site_model(self, proj, mod, nt, kind):
        """field initialiser / field default / method of a model or class / other newtype's method"""
        s = Site(self.mark(), nt)
        T = nt.name
        if kind == "field-init":
            mname, fname = self.fresh("Box"), self.fresh("mkbox_")
            mod.add(["model %s:" % mname, "    v: %s" % T, "    n: int"], "(DModel %s [] [] [])" % cq(mname))
            idx = mod.add(["def %s() -> None:" % fname, "    b = %s(v=%s, n=1)" % (mname, s.src())],
                          "(DFunction %s [%s])" % (cq(fname), S("SKAssign", "(ECall (EIdent %s) [Some \"v\"; Some \"n\"] [%s; ELit 1])" % (cq(mname), s.coq()))))
        elif kind == "field-default":
            mname, fname = self.fresh("Def"), self.fresh("mkdef_")
            idx = mod.add(["model %s:" % mname, "    v: %s = %s" % (T, s.src()), "    n: int"], "(DModel %s [%s] [] [])" % (cq(mname), s.coq()))
            mod.add(["def %s() -> None:" % fname, "    b = %s(n=1)" % mname],
                    "(DFunction %s [%s])" % (cq(fname), S("SKAssign", "(ECall (EIdent %s) [Some \"n\"] [ELit 1])" % cq(mname))))
        elif kind in ("model-method", "class-method"):
            mname = self.fresh("Holder" if kind == "model-method" else "Klass")
            kw = "model" if kind == "model-method" else "class"
            meth = "{| m_name := \"mk\"; m_recv := true; m_params := []; m_ret := TSimple %s; m_body := [%s] |}" % (cq(T), S("SKReturn", s.coq()))
            idx = mod.add(["%s %s:" % (kw, mname), "    n: int", "", "    def mk(self) -> %s:" % T, "        return %s" % s.src()],
                          "(DModel %s [] [%s] [])" % (cq(mname), meth))
        elif kind == "trait-impl-method":
            tname, mname = self.fresh("Maker"), self.fresh("Impl")
            mod.add(["trait %s:" % tname, "    def mk(self) -> %s" % T], None)
            meth = "{| m_name := \"mk\"; m_recv := true; m_params := []; m_ret := TSimple %s; m_body := [%s] |}" % (cq(T), S("SKReturn", s.coq()))
            # lower_model_methods lowers `mk` into `impl Impl` AND lower_trait_impl into `impl Maker for Impl`
            idx = mod.add(["class %s with %s:" % (mname, tname), "    n: int", "", "    def mk(self) -> %s:" % T, "        return %s" % s.src()],
                          "(DModel %s [] [%s] [%s])" % (cq(mname), meth, meth))
            s.mult = 2
        elif kind == "hooked-newtype-method":
            # a newtype that has its own hook constructs T in one of its methods (current_impl_type = the other one)
            oname = self.fresh("Hooked")
            meth = "{| m_name := \"mk\"; m_recv := true; m_params := []; m_ret := TSimple %s; m_body := [%s] |}" % (cq(T), S("SKReturn", s.coq()))
            hk = hook_method(oname, "int", "from_underlying")
            idx = mod.add(["type %s = newtype int:" % oname] + hk.src() + ["", "    def mk(self) -> %s:" % T, "        return %s" % s.src()],
                          "(DNewtype {| nt_name := %s; nt_under := TSimple \"int\"; nt_methods := [%s; %s] |})" % (cq(oname), hk.coq(proj.spans), meth))
        elif kind == "inherited-class-method":
            # collect_inherited_methods: the parent's method is lowered again in the child's impl
            pname, cname = self.fresh("Parent"), self.fresh("Child")
            meth = "{| m_name := \"mk\"; m_recv := true; m_params := []; m_ret := TSimple %s; m_body := [%s] |}" % (cq(T), S("SKReturn", s.coq()))
            idx = mod.add(["class %s:" % pname, "    n: int", "", "    def mk(self) -> %s:" % T, "        return %s" % s.src()],
                          "(DModel %s [] [%s] [])" % (cq(pname), meth))
            mod.add(["class %s extends %s:" % (cname, pname), "    m: int"], "(DModel %s [] [%s] [])" % (cq(cname), meth))
            s.mult = 2
        elif kind.startswith("trait-default-method:"):
            # a trait's default method body is expanded into `impl Trait for X` of every adopter (0, 1, 2 adopters)
            n = int(kind.split(":")[1])
            tname = self.fresh("Dflt")
            meth = "{| m_name := \"mk\"; m_recv := true; m_params := []; m_ret := TSimple %s; m_body := [%s] |}" % (cq(T), S("SKReturn", s.coq()))
            idx = mod.add(["trait %s:" % tname, "    def mk(self) -> %s:" % T, "        return %s" % s.src()], None)
            for _ in range(n):
                a = self.fresh("Adopter")
                mod.add(["class %s with %s:" % (a, tname), "    n: int"], "(DModel %s [] [] [%s])" % (cq(a), meth))
            s.mult = n
        elif kind == "other-newtype-method":
            oname = self.fresh("Wrap")
            meth = "{| m_name := \"mk\"; m_recv := true; m_params := []; m_ret := TSimple %s; m_body := [%s] |}" % (cq(T), S("SKReturn", s.coq()))
            idx = mod.add(["type %s = newtype int:" % oname, "    def mk(self) -> %s:" % T, "        return %s" % s.src()],
                          "(DNewtype {| nt_name := %s; nt_under := TSimple \"int\"; nt_methods := [%s] |})" % (cq(oname), meth))
        else:
            raise ValueError(kind)
        s.ctx = kind
        self._reg(proj, mod, s, idx)
        return s


MODEL_KINDS = ["field-init", "field-default", "model-method", "class-method", "other-newtype-method", "trait-impl-method",
               "hooked-newtype-method", "inherited-class-method", "trait-default-method:0", "trait-default-method:1",
               "trait-default-method:2"]
VARIANTS2 = ["fu:zero", "fu:three", "fu:onearg", "fu:async", "fu:decorated", "fu:default", "fu:abstract", "fu:retnested",
             "fu:retplain", "fu-first+other", "dup-fu", "name:From_x", "name:xfrom_y", "name:fro_m", "name:from_", "name:from__",
             "name:FROM_X", "many:0", "many:1", "many:2", "many:16", "many:17", "many:64", "many:65", "many+fu:0", "many+fu:1",
             "many+fu:17", "many+fu:65", "illfu+single:zero", "illfu+single:retnested", "illfu+single:retplain", "ill+ok:three"]
VARIANTS = ["none", "fu", "single:from_str", "single:from_int", "single:from_value", "fu+other", "two-from", "three-from",
            "illfu+single:two", "illfu+single:recv", "illfu+single:option", "illfu+single:other", "illfu+single:mismatch",
            "illfu:two", "illfu:recv", "illfu:option", "illfu:other", "illfu:mismatch",
            "ill+ok:two", "ill+ok:recv", "ill+ok:option", "ill+ok:mismatch", "notfrom", "lower-result", "bare-from_"]


# ------------------------------------------------------------------------------ project generators

def reorder(proj, mod, order):
    """permute the declarations of `mod` (order = list of old indices in their new order) and
    re-index the sites and newtypes that live in it"""
    assert sorted(order) == list(range(len(mod.decls)))
    new_of = {old: new for new, old in enumerate(order)}
    mod.decls = [mod.decls[old] for old in order]
    mi = proj.modules.index(mod)
    for s in proj.sites:
        if s.module == mi and s.decl_index is not None:
            s.decl_index = new_of[s.decl_index]
    for nt in proj.newtypes:
        if nt.module == mi:
            nt.index = new_of[nt.index]


def uses_first(proj, mod, nts):
    """move the declarations of the given newtypes (and their use_ helpers) BELOW everything else
    except `main`: every site of theirs is then a forward reference (use before declaration)"""
    moved = []
    for nt in nts:
        moved += [nt.index, nt.index + 1]          # the newtype and its use_T helper (added right after it)
    last = len(mod.decls) - 1                       # def main
    rest = [i for i in range(len(mod.decls)) if i not in moved and i != last]
    reorder(proj, mod, rest + moved + [last])


def shuffle_decls(g, proj, mod):
    """any order of top-level declarations is the same program for the checker (it has a collect pass)"""
    last = len(mod.decls) - 1
    head = [i for i in range(last) if mod.decls[i][0] and mod.decls[i][0][0].startswith('"""')]
    body = [i for i in range(last) if i not in head]
    g.rng.shuffle(body)
    reorder(proj, mod, head + body + [last])


def project_all_contexts(g, under, variant="fu", tname="Attempts", order="decl-first"):
    """one hooked newtype (+ one hookless), a site in EVERY context, single file.
    order: 'decl-first' (types above their uses), 'use-first' (every site above the newtype
    declaration: forward references), 'shuffled'"""
    p = Project()
    m = Module("main")
    p.modules.append(m)
    m.add(['"""module docstring (Declaration::Docstring arm of lower_program)"""'], None)
    m.add(["const LIMIT%d: int = 5" % g.mark()], "(DConst \"LIMIT\" (ELit 5))")
    g.plain_helpers(m, [under])
    nt = g.newtype(p, m, tname, under, variant)
    free = g.newtype(p, m, "Free" + tname, under, "none")
    for c in CTXS:
        g.site_in_function(p, m, nt, ctx=c)
    g.site_return(p, m, nt)
    g.site_yield(p, m, nt)
    g.site_in_function(p, m, nt, ctx=CTXS[0], form="threeargs")
    for k in MODEL_KINDS:
        g.site_model(p, m, nt, k)
    g.site_in_function(p, m, free, ctx=CTXS[0])
    g.site_in_function(p, m, nt, ctx=CTXS[0], form="paren")
    g.site_in_function(p, m, nt, ctx=CTXS[0], form="alias")
    g.site_in_function(p, m, nt, ctx=CTXS[0], form="twoargs")
    if under == "int":
        other = g.newtype(p, m, "Other" + tname, "int", "single:from_int")
        g.site_nested(p, m, nt, other)
        g.site_nested(p, m, other, nt)
    else:
        other = None
    m.add(["def main() -> None:", "    pass"], "(DFunction \"main\" [])")
    if order == "use-first":
        uses_first(p, m, [nt, free] + ([other] if other else []))
    elif order == "shuffled":
        shuffle_decls(g, p, m)
    return p


def project_variants(g, under, variants, order="decl-first"):
    """many newtypes with different method lists, two sites each (hook selection)"""
    p = Project()
    m = Module("main")
    p.modules.append(m)
    g.plain_helpers(m, [under])
    for i, v in enumerate(variants):
        nt = g.newtype(p, m, "N%d%s" % (i, under.capitalize()), under, v)
        g.site_in_function(p, m, nt)
        g.site_return(p, m, nt)
    m.add(["def main() -> None:", "    pass"], "(DFunction \"main\" [])")
    if order == "use-first":
        uses_first(p, m, [nt for nt in p.newtypes])
    elif order == "shuffled":
        shuffle_decls(g, p, m)
    return p


def project_scale(g, depth, width, ntypes):
    """scale dimensions pushed past plausible bounds: a site under `depth` parentheses / list brackets /
    nested if blocks, `width` sites in one list literal, `ntypes` hooked newtypes in one module"""
    p = Project()
    m = Module("main")
    p.modules.append(m)
    nt = g.newtype(p, m, "Deep", "int", "fu")
    # parentheses
    s1 = Site(g.mark(), nt); s1.ctx = "paren-depth-%d" % depth
    co = s1.coq()
    for _ in range(depth):
        co = "(EParen %s)" % co
    i1 = m.add(["def deep_paren() -> None:", "    a = %s%s%s" % ("(" * depth, s1.src(), ")" * depth)], "(DFunction \"deep_paren\" [%s])" % S("SKAssign", co))
    g._reg(p, m, s1, i1)
    # list brackets
    s2 = Site(g.mark(), nt); s2.ctx = "list-depth-%d" % depth
    co = s2.coq()
    for _ in range(depth):
        co = E("KList", co)
    i2 = m.add(["def deep_list() -> None:", "    a = %s%s%s" % ("[" * depth, s2.src(), "]" * depth)], "(DFunction \"deep_list\" [%s])" % S("SKAssign", co))
    g._reg(p, m, s2, i2)
    # nested if blocks
    s3 = Site(g.mark(), nt); s3.ctx = "block-depth-%d" % depth
    lines, co = [], S("SKAssign", s3.coq())
    for d in range(depth):
        lines.append("    " * (d + 1) + "if 1 > 0:")
        co = S("SKIf", E("KBinary", "ELit 1", "ELit 0"), blk(co))
    lines.append("    " * (depth + 1) + "a = %s" % s3.src())
    i3 = m.add(["def deep_block() -> None:"] + lines, "(DFunction \"deep_block\" [%s])" % co)
    g._reg(p, m, s3, i3)
    # wide list
    ws = [Site(g.mark(), nt) for _ in range(width)]
    for w in ws:
        w.ctx = "list-width-%d" % width
    i4 = m.add(["def wide() -> None:", "    xs = [%s]" % ", ".join(w.src() for w in ws)],
               "(DFunction \"wide\" [%s])" % S("SKAssign", E("KList", *[w.coq() for w in ws])))
    for w in ws:
        g._reg(p, m, w, i4)
    # many hooked newtypes, one site each (last and first get a second site after all declarations)
    many = [g.newtype(p, m, "Many%d" % i, "int", "fu" if i % 2 == 0 else "single:from_k%d" % i, own_site=False) for i in range(ntypes)]
    for t in many:
        g.site_in_function(p, m, t, ctx=CTXS[0])
    m.add(["def main() -> None:", "    pass"], "(DFunction \"main\" [])")
    return p


def project_duplicates(g):
    """the same newtype name declared twice (accepted by the checker): newtype_checked_ctor is a HashMap and only
    `Some` selections are inserted, so a hooked declaration wins in either order. Correspondence only."""
    p = Project()
    m = Module("main")
    p.modules.append(m)
    a1 = g.newtype(p, m, "Twice", "int", "none", own_site=False)
    a2 = g.newtype(p, m, "Twice", "int", "fu", own_site=False)
    b1 = g.newtype(p, m, "Again", "int", "fu", own_site=False)
    b2 = g.newtype(p, m, "Again", "int", "none", own_site=False)
    c1 = g.newtype(p, m, "Both", "int", "fu", own_site=False)
    c2 = g.newtype(p, m, "Both", "int", "single:from_second", own_site=False)
    for t in (a1, a2, b1, b2, c1, c2):
        t.duplicate = True
    for t in (a2, b1, c2):
        g.site_in_function(p, m, t, ctx=CTXS[0])
        g.site_in_function(p, m, t, ctx=CTXS[3])
    m.add(["def main() -> None:", "    pass"], "(DFunction \"main\" [])")
    return p


def project_lowering_error(g):
    """passes the checker, fails in lowering (re-assignment of an immutable binding inside a block): the model's SFail.
    Nothing is emitted; the model must answer None."""
    p = Project()
    m = Module("main")
    p.modules.append(m)
    nt = g.newtype(p, m, "Faulty", "int", "fu")
    s = Site(g.mark(), nt); s.ctx = "before-lowering-error"; s.mult = 0
    idx = m.add(["def broken() -> None:", "    x = 1", "    a = %s" % s.src(), "    if 1 > 0:", "        x = 2"],
                "(DFunction \"broken\" [%s; %s; %s])" % (S("SKAssign", "ELit 1"), S("SKAssign", s.coq()),
                                                         S("SKIf", E("KBinary", "ELit 1", "ELit 0"), blk("SFail"))))
    g._reg(p, m, s, idx)
    # the same failure inside a newtype's own method and inside a model's method (errors after which lowering continues)
    m.add(["type Bad = newtype int:", "    def from_underlying(v: int) -> Result[Bad, str]:", "        y = 1", "        if v > 0:", "            y = 2", "        return Ok(Bad(v))"],
          "(DNewtype {| nt_name := \"Bad\"; nt_under := TSimple \"int\"; nt_methods := [{| m_name := \"from_underlying\"; m_recv := false; "
          "m_params := [TSimple \"int\"]; m_ret := TNode KGeneric \"Result\" [(TSimple \"Bad\", 1); (TSimple \"str\", 2)]; m_body := [SFail] |}] |})")
    m.add(["def main() -> None:", "    pass"], "(DFunction \"main\" [])")
    p.expect_lowering_error = True
    return p


def project_known_selection(g):
    """hook-selection classes: generic underlying, alias spelling"""
    p = Project()
    m = Module("main")
    p.modules.append(m)
    g.plain_helpers(m, ["int", "float", "list"])
    for nt in (g.newtype(p, m, "Ids", "list", "fu"), g.newtype(p, m, "Idsx", "list", "single:from_list"),
               g.newtype(p, m, "Al", "int", "alias-param"), g.newtype(p, m, "Fl", "float", "alias-param")):
        g.site_in_function(p, m, nt, ctx=CTXS[0])
        g.site_in_function(p, m, nt, ctx=CTXS[3])
    m.add(["def main() -> None:", "    pass"], "(DFunction \"main\" [])")
    return p


def project_lowercase(g):
    """lower-case newtype names: sites before and after the declaration"""
    p = Project()
    m = Module("main")
    p.modules.append(m)
    # sites that precede the declaration refer to a newtype object created later: build in two steps
    early_slots = []
    for c in (CTXS[0], CTXS[3], CTXS[4]):
        early_slots.append((m.add(["PENDING"], None), c))
    nt = g.newtype(p, m, "attempts", "int", "fu")
    up = g.newtype(p, m, "Upper", "int", "fu")
    for idx, c in early_slots:
        s = Site(g.mark(), nt)
        s.ctx = "early:" + c[0]
        fname = g.fresh("early_")
        lines, stmts = c[1](s, "use_attempts", s.marker)
        m.decls[idx] = (["def %s() -> None:" % fname] + ["    " + l for l in lines],
                        "(DFunction %s [%s])" % (cq(fname), "; ".join(stmts)))
        g._reg(p, m, s, idx)
    for c in (CTXS[0], CTXS[3], CTXS[4]):
        g.site_in_function(p, m, nt, ctx=c)
        g.site_in_function(p, m, up, ctx=c)
    g.site_model(p, m, nt, "model-method")
    m.add(["def main() -> None:", "    pass"], "(DFunction \"main\" [])")
    return p


def project_multi(g, under, shape):
    """multi-file: ids.incn declares UserId (+ sites of its own), main imports it.
    shape 'two': ids + main; 'three': base <- mid <- main"""
    p = Project()
    if shape == "two":
        ids, main = Module("ids"), Module("main")
        p.modules += [ids, main]
        nt = g.newtype(p, ids, "UserId", under, g.rng.choice(["fu", "single:from_raw"]), pub=True)
        loc_dep = g.newtype(p, ids, "DepLocal", under, "fu", pub=True)
        for c in g.rng.sample(CTXS, 4):
            g.site_in_function(p, ids, nt, ctx=c)        # own module: rewritten
        g.site_return(p, ids, loc_dep)
        main.imports.append("from ids import UserId, use_UserId")
        local = g.newtype(p, main, "Local", under, "fu")
        for c in g.rng.sample(CTXS, 5):
            g.site_in_function(p, main, nt, ctx=c)       # other module: Known_C17_cross_module
        g.site_return(p, main, nt)
        main.imports.append("import ids")
        sq = g.site_in_function(p, main, nt, ctx=CTXS[0], form="qualified")   # ids.UserId(m)
        g.site_model(p, main, nt, g.rng.choice(MODEL_KINDS[:4]))
        for c in g.rng.sample(CTXS, 3):
            g.site_in_function(p, main, local, ctx=c)
        main.add(["def main() -> None:", "    pass"], "(DFunction \"main\" [])")
    else:
        base, mid, main = Module("base"), Module("mid"), Module("main")
        p.modules += [base, mid, main]
        nt = g.newtype(p, base, "BaseId", under, "fu", pub=True)
        g.site_in_function(p, base, nt)
        mid.imports.append("from base import BaseId, use_BaseId")
        mnt = g.newtype(p, mid, "MidId", under, "single:from_mid", pub=True)
        g.site_in_function(p, mid, nt)                   # cross-module inside a dependency
        g.site_in_function(p, mid, mnt)
        main.imports += ["from base import BaseId, use_BaseId", "from mid import MidId, use_MidId"]
        g.site_in_function(p, main, nt)
        g.site_in_function(p, main, mnt)
        main.add(["def main() -> None:", "    pass"], "(DFunction \"main\" [])")
    return p


# ------------------------------------------------------------------------------ reading the emitted Rust

def strip_ws(text):
    """token-normalise: no whitespace except one blank between two word characters; no trailing commas"""
    t = re.sub(r"\s+", " ", text)
    t = re.sub(r"(?<=\W) | (?=\W)", "", t)
    return t.replace(",)", ")").replace(",]", "]")


def match_paren(t, i):
    """index of the parenthesis closing the one at t[i]; strings skipped"""
    depth, j, n = 0, i, len(t)
    while j < n:
        c = t[j]
        if c == '"':
            j += 1
            while j < n and t[j] != '"':
                j += 2 if t[j] == "\\" else 1
        elif c == "(":
            depth += 1
        elif c == ")":
            depth -= 1
            if depth == 0:
                return j
        j += 1
    return -1


def classify_text(text, sites):
    """for every site marker found in the stripped text: (marker, checked 0/1, callee, hook) entries"""
    t = strip_ws(text)
    out = []
    for s in sites:
        rx = re.compile(r"(%s)\((%s)" % (IDENT, lit_rx(s.nt.under, s.marker)))
        for mo in rx.finditer(t):
            callee = mo.group(1)
            if callee in ("vec", "Some", "Ok"):
                continue
            if "::" in callee:
                T, h = callee.rsplit("::", 1)
                close = match_paren(t, mo.end(1))
                want = strip_ws('.expect("validated newtype construction failed: %s::%s")' % (T, h))
                if close >= 0 and t.startswith(want, close + 1):
                    out.append((s.marker, 1, T, h))
                elif getattr(s, "form", "") == "qualified":
                    out.append((s.marker, 0, callee, ""))  # module-qualified raw constructor `ids::UserId(..)`
                else:
                    out.append((s.marker, 2, T, h))       # hook called, result not unwrapped with the message
            else:
                out.append((s.marker, 0, callee, ""))
    return sorted(out)          # a multiset: inherited / trait-default methods are lowered more than once


def decode(codes):
    return "".join(chr(c) for c in codes)


def model_entries(mod_render):
    return sorted((m, chk, decode(c), decode(h)) for (m, chk, c, h) in [flat4(e) for e in mod_render])


def flat4(e):
    # Coq prints ((a, b), c), d) left-nested pairs flat: (a, b, c, d)
    if len(e) == 4:
        return e
    (abc, d) = e
    return tuple(flat4_inner(abc)) + (d,)


def flat4_inner(x):
    if isinstance(x, tuple) and len(x) == 2 and isinstance(x[0], tuple):
        return list(flat4_inner(x[0])) + [x[1]]
    return list(x)


# ------------------------------------------------------------------------------ the oracle (property, not model)

def expected_for(site):
    """what the PROPERTY demands at this site: ('checked', T, hook) | ('raw', T) | None (not a site)"""
    nt = site.nt
    if site.form in ("twoargs", "threeargs") or getattr(site.nt, "duplicate", False):
        return None
    h = nt.spec_hook()
    if h is None or site.own:
        return ("raw", nt.name)
    return ("checked", nt.name, h)


def known_class(site):
    """precise class predicates (Python twins of the Known_C17_* predicates of Model.v)"""
    nt = site.nt
    cls = []
    if site.module != nt.module:
        cls.append("newtype-cross-module")
    if site.form in ("paren", "alias", "qualified"):
        cls.append("newtype-indirect-callee")
    if nt.uty().nested():
        cls.append("newtype-generic-underlying")
    if nt.alias_spelled():
        cls.append("newtype-alias-spelling")
    first = nt.name[:1]
    if not ("A" <= first <= "Z") and site.module == nt.module and site.decl_index < nt.index:
        cls.append("newtype-lowercase-early")
    return cls


# ------------------------------------------------------------------------------ running

def run_cases(binary, cases):
    text = "\n".join(json.dumps(c) for c in cases) + "\n"
    out = vlib.run_harness(binary, ["run", "c17"], text, timeout=1200)
    res = [json.loads(l) for l in out.split("\n") if l]
    if len(res) != len(cases):
        raise vlib.Infra("harness returned %d lines for %d cases" % (len(res), len(cases)))
    return res


def emit_case(proj, k, op="emit", **kw):
    d = {"dir": os.path.join(SCRATCH, "p%d" % k), "files": proj.files(), "entry": "main.incn", "op": op}
    d.update(kw)
    return d


MIX_SITES = {
    "MReturn": "def f() -> A:\n    return B(1)\n\ndef main() -> None:\n    x = f()\n",
    "MTypedLet": "def main() -> None:\n    x: A = B(1)\n",
    "MReassign": "def main() -> None:\n    mut x = A(1)\n    x = B(2)\n",
    "MField": "def main() -> None:\n    m = M(a=B(1))\n",
    "MCompare": "def main() -> None:\n    println(A(1) == B(1))\n",
    "MListElem": "def main() -> None:\n    xs: List[A] = [B(1)]\n",
    "MCallArg": "def main() -> None:\n    println(takes_a(B(1)))\n",
    "MMethodArg": "def main() -> None:\n    h = H(n=1)\n    println(h.takes(B(1)))\n",
}
MIX_SITES.update({
    "MOption": "def main() -> None:\n    x: Option[A] = Some(B(1))\n",
    "MTuple": "def main() -> None:\n    t: Tuple[A, int] = (B(1), 1)\n",
    "MDict": "def main() -> None:\n    d: Dict[str, A] = {\"k\": B(1)}\n",
})
MIX_LIFTED = {      # model terms for the lifted sites (the rule applied to the lifted types)
    "MOption": 'compatible (RGeneric "Option" [RNamed "B"]) (RGeneric "Option" [RNamed "A"])',
    "MTuple": 'compatible (RTuple [RNamed "B"; RInt]) (RGeneric "Tuple" [RNamed "A"; RInt])',
    "MDict": 'compatible (RGeneric "Dict" [RStr; RNamed "B"]) (RGeneric "Dict" [RStr; RNamed "A"])',
}
# a user newtype whose NAME is one of the spellings types_compatible special-cases
NAME_CASES = [("FrozenStr", "str", "RStr"), ("frozenstr", "str", "RStr"), ("FrozenBytes", "bytes", "RBytes"),
              ("frozenbytes", "bytes", "RBytes"), ("Frozen", "str", "RStr"), ("Frozenstr", "str", "RStr"), ("Str", "str", "RStr")]
MIX_UNDER = {"MUnderToNew": "def main() -> None:\n    x: A = %s\n", "MNewToUnder": "def main() -> None:\n    x: %s = A(%s)\n"}


def mix_program(under, body, hooked):
    u = UNDER[under].src()
    hook = ""
    if hooked:
        hook = ":\n    def from_underlying(v: %s) -> Result[A, str]:\n        return Ok(A(v))\n" % u
    pre = ("type A = newtype %s%s\ntype B = newtype %s\n\nmodel M:\n    a: A\n\nclass H:\n    n: int\n\n    def takes(self, a: A) -> int:\n        return 1\n\n"
           "def takes_a(a: A) -> int:\n    return 1\n\n" % (u, hook, u))
    lit = lit_src(under, 1)
    return pre + body.replace("B(1)", "B(%s)" % lit).replace("A(1)", "A(%s)" % lit).replace("B(2)", "B(%s)" % lit_src(under, 2))


def cargo_build(proj_dir, name):
    env = dict(os.environ)
    env.update({"CARGO_TARGET_DIR": GEN_TARGET, "CARGO_NET_OFFLINE": "true"})
    with vlib.Lock("gen-target"):
        p = subprocess.run(["cargo", "build", "--release", "--offline", "--quiet"], cwd=proj_dir, env=env,
                           capture_output=True, text=True, timeout=1800)
        binary = os.path.join(GEN_TARGET, "release", name)
        private = os.path.join(proj_dir, name + ".bin")
        if p.returncode == 0 and os.path.exists(binary):
            shutil.copy(binary, private)
        for f in (binary, binary + ".d"):
            if os.path.exists(f):
                os.remove(f)
    return p.returncode, p.stderr, private


# runtime batch: one function per site taking the raw value; main selects by the LENGTH of sel.txt
def runtime_program(g, with_known):
    rng = g.rng
    lines, sites = [], []
    nts = [("Att", "int", "fu"), ("Email", "str", "single:from_str"), ("Ratio", "float", "fu"),
           ("Pref", "int", "fu+other"), ("Loose", "int", "none"), ("Amb", "str", "two-from"), ("Ill", "int", "illfu+single:two")]
    if with_known:
        nts += [("Ids", "list", "fu"), ("Al", "int", "alias-param")]
    p = Project()
    m = Module("main")
    p.modules.append(m)
    g.plain_helpers(m, ["int", "str", "float"])
    if with_known:
        # a lower-case newtype constructed before its declaration
        lines_early = ["def site_early(v: int) -> int:", "    a = attempts(v)", "    return use_attempts(a)"]
        m.add(lines_early, None)
    decl = {}
    for (name, under, variant) in nts:
        decl[name] = g.newtype(p, m, name, under, variant, own_site=False)
    if with_known:
        decl["attempts"] = g.newtype(p, m, "attempts", "int", "fu", own_site=False)
    safe = [c for c in CTXS if c[2]]
    k = 0
    table = []       # (k, site fn name, nt, form, ctx)
    for name, nt in decl.items():
        if name == "attempts":
            k += 1
            table.append((k, "site_early", nt, "direct", "early"))
            continue
        # a String / Vec argument used inside a loop body or a closure is moved more than once (rustc E0507/E0382:
        # ownership, C02 territory) — keep those contexts for the Copy underlying types only
        pool = safe if nt.under in ("int", "float") else [c for c in safe if c[0] not in NONCOPY_UNSAFE]
        ctxs = rng.sample(pool, 6 if nt.spec_hook() else 2)
        forms = ["direct"] * len(ctxs)
        if with_known and nt.spec_hook() and nt.under == "int" and name == "Att":
            ctxs += [CTXS[0], CTXS[0]]
            forms += ["paren", "alias"]
        for c, form in zip(ctxs, forms):
            k += 1
            fn = "site_%d" % k
            # the site's argument is the parameter v: build the context with a pseudo-site whose source is T(v)
            class PS:
                pass
            ps = PS()
            ps.nt = nt
            ps.marker = k
            T = nt.name
            ps.src = (lambda T=T, form=form, k=k: {"direct": "%s(v)" % T, "paren": "(%s)(v)" % T, "alias": "mk%d(v)" % k}[form])
            ps.coq = lambda: "ELit 0"
            body, _ = c[1](ps, "use_" + T, k)
            if form == "alias":
                body = ["mk%d = %s" % (k, T)] + body
            m.add(["def %s(v: %s) -> int:" % (fn, UNDER[nt.under].src())] + ["    " + l for l in body] + ["    return 1"], None)
            table.append((k, fn, nt, form, c[0]))
    # model method / field sites for the first hooked newtype
    pick = ["def pick() -> int:", "    match read_file(\"sel.txt\"):", "        case Ok(s):", "            return len(s)",
            "        case Err(e):", "            return 0"]
    m.add(pick, None)
    main = ["def main() -> None:", "    sel = pick()"]
    for (k, fn, nt, form, ctx) in table:
        good, bad = {"int": ("7", "0 - 3"), "str": ('"ok"', '""'), "float": ("2.5", "0.0 - 1.5"), "list": ("[1]", "[]")}[nt.under]
        main += ["    if sel == %d:" % (2 * k - 1), "        println(%s(%s))" % (fn, good),
                 "    if sel == %d:" % (2 * k), "        println(%s(%s))" % (fn, bad)]
    main += ["    println(\"done\")"]
    m.add(main, None)
    if not with_known:
        # forward references at run time too: these two newtypes are declared BELOW every site function
        uses_first(p, m, [decl["Att"], decl["Email"]])
    return p, table


def run(chk):
    chk.trusted = [
        "Coq 8.16.1 kernel (coqc; vm_compute for closed witnesses and for evaluating the model in the correspondence run)",
        "hand-written C17/Model.v: select_newtype_checked_ctor, the Call arm of lower_expr, lower_model_methods' flag bookkeeping, "
        "lower_program's passes, per-module AstLowering, types_compatible — tied to /repo only by the correspondence run",
        "abstraction: every expression form other than identifier/literal/call/parenthesis/yield is an opaque node whose children "
        "are all lowered by lower_expr (checked for 37 context kinds by correspondence)",
        "vharness c17 adapter (mirrors cli::commands::prepare_project), this script's reading of the emitted Rust text "
        "(whitespace-stripped, callee path before the site's unique literal, matching .expect(\"validated newtype construction failed: T::h\"))",
        "thorough tier: rustc/cargo and the generated program's runtime for the value-level statement; the Coq evaluator is a "
        "model of `Result::expect` (Ok -> value, Err e -> panic carrying e), hook bodies are universally quantified functions",
    ]
    chk.assumptions = [
        "flag_restored on the error path is a model theorem only: when any declaration fails to lower, lower_program returns Err and nothing is emitted, so the restored flag is unobservable through emitted text",
        "ASCII names only (model is_uppercase = 'A'..'Z'); Expr::Constructor is never produced by the parser and is not modelled",
        "nominal typing: types_compatible is pub(crate); observed through check_with_imports verdicts at 8 site kinds x 3 underlying types",
    ]
    # DEV fallback (round 2): proposed entries of build/kf-C17.json that are not yet in known_findings.json
    # (newtype-builtin-name). The lead drops these four lines after merging.
    kf = os.path.join(vlib.VERIF, "build", "kf-C17.json")
    if os.path.exists(kf) and os.environ.get("VERIF_KF_DEV"):  # development only: proposals not yet merged into known_findings.json
        have = {f.get("id") for f in chk.findings}
        chk.findings = list(chk.findings) + [f for f in json.load(open(kf)) if f.get("id") not in have]
    known_ids = {f["id"] for f in chk.findings if f.get("status") == "known"}

    import time
    t0 = time.time()
    res = chk.proof_stage("C17", allow_axioms=())
    vlib.log("[c17] proof stage %.1fs" % (time.time() - t0))
    dbg = vlib.build_harness("debug")
    g = Gen(chk.rng)
    thorough = chk.tier == "thorough"

    # -------- generate projects
    projects = []
    for under in ("int", "str", "float"):
        projects.append(("all-contexts/%s" % under, project_all_contexts(g, under)))
    projects.append(("all-contexts/int/single", project_all_contexts(g, "int", "single:from_int", "Score")))
    projects.append(("all-contexts/str/nohook", project_all_contexts(g, "str", "two-from", "Tag")))
    # the same, every site ABOVE the declaration of its newtype (forward reference), and shuffled
    for under in ("int", "str", "float"):
        projects.append(("all-contexts/%s/use-before-decl" % under, project_all_contexts(g, under, order="use-first")))
    projects.append(("all-contexts/int/single/use-before-decl", project_all_contexts(g, "int", "single:from_int", "Score", order="use-first")))
    projects.append(("all-contexts/str/shuffled", project_all_contexts(g, "str", order="shuffled")))
    projects.append(("all-contexts/int/shuffled", project_all_contexts(g, "int", "single:from_raw", "Level", order="shuffled")))
    for under in ("int", "str", "float"):
        projects.append(("variants/%s" % under, project_variants(g, under, VARIANTS)))
    projects.append(("variants/int/use-before-decl", project_variants(g, "int", VARIANTS, order="use-first")))
    projects.append(("variants2/int", project_variants(g, "int", VARIANTS2)))
    projects.append(("variants2/str/shuffled", project_variants(g, "str", VARIANTS2, order="shuffled")))
    projects.append(("variants2/float/use-before-decl", project_variants(g, "float", VARIANTS2, order="use-first")))
    for depth, width, ntypes in ((0, 0, 0), (1, 1, 1), (2, 2, 2), (16, 16, 16), (17, 17, 17), (63, 63, 3), (64, 64, 64), (65, 65, 65)) + \
            (((255, 255, 5), (256, 256, 256), (1000, 1000, 4)) if thorough else ((120, 256, 5),)):
        projects.append(("scale/%d-%d-%d" % (depth, width, ntypes), project_scale(g, depth, width, ntypes)))
    projects.append(("duplicates", project_duplicates(g)))
    projects.append(("lowering-error", project_lowering_error(g)))
    projects.append(("known-selection", project_known_selection(g)))
    projects.append(("lowercase", project_lowercase(g)))
    for under in ("int", "str", "float"):
        projects.append(("multi/two/%s" % under, project_multi(g, under, "two")))
    projects.append(("multi/three/int", project_multi(g, "int", "three")))
    n_rand = 6 if not thorough else 40
    for i in range(n_rand):
        under = chk.rng.choice(["int", "str", "float"])
        vs = [chk.rng.choice(VARIANTS) for _ in range(8)]
        projects.append(("random-variants/%d" % i, project_variants(g, under, vs, order=chk.rng.choice(["decl-first", "use-first", "shuffled"]))))
        projects.append(("random-multi/%d" % i, project_multi(g, under, chk.rng.choice(["two", "three"]))))

    cases = [emit_case(p, k) for k, (_, p) in enumerate(projects)]
    try:
        t1 = time.time()
        impl = run_cases(dbg, cases)
        vlib.log("[c17] real pipeline on %d projects %.1fs" % (len(cases), time.time() - t1))

        # -------- model (evaluated inside Coq)
        t3 = time.time()
        model_ok = vlib.coq_build(["C17/Model.vo"])[0]
        vlib.log("[c17] Model.vo up to date check %.1fs" % (time.time() - t3))
        model = None
        if model_ok:
            terms = ["%s" % p.coq() for _, p in projects]
            t2 = time.time()
            both = vlib.coq_eval(REQ, "list (list decl)", "fun p => (render_project p, arms_project p)", terms, shard=3, tag="c17")
            model = [b[0] for b in both]
            arm_hits = {}
            for b in both:
                for (a, n) in b[1]:
                    arm_hits[a] = arm_hits.get(a, 0) + n
            vlib.log("[c17] model evaluation in Coq %.1fs" % (time.time() - t2))
        else:
            res["tie_ok"] = False
            res["broken"].append({"what": "model", "message": "C17/Model.v no longer builds"})

        fails, corr_bad = [], []
        scale_skipped = {}
        dist = {}
        known_seen = {}
        n_sites = 0
        for k, ((label, p), r) in enumerate(zip(projects, impl)):
            if getattr(p, "expect_lowering_error", False):
                mv = model[k] if model_ok else None
                if r["stage"] != "codegen" or (model_ok and mv is not None):
                    corr_bad.append({"project": label, "impl_stage": r["stage"], "impl_errors": r["errors"][:2],
                                     "model": "lowers" if mv is not None else "lowering error", "files": p.files()})
                chk.count_case((label, "lowering-error"), nontrivial=False)
                continue
            if label.startswith("scale/") and r["stage"] in ("collect", "panic"):
                # a nesting limit of the parser (C10/C11 territory) — nothing reaches the lowering; recorded, not judged here
                scale_skipped[label] = "%s: %s" % (r["stage"], r["errors"][0][:160] if r["errors"] else "")
                continue
            if r["stage"] != "ok":
                raise vlib.Infra("generated project %s does not pass the front end / codegen (%s): %s\n%s"
                                 % (label, r["stage"], r["errors"][:3], json.dumps(p.files())[:1500]))
            texts = []
            for i, m in enumerate(p.modules):
                texts.append(r["main"] if i == len(p.modules) - 1 else r["modules"].get(m.name, ""))
            impl_entries = [classify_text(texts[i], p.sites) for i in range(len(p.modules))]
            if model_ok:
                mv = model[k]
                if mv is None:
                    corr_bad.append({"project": label, "model": "lowering error", "impl": "ok"})
                else:
                    for i, m in enumerate(p.modules):
                        markers = {s.marker for s in p.sites if s.form != "qualified"}
                        impl_entries_i = [e for e in impl_entries[i] if e[0] in markers]
                        me = [e for e in model_entries(mv[i]) if e[0] in markers]   # other calls with a literal first argument are not sites
                        if me != impl_entries_i:
                            corr_bad.append({"project": label, "module": m.name,
                                             "only_model": [e for e in me if e not in impl_entries_i][:6],
                                             "only_impl": [e for e in impl_entries_i if e not in me][:6],
                                             "counts": (len(me), len(impl_entries_i)),
                                             "files": p.files()})
            # oracle: the property, site by site
            for s in p.sites:
                want = expected_for(s)
                got = [e for e in impl_entries[s.module] if e[0] == s.marker]
                others = [e for i in range(len(p.modules)) if i != s.module for e in impl_entries[i] if e[0] == s.marker]
                key = (s.ctx, s.form, s.nt.under, getattr(s.nt, "variant", "?"), "x" if s.module != s.nt.module else "s")
                dist[str(key[:2])] = dist.get(str(key[:2]), 0) + 1
                if s.module == s.nt.module and not s.own:
                    fw = "forward-reference" if s.decl_index < s.nt.index else "after-declaration"
                    dist["order:" + fw] = dist.get("order:" + fw, 0) + 1
                n_sites += 1
                chk.count_case((label, s.marker, key), nontrivial=(want is not None and want[0] == "checked"))
                if want is None:
                    continue
                why = None
                if others:
                    why = "site marker also found in another module's text: %r" % (others,)
                elif len(got) != s.mult:
                    why = "site found %d times in the emitted text (the lowering visits it %d times): %r" % (len(got), s.mult, got)
                else:
                    for e in got:
                        if want[0] == "checked" and e != (s.marker, 1, want[1], want[2]):
                            why = "expected %s::%s(..).expect(..), emitted %s" % (want[1], want[2], e)
                        if want[0] == "raw" and e[1] != 0:
                            why = "expected the raw constructor %s(..) (no hook / own method), emitted %s" % (want[1], e)
                if why is None:
                    continue
                cls = known_class(s)
                hit = [c for c in cls if c in known_ids]
                if want[0] == "checked" and hit and got and got[0][1] == 0:
                    for c in hit:
                        known_seen.setdefault(c, "%s: site %s in context %s emitted %s" % (label, s.src(), s.ctx, got[0]))
                    continue
                fails.append({"project": label, "site": s.src(), "context": s.ctx, "newtype_variant": getattr(s.nt, "variant", "?"),
                              "underlying": s.nt.under, "site_module": p.modules[s.module].name,
                              "newtype_module": p.modules[s.nt.module].name, "classes_not_listed_as_known": cls,
                              "site_declared_before_newtype": bool(s.module == s.nt.module and s.decl_index < s.nt.index),
                              "why": why, "files": p.files()})

        vlib.log("[c17] site comparison done at %.1fs" % (time.time() - t0))
        # -------- nominal typing through --check
        mix_cases, mix_meta = [], []
        k0 = len(projects)
        for under in ("int", "str", "float"):
            for hooked in (False, True):
                for site, body in MIX_SITES.items():
                    mix_cases.append({"dir": os.path.join(SCRATCH, "m%d" % (k0 + len(mix_cases))), "op": "check", "entry": "main.incn",
                                      "files": {"main.incn": mix_program(under, body, hooked)}})
                    mix_meta.append((site, under, hooked))
                lit = lit_src(under, 1)
                mix_cases.append({"dir": os.path.join(SCRATCH, "m%d" % (k0 + len(mix_cases))), "op": "check", "entry": "main.incn",
                                  "files": {"main.incn": mix_program(under, MIX_UNDER["MUnderToNew"] % lit, hooked)}})
                mix_meta.append(("MUnderToNew", under, hooked))
                mix_cases.append({"dir": os.path.join(SCRATCH, "m%d" % (k0 + len(mix_cases))), "op": "check", "entry": "main.incn",
                                  "files": {"main.incn": mix_program(under, MIX_UNDER["MNewToUnder"] % (UNDER[under].src(), "1"), hooked)}})
                mix_meta.append(("MNewToUnder", under, hooked))
                # control: the same programs with A everywhere must be ACCEPTED (the rejection is about mixing)
                mix_cases.append({"dir": os.path.join(SCRATCH, "m%d" % (k0 + len(mix_cases))), "op": "check", "entry": "main.incn",
                                  "files": {"main.incn": mix_program(under, MIX_SITES["MTypedLet"], hooked).replace("= B(", "= A(")}})
                mix_meta.append(("control", under, hooked))
        for (nm, target, _) in NAME_CASES:
            mix_cases.append({"dir": os.path.join(SCRATCH, "m%d" % (k0 + len(mix_cases))), "op": "check", "entry": "main.incn",
                              "files": {"main.incn": "type %s = newtype int\n\ndef main() -> None:\n    x: %s = %s(1)\n" % (nm, target, nm)}})
            mix_meta.append(("name:" + nm, target, False))
        mix_impl = run_cases(dbg, mix_cases)
        mix_model = None
        mix_model_names = {}
        if model_ok:
            names = [s for s in MIX_SITES]
            rt = {"int": "RInt", "str": "RStr", "float": "RFloat"}
            terms = [("b2z (%s)" % MIX_LIFTED[s]) if s in MIX_LIFTED else "b2z (check_mix %s (RNamed \"B\") (RNamed \"A\"))" % s for s in names]
            terms += ["b2z (compatible %s (RNamed \"A\"))" % rt[u] for u in ("int", "str", "float")]
            terms += ["b2z (compatible (RNamed \"A\") %s)" % rt[u] for u in ("int", "str", "float")]
            terms += ["b2z (compatible (RNamed %s) %s)" % (cq(nm), rt_) for (nm, _, rt_) in NAME_CASES]
            vals = vlib.coq_eval(REQ, "Z", "fun x => x", terms, tag="c17mix")
            for i, (nm, _, _) in enumerate(NAME_CASES):
                mix_model_names[nm] = vals[len(names) + 6 + i]
            mix_model = dict(zip(names, vals[:len(names)]))
            for i, u in enumerate(("int", "str", "float")):
                mix_model[("MUnderToNew", u)] = vals[len(names) + i]
                mix_model[("MNewToUnder", u)] = vals[len(names) + 3 + i]
        compat_hits = {}
        for (site, under, hooked), c, r in zip(mix_meta, mix_cases, mix_impl):
            accepted = 1 if r["stage"] == "ok" else 0
            chk.count_case(("mix", site, under, hooked), nontrivial=(accepted == 0))
            dist["mix:" + site] = dist.get("mix:" + site, 0) + 1
            if r["stage"] not in ("ok", "check"):
                raise vlib.Infra("mix program does not parse: %s %s" % (r, c["files"]))
            if site == "control":
                if not accepted:
                    fails.append({"mix": site, "underlying": under, "why": "control program (no mixing) rejected: %s" % r["errors"][:2], "files": c["files"]})
                continue
            if site.startswith("name:"):
                nm = site[5:]
                compat_hits["named-vs-%s:%s" % (under, "special-name" if accepted else "other-name")] = \
                    compat_hits.get("named-vs-%s:%s" % (under, "special-name" if accepted else "other-name"), 0) + 1
                if mix_model is not None and mix_model_names.get(nm) != accepted:
                    corr_bad.append({"mix": site, "model_accepts": mix_model_names.get(nm), "impl_accepts": accepted, "files": c["files"]})
                if accepted:
                    if "newtype-builtin-name" in known_ids and nm.lower() in ("frozenstr", "frozenbytes"):   # any casing: stringlike::from_str ignores ASCII case
                        known_seen.setdefault("newtype-builtin-name", "newtype %s over int accepted where %s is expected" % (nm, under))
                        continue
                    fails.append({"mix": site, "why": "a user newtype over int is accepted where %s is expected" % under, "files": c["files"]})
                continue
            compat_hits["%s:%s" % (site, "accepted" if accepted else "rejected")] = compat_hits.get("%s:%s" % (site, "accepted" if accepted else "rejected"), 0) + 1
            if mix_model is not None:
                mm = mix_model.get(site, mix_model.get((site, under)))
                if mm != accepted:
                    corr_bad.append({"mix": site, "underlying": under, "model_accepts": mm, "impl_accepts": accepted, "files": c["files"]})
            if accepted:    # the property: mixing must be rejected
                if site == "MCallArg" and "newtype-mix-call-arg" in known_ids:
                    known_seen.setdefault("newtype-mix-call-arg", "%s over %s accepted by the checker" % (site, under))
                    continue
                fails.append({"mix": site, "underlying": under, "hooked": hooked,
                              "why": "a value of newtype B (or of the underlying type) is accepted where newtype A is expected", "files": c["files"]})

        vlib.log("[c17] mixing done at %.1fs" % (time.time() - t0))
        # -------- thorough: real builds, accepted and rejected arguments
        runtime = {"built": 0, "runs": 0, "accepted_constructed": 0, "rejected_stopped_with_validation_failure": 0,
                   "hookless_wrapped": 0, "known_class_bypass_ran_to_completion": 0}
        if thorough:
            for with_known in (False, True):
                p, table = runtime_program(g, with_known)
                name = "c17rt%d%s" % (os.getpid(), "k" if with_known else "")
                out = os.path.join(SCRATCH, name)
                r = run_cases(dbg, [emit_case(p, 9000 + int(with_known), op="project", name=name, out=out)])[0]
                if r["stage"] != "ok":
                    raise vlib.Infra("runtime batch does not generate: %s" % r)
                rc, err, binary = cargo_build(out, name)
                if rc != 0:
                    raise vlib.Infra("runtime batch does not build with cargo (C02 territory, not a C17 verdict):\n" + err[-3000:])
                runtime["built"] += 1
                for (k, fn, nt, form, ctx) in table:
                    for bad in (False, True):
                        rd = os.path.join(out, "run")
                        os.makedirs(rd, exist_ok=True)
                        open(os.path.join(rd, "sel.txt"), "w").write("x" * (2 * k if bad else 2 * k - 1))
                        pr = subprocess.run([binary], cwd=rd, capture_output=True, text=True, timeout=60)
                        runtime["runs"] += 1
                        h = nt.spec_hook()
                        validated = h is not None
                        chk.count_case(("run", name, k, bad), nontrivial=bad and validated)
                        stopped = pr.returncode != 0 and ("validated newtype construction failed: %s::%s" % (nt.name, h)) in pr.stderr \
                            and ("bad %s" % nt.name) in pr.stderr
                        passed = pr.returncode == 0 and "done" in pr.stdout
                        why = None
                        if not bad and not passed:
                            why = "accepted argument did not construct: rc=%d stderr=%s" % (pr.returncode, pr.stderr[-300:])
                        if bad and validated and not stopped:
                            why = "rejected argument did not stop with the validation failure: rc=%d stdout=%r stderr=%s" % (pr.returncode, pr.stdout[-80:], pr.stderr[-200:])
                        if bad and not validated and not passed:
                            why = "hookless newtype refused a value: rc=%d %s" % (pr.returncode, pr.stderr[-200:])
                        if why is None:
                            runtime["accepted_constructed" if not bad else
                                    ("rejected_stopped_with_validation_failure" if validated else "hookless_wrapped")] += 1
                            continue
                        site = Site(k, nt, form)
                        site.module, site.decl_index = 0, (0 if ctx == "early" else 10**6)
                        cls = [c for c in known_class(site) if c in known_ids]
                        if bad and validated and passed and cls:
                            runtime["known_class_bypass_ran_to_completion"] += 1
                            for c in cls:
                                known_seen[c] = "%s (runtime: %s(%s) with a rejected argument ran to completion)" % (known_seen.get(c, c), nt.name, form)
                            continue
                        fails.append({"runtime": name, "site_fn": fn, "context": ctx, "newtype": nt.name, "form": form, "bad_argument": bad,
                                      "why": why, "files": p.files()})
                shutil.rmtree(out, ignore_errors=True)
            # the cross-module witness: the raw constructor is emitted, and rustc refuses it (private field)
            for f in chk.findings:
                if f.get("id") == "newtype-cross-module" and isinstance(f.get("witness"), dict):
                    name = "c17xm%d" % os.getpid()
                    out = os.path.join(SCRATCH, name)
                    r = run_cases(dbg, [{"dir": os.path.join(SCRATCH, "xm"), "files": f["witness"]["files"], "entry": "main.incn",
                                         "op": "project", "name": name, "out": out}])[0]
                    if r["stage"] == "ok":
                        rc, err, _ = cargo_build(out, name)
                        runtime["cross_module_witness_build"] = ("rustc rejects: E0423 (private field of the tuple struct)" if rc != 0 and "E0423" in err
                                                                 else "rc=%d %s" % (rc, err[-300:]))
                    shutil.rmtree(out, ignore_errors=True)
        chk.coverage["runtime"] = runtime
    finally:
        shutil.rmtree(SCRATCH, ignore_errors=True)

    chk.coverage["rule"] = ("one case = one construction site (project, marker, context, callee form, underlying type, hook variant, same/other module), "
                            "or one --check mixing program, or (thorough) one run of a built binary; non-trivial = the property demands the hook call / a rejection there")
    chk.coverage["distribution"] = dist
    ARM_NAMES = {1: "EIdent", 2: "ELit", 3: "EParen", 4: "EYield (operand dropped)", 5: "ENode (any other expression form)", 6: "EBlock",
                 7: "call: callee not an identifier", 8: "call: identifier not detected as constructor", 9: "call: REWRITE to checked construction",
                 10: "call: raw, inside own impl (exempt)", 11: "call: raw, no hook", 12: "call: raw, hooked but not one positional argument",
                 13: "SNode", 14: "SFail (statement that fails to lower)", 20: "decl: newtype without methods", 21: "decl: newtype with methods",
                 22: "decl: model/class", 23: "decl: model/class whose field default fails to lower", 24: "decl: function", 25: "decl: function fails to lower",
                 26: "decl: const", 27: "decl: other", 28: "method list fails to lower", 30: "select: from_underlying among candidates",
                 31: "select: single candidate", 32: "select: no candidate", 33: "select: several candidates, none chosen",
                 34: "method rejected: receiver", 35: "method rejected: name prefix", 36: "method rejected: parameter list/type",
                 37: "method rejected: return type", 38: "method accepted as candidate"}
    UNREACHABLE = {23: "no expression-level lowering error exists outside statement blocks, and a field default is an expression"}
    if model_ok:
        chk.coverage["model_arm_hits"] = {"%d %s" % (a, ARM_NAMES[a]): arm_hits.get(a, 0) for a in sorted(ARM_NAMES)}
        chk.coverage["model_arm_hits"].update({"compatible/" + k: v for k, v in sorted(compat_hits.items())})
        zero = [a for a in ARM_NAMES if arm_hits.get(a, 0) == 0 and a not in UNREACHABLE]
        chk.coverage["model_arms_unreachable_from_source"] = {"%d %s" % (a, ARM_NAMES[a]): why for a, why in UNREACHABLE.items()}
        if zero:
            raise vlib.Infra("generator bug: model arms never reached by the correspondence stream: %s" % [ARM_NAMES[a] for a in zero])
    chk.coverage["projects"] = len(projects)
    chk.coverage["scale_projects_stopped_before_lowering"] = scale_skipped
    chk.coverage["sites"] = n_sites
    chk.coverage["contexts"] = sorted(set(c[0] for c in CTXS) | set(MODEL_KINDS) | {"return", "own-method", "nested-call-outer", "nested-call-inner"})
    chk.coverage["traces_validated_against_impl"] = (len(projects) + len(mix_cases)) if model_ok else 0
    chk.coverage["correspondence_mismatches"] = len(corr_bad)
    for label, p in projects[:2]:
        chk.sample(label + ": " + p.sites[3].src() + " in " + str(p.sites[3].ctx))
    chk.sample(mix_program("int", MIX_SITES["MCallArg"], False)[-60:])

    # known findings: replay each witness on the real pipeline; report it only if it still fails
    wit = [f for f in chk.findings if f.get("status") == "known" and isinstance(f.get("witness"), dict) and "files" in f["witness"]]
    try:
        wres = run_cases(dbg, [{"dir": os.path.join(SCRATCH, "w%d" % i), "files": f["witness"]["files"], "entry": "main.incn",
                                "op": "check" if f["witness"].get("check_passes") else "emit"} for i, f in enumerate(wit)]) if wit else []
    finally:
        shutil.rmtree(SCRATCH, ignore_errors=True)
    for f, r in zip(wit, wres):
        w = f["witness"]
        if w.get("check_passes"):
            still = r["stage"] == "ok"
        else:
            t = strip_ws(r.get("main", "")) if r["stage"] == "ok" else ""
            still = strip_ws(w["raw_text"]) in t
        if still:
            chk.known(f["id"], "%s: %s" % (f["id"], f["summary"]))
        elif f["id"] in known_seen:
            chk.notes.append("finding %s: the listed witness no longer fails but generated sites of its class do: %s" % (f["id"], known_seen[f["id"]]))
    chk.coverage["known_class_sites_seen"] = known_seen
    for f in fails[:20]:
        chk.violation("failing-input", f)
    if not fails:
        if corr_bad:
            chk.violation("correspondence-broken", {"theorem_or_tie": "C17 model/implementation correspondence", "cases": corr_bad[:8]}, no_input=True)
        if not res["proofs_ok"] or not res["tie_ok"]:
            chk.violation("proof-broken", {"theorem_or_tie": res["broken"]}, no_input=True)


def replay(path):
    data = json.load(open(path))
    dbg = vlib.build_harness("debug")
    for v in data["violations"]:
        d = v["detail"]
        if "files" in d:
            case = {"dir": os.path.join(SCRATCH, "replay"), "files": d["files"], "entry": "main.incn",
                    "op": "check" if "mix" in d else "emit"}
            r = run_cases(dbg, [case])[0]
            shutil.rmtree(SCRATCH, ignore_errors=True)
            print("case:", {k: d[k] for k in d if k != "files"})
            print("implementation: stage=%s errors=%s" % (r["stage"], r["errors"][:3]))
            if "site" in d and r.get("main"):
                t = strip_ws(r["main"] + "".join(r.get("modules", {}).values()))
                lit = re.search(r"\((.*)\)$", d["site"])
                key = strip_ws(lit.group(1).split(",")[0]) if lit else ""
                i = t.find(key)
                print("emitted around the site:", t[max(0, i - 60):i + 120])
            print("expected (property):", d.get("why"))
        else:
            print(json.dumps(d, indent=1)[:3000])
    return 0
