"""C11 — the front end is total and its diagnostics are well-formed.   (PARTIAL: see LEVEL_NOTE)

proof:   coq/C11/Props.v over the hand model coq/Lex/Chars.v (character-level lexer: layout machine + string /
         f-string / byte-string / number / identifier / operator scanners, spans as scalar counts): termination
         within 2|s|+2 scan_token calls, every token/error span start <= end <= |file| on scalar boundaries,
         result shape.  Rendering of ANY span is proved in coq/C19 (C19_render_total, C19_range_wf).
         NOT proved: parser / type checker / formatter / emitter totality — exercised below.
tie:     the model evaluated inside coqc vs `lexer::lex`: token classes, byte spans, error classes and spans on
         scanner-stress samples, random UTF-8, truncated and mutated corpus files.
oracle:  robustness run of the REAL pipeline lex -> parse -> typecheck -> format_source -> IrCodegen::try_generate
         (-emit-rust path) -> format_error -> compile_error_to_diagnostic on the corpus, mutated corpus, random
         UTF-8, every truncation of small files, unterminated literals, unbalanced brackets and nesting up to
         DEPTH; each case on a fresh 1 GiB-stack thread under a 20 s limit in a child process.  A panic, abort,
         hang, empty diagnostic list, span outside the file / off a char boundary / reversed, or a rendering
         failure is a violation."""
import json
import os
import re
import subprocess

import vlib
from checks import c10, c11_sem

LEVEL = "proof"
DEPTH = 150          # fixed nesting depth of the property statement ("up to a fixed generous depth")
KF_FALLBACK = os.path.join(vlib.VERIF, "build", "kf-C11.json")


# ------------------------------------------------------------------------------------------ running the real pipeline

def run_robust(binary, sources, limit=None):
    """Feed sources to `vharness run c11`; survive crashes/hangs of the child. Returns list of result lines
    ('R ...', 'CRASH rc=..', 'HANG')."""
    argv = [binary, "run", "c11"] + (["robust", str(limit)] if limit else [])
    results = []
    i = 0
    while i < len(sources):
        text = "".join((s.encode("utf-8").hex() or "-") + "\n" for s in sources[i:])
        p = subprocess.run(argv, input=text, capture_output=True, text=True, timeout=7200)
        lines = [l for l in p.stdout.split("\n") if l]
        got = lines[:len(sources) - i]
        results.extend(got)
        i += len(got)
        if i >= len(sources):
            break
        if got and got[-1] == "HANG":
            continue            # the HANG line is the result of the hanging case
        # the child died on case i without printing a line
        results.append("CRASH rc=%s stderr=%s" % (p.returncode, p.stderr[-300:].replace("\n", " ")))
        i += 1
    return results


# ------------------------------------------------------------------------------------------ generators

POOL = list("()[]{}\"'\\#:,.=+-*/<>!%@?_ \t\n\r") + ["\r\n", "    ", '"""', "'''", 'f"', "b'", "{", "}", "é", "€", "😀", "\u00a0", "\u2028",
                                                    "\ufeff", "0", "9", "e", "x", "def ", "if ", "match ", "=>", "->", "::", "..", "\x00", "\x7f", "\x1b"]


def mutate(rng, s):
    if not s:
        return rng.choice(POOL)
    if rng.random() < 0.25:
        # cross every kind of mutation with "the input ends in a multi-byte scalar, no final newline"
        t = mutate(rng, s).rstrip("\n")
        return t + rng.choice(["\u00e9", " \u20ac", "\n# caf\u00e9", "\U0001f600", '"\u00e9', "{\u00e9"])
    k = rng.random()
    if k < 0.08:
        # delete one closer (brace, bracket, paren, quote): unterminated constructs run to the end of the file
        pos = [i for i, c in enumerate(s) if c in "}])\"'"]
        if pos:
            i = rng.choice(pos)
            return s[:i] + s[i + 1:]
    i = rng.randrange(len(s) + 1)
    if k < 0.25:
        return s[:i] + rng.choice(POOL) + s[i:]
    if k < 0.45:
        j = min(len(s), i + rng.choice([1, 1, 1, 2, 5, 20]))
        return s[:i] + s[j:]
    if k < 0.55:
        return s[:i] + rng.choice(POOL) + s[i + 1:]
    if k < 0.65:
        return s[:i]
    lines = s.split("\n")
    n = rng.randrange(len(lines))
    if k < 0.75:
        del lines[n]
    elif k < 0.85:
        lines[n] = rng.choice(["", " ", "  ", "   ", "\t", "        "]) + lines[n].lstrip(" \t")
    elif k < 0.92:
        lines.insert(n, lines[rng.randrange(len(lines))])
    else:
        j = rng.randrange(len(lines))
        lines[n], lines[j] = lines[j], lines[n]
    return "\n".join(lines)


def random_utf8(rng, n):
    out = []
    for _ in range(n):
        k = rng.random()
        if k < 0.5:
            out.append(rng.choice(POOL))
        elif k < 0.7:
            out.append(chr(rng.randrange(32, 127)))
        elif k < 0.8:
            out.append(rng.choice(["x", "foo", "1", "2.5", "if", "def", "return", "let", "and", "not", "None", "self"]))
        else:
            c = rng.choice([rng.randrange(0x80, 0x800), rng.randrange(0x800, 0xD800), rng.randrange(0xE000, 0x10000),
                            rng.randrange(0x10000, 0x110000), rng.randrange(0, 32)])
            out.append(chr(c))
    return "".join(out)


def nesting(depth):
    """inputs nested to `depth` in every recursive construct of the grammar."""
    d = depth
    out = {}
    out["parens"] = "def f() -> int:\n    return " + "(" * d + "1" + ")" * d + "\n"
    out["parens-unclosed"] = "def f() -> int:\n    return " + "(" * d + "1\n"
    out["brackets"] = "def f() -> None:\n    let x = " + "[" * d + "1" + "]" * d + "\n"
    out["braces-unclosed"] = "x = " + "{" * d + "\n"
    out["closers"] = ")" * d + "]" * d + "}" * d + "\n"
    out["calls"] = "def f() -> int:\n    return " + "f(" * d + "1" + ")" * d + "\n"
    out["index"] = "def f() -> int:\n    return x" + "[0]" * d + "\n"
    out["attr"] = "def f() -> int:\n    return x" + ".y" * d + "\n"
    out["unary-minus"] = "def f() -> int:\n    return " + "-" * d + "1\n"
    out["unary-not"] = "def f() -> bool:\n    return " + "not " * d + "True\n"
    out["binary-chain"] = "def f() -> int:\n    return " + "1 + " * d + "1\n"
    out["power-chain"] = "def f() -> int:\n    return " + "2 ** " * d + "2\n"
    out["compare-chain"] = "def f() -> bool:\n    return " + "1 < " * d + "1\n"
    # generic type annotations at full depth: lowering them used to take time 2^depth (repaired finding
    # emit-nested-generics-exponential); every collection arm of AstLowering::lower_type and a user generic
    out["types"] = "def f(x: " + "List[" * d + "int" + "]" * d + ") -> None:\n    pass\n"
    out["types-dict"] = "def f(x: " + "Dict[str, " * d + "int" + "]" * d + ") -> None:\n    pass\n"
    out["types-result-option-set"] = ("def f(x: " + "Result[Option[Set[" * (d // 3) + "int" + "]], str]" * (d // 3) + ") -> None:\n    pass\n")
    out["types-user-generic"] = "def f(x: " + "Box[" * d + "int" + "]" * d + ") -> None:\n    pass\n"
    out["types-tuple"] = "def f(x: " + "Tuple[int, " * d + "int" + "]" * d + ") -> None:\n    pass\n"
    out["types-const"] = "const X: " + "List[" * min(d, 40) + "int" + "]" * min(d, 40) + " = []\n"
    out["types-return-and-let"] = ("def f() -> " + "List[" * d + "int" + "]" * d + ":\n    let y: " + "Option[" * d + "int" + "]" * d + " = None\n    return []\n")
    out["try-chain"] = "def f() -> int:\n    return x" + "?" * d + "\n"
    out["await-chain"] = "async def f() -> int:\n    return " + "await " * d + "x\n"
    blocks = "def f() -> None:\n"
    for i in range(1, d + 1):
        blocks += "    " * i + "if x:\n"
    blocks += "    " * (d + 1) + "pass\n"
    out["blocks"] = blocks
    out["blocks-1col"] = "def f() -> None:\n" + "".join(" " * i + "while x:\n" for i in range(1, d + 1)) + " " * (d + 1) + "pass\n"
    out["dedent-cascade"] = blocks + "x\n"
    out["bad-dedents"] = "def f() -> None:\n" + "".join(" " * (2 * i) + "if x:\n" for i in range(1, d + 1)) + \
        "".join(" " * (2 * i - 1) + "y\n" for i in range(d, 0, -1))
    out["elif-chain"] = "def f() -> None:\n    if x:\n        pass\n" + "    elif x:\n        pass\n" * d
    out["match-nest"] = "def f() -> None:\n" + "".join("    " * (2 * i - 1) + "match x:\n" + "    " * (2 * i) + "_ =>\n" for i in range(1, d // 2 + 1)) + \
        "    " * (d + 1 - d % 2) + "pass\n"
    out["fstring-braces"] = 'x = f"' + "{" * d + "a" + "}" * d + '"\n'
    out["fstring-nested"] = "def f() -> str:\n    return " + 'f"{' * 1 + "(" * d + "a" + ")" * d + '}"\n'
    out["lambda"] = "def f() -> None:\n    let g = " + "(x) => " * d + "x\n"
    out["ternary"] = "def f() -> int:\n    return " + "1 if x else " * d + "0\n"
    out["list-comp"] = "def f() -> None:\n    let g = " + "[" * d + "x" + " for x in y]" * d + "\n"
    out["tuple"] = "def f() -> None:\n    let g = " + "(" * d + "1," + "),1" * d + "\n"
    out["dict"] = "def f() -> None:\n    let g = " + '{"a": ' * d + "1" + "}" * d + "\n"
    out["string-long"] = 'x = "' + "a" * (d * 100) + '"\n'
    out["triple-unterminated"] = '"""' + "line\n" * d
    out["many-errors"] = "$ " * (d * 10) + "\n"
    out["many-decls"] = "def f() -> None:\n    pass\n" * d
    out["decorators"] = "@d\n" * d + "def f() -> None:\n    pass\n"
    out["pattern-nest"] = "def f() -> None:\n    match x:\n        " + "Some(" * d + "y" + ")" * d + " =>\n            pass\n"
    return out


NONASCII = ["\u00e9", "\u20ac", "\U0001f600"]      # 2-, 3- and 4-byte scalars


def nonascii_programs():
    """small programs whose text carries 2-, 3- and 4-byte scalars in every lexical position: string, triple-quoted
    string, byte string, f-string literal part, f-string {expression} (plain, nested braces, escaped braces),
    comment, identifier position (where it is an error), operator position."""
    out = []
    for c in NONASCII:
        out += [
            'def f(n: str) -> str:\n    return f"h%s {n} %s{n + "%s"}%s"\n# fin: caf%s\n' % (c, c, c, c, c),
            'def g() -> str:\n    let s = "%s%s" # %s\n    return f"{s}%s{{%s}}{ {1: s}[1] }%s"\n' % (c, c, c, c, c, c),
            'x = f"{%s}" + f\'{a%s + b}\' + f"{ {"%s": 1} }"\n' % (c, c, c),
            'm = """%s\n%s""" + \'%s\' + b"%s" + "\\%s"\n%s = 1\n' % (c, c, c, c, c, c),
            'if a:\n    b = [1, # %s\n      2]\n    c = f"{b[0]}%s"\n  %s\n' % (c, c, c),
            'f"{%s' % c, 'f"{%s + b' % c, 'f"{a + %s' % c, "f'{%s" % c, 'f"{{%s' % c, 'f"{ {%s' % c, 'f"{ {a}%s' % c, 'f"%s{' % c,
            'f"""a{%s' % c, "f\'\'\'x{%s" % c, 'f"}%s' % c, 'f"\\%s' % c, 'f"{a}{%s' % c, 'x = f"{%s"\n# %s' % (c, c),
            'def greet(name: str) -> str:\n    return f"hello {name"\n\n# fin du fichier: caf%s' % c,
            '"%s' % c, "'%s" % c, '"""%s' % c, '"\\%s' % c, 'b"%s' % c, 'b"\\x%s' % c, 'b"\\x4%s' % c, "# %s" % c, "%s" % c, "a%s" % c, "1%s" % c,
            "1.%s" % c, "1e%s" % c, "(%s" % c, "x = [%s" % c, "  %s" % c, "\t#%s" % c, "a\n  b\n %s" % c,
        ]
    return out


def nonascii_truncations(rng, limit=None):
    """EVERY truncation point of every nonascii program, each as is and with a final newline, plus the same cut
    followed by a non-ASCII scalar (so that the LAST character of the input is multi-byte at every cut)."""
    out = []
    for prog in nonascii_programs():
        for i in range(len(prog) + 1):
            cut = prog[:i]
            out.append(cut)
            out.append(cut + "\n")
            out.append(cut + rng.choice(NONASCII))
    out = list(dict.fromkeys(out))
    if limit is not None and len(out) > limit:
        must = [x for x in out if x and ord(x[-1]) > 127 and ("f\"" in x or "f'" in x)]
        rest = [x for x in out if x not in set(must)]
        out = must[:limit // 2] + rng.sample(rest, min(len(rest), limit - min(len(must), limit // 2)))
    return out


def literal_cases():
    base = ['"', "'", '"""', "'''", '"abc', "'abc\n", '"abc\\', '"""abc', '"""abc"', '"""abc""', 'f"', 'f"{', 'f"{x', 'f"{x}',
            'f"{{', 'f"}', 'f"\\', 'f"{x"}', 'b"', 'b"\\x', 'b"\\x4', 'b"\\', "b'é'", 'x = "a" "b', "x = ('a'", "[", "(", "{", ")", "]",
            "}", "(]", "[)", "{)", "((]", "x = [1, 2", "def f(", "def f(x: ", "def f() ->", "def", "def f():", "def f():\n", "def f():\n\n",
            "def f():\n  x\n y\n", "  x", "\tx", " \t x", "if x:\n        y\n    z\n", "class", "model M:", "model M:\n", "enum E:\n  A(",
            "match x:\n  ", "match x:\n  1 =>", "x = 1 +", "x = not", "x = -", "x = a.", "x = a[", "x = a[1:", "x = a[::", "x = f(a,",
            "import", "from x import", "import a::", "@", "@dec", "@dec\n", "x: ", "x: List[", "let", "let x", "let x =", "return", "\\",
            "x = 1e", "x = 1e+", "x = 99999999999999999999", "x = 0x1F", "x = 1__2", "x = 1.2.3", "x = 1..", "x = ..=", "...", "....",
            "é", "x = é", "# é", '"é', "'😀", 'f"{é}"', 'f"{x!}"', 'f"{x:>10}"', 'f"{f"{x}"}"', "x = '\\u00e9'", "\ufeffdef f() -> None:\n    pass\n",
            "\x00", "x\x00y", "a\rb", "\r", "\r\r\n", "\n\n\n", " ", "\t", " \n \n", "#", "#\n#", "x #", "x = 1 # é😀"]
    wrap = []
    for b in base:
        wrap.append(b)
        wrap.append("def f() -> None:\n    " + b + "\n")
        wrap.append("def f() -> None:\n    x = (" + b + "\n")
    return wrap


RUN_FPARTS = "fun src => fstring_parts src (clex src)"


def real_fparts(binary, sources):
    text = "".join((s.encode("utf-8").hex() or "-") + "\n" for s in sources)
    out = [l for l in vlib.run_harness(binary, ["run", "c11", "fparts"], text).split("\n") if l]
    if len(out) != len(sources):
        raise vlib.Infra("c11 fparts: %d lines for %d cases" % (len(out), len(sources)))
    res = []
    for l in out:
        if not l.startswith("FP F"):
            res.append(None)        # rejected, panicked, or no f-string token
            continue
        items = []
        for it in l[3:].split(";"):
            p = it.split(" ")
            exprs = [] if len(p) < 3 or p[2] == "" else [("" if h == "-" else bytes.fromhex(h).decode("utf-8")) for h in p[2].split(",")]
            items.append((int(p[1]), exprs))
        res.append(items)
    return res


def compare_fparts(s, real, model):
    """the text of every {expression} part of every f-string token = the slice of the source the model delimits"""
    offs = c10.byte_offsets(s)
    idx = {b: k for k, b in enumerate(offs)}
    want = [(idx.get(a, -1), ex) for (a, ex) in real]
    got = [(a, [s[x:y] for (x, y) in parts]) for (a, parts) in model]
    if want != got:
        return "f-string expression parts differ: real %r, model %r" % (want[:4], got[:4])
    return None


# ------------------------------------------------------------------------------------------ known findings

NUM_LIT = re.compile(r"(?<![A-Za-z_0-9.])\d[\d_]*(?:\.\d[\d_]*)?(?:[eE][+-]?\d+)?")


def has_infinite_float_literal(src):
    """a numeric literal of the source whose value does not fit an f64 (the lexer's parse::<f64>() gives inf)"""
    for m in NUM_LIT.finditer(src):
        t = m.group(0).replace("_", "")
        if "." in t or "e" in t.lower():
            try:
                if float(t) == float("inf"):
                    return True
            except (ValueError, OverflowError):
                return True
    return False


def has_tuple_field_target(src):
    """an assignment (plain or compound) whose TARGET goes through a tuple index: `a.0.x = 5`, `xs[0].0 = 1`, `a.0 += 1`"""
    for line in src.split("\n"):
        m = re.match(r"^\s*([^=#\n]*?)\s*(?:\+|-|\*\*|\*|//|/|%)?=(?!=)", line)
        if m and not re.match(r"^\s*(if|elif|while|return|assert|let|mut|const)\b", line) and re.search(r"\.\d+(?![\d.]*[eE\d])", m.group(1) + " "):
            if not re.search(r"[<>!]$", m.group(1)):
                return True
    return False


def has_newtype_call_without_positional(src):
    """a newtype `type X = newtype T` constructed as `X()` or with a keyword argument `X(name=...)`"""
    for name in re.findall(r"type\s+([A-Za-z_][A-Za-z0-9_]*)\s*=\s*newtype\b", src):
        if re.search(r"(?<![A-Za-z0-9_.])%s\(\s*(\)|[A-Za-z_0-9]+\s*=(?!=))" % re.escape(name), src):
            return True
    return False


def has_extends_cycle(src):
    """the `class A extends B` graph of the source has a cycle"""
    edges = dict(re.findall(r"class\s+([A-Za-z_][A-Za-z0-9_]*)\s+extends\s+([A-Za-z_][A-Za-z0-9_]*)", src))
    for start in edges:
        seen, cur = set(), start
        while cur in edges and cur not in seen:
            seen.add(cur)
            cur = edges[cur]
        if cur in seen:
            return True
    return False


FSTRING = re.compile(r"""f(["'])((?:\\.|(?!\1)[^\\\n])*)\1""")
PY_IMPORT = re.compile(r'import\s+python\s+"([^"\n]*)"')
GENERIC_NEST = re.compile(r"(?:[A-Za-z_][A-Za-z0-9_]*\[\s*){20}")


def classify(src, viol, findings):
    """Return the id of the listed known finding whose class contains this violation, or None."""
    for f in findings:
        if f.get("status") != "known":
            continue
        if f["id"] == "python-import-ident-panic":
            if viol.startswith("panic gen") and ("is not a valid Ident" in viol or "Ident is not allowed to be empty" in viol):
                pk = PY_IMPORT.findall(src)
                if any(not re.fullmatch(r"[A-Za-z_][A-Za-z0-9_]*", x) for x in pk):
                    return f["id"]
        if f["id"] == "float-literal-overflow-panic":
            if viol.startswith("panic gen") and "f.is_finite()" in viol and has_infinite_float_literal(src):
                return f["id"]
        if f["id"] == "tuple-field-assign-ident-panic":
            if viol.startswith("panic gen") and "Ident cannot be a number" in viol and has_tuple_field_target(src):
                return f["id"]
        if f["id"] == "newtype-ctor-ident-panic":
            if viol.startswith("panic gen") and "Ident cannot be a number" in viol and has_newtype_call_without_positional(src):
                return f["id"]
        if f["id"] == "huge-tuple-index-panic":
            if viol.startswith("panic gen") and "index < u32::MAX" in viol and any(int(x) >= 4294967295 for x in re.findall(r"\.(\d{10,})", src)):
                return f["id"]
        if f["id"] == "cyclic-extends-overflow":
            if (viol.startswith("HANG") or viol.startswith("CRASH")) and has_extends_cycle(src):
                return f["id"]
        if f["id"] == "emit-nested-generics-exponential":
            # class: the case exceeded the time limit AND the source applies generic types nested >= 20 deep
            if viol.startswith("HANG") and GENERIC_NEST.search(src):
                return f["id"]
        if f["id"] == "fstring-subspans":
            # class: a span violation of a type-checker diagnostic whose span fits inside the text of a
            # {sub-expression} of an f-string of the source (the span is relative to that substring)
            parts = viol.split()
            if len(parts) > 2 and parts[0] in ("span-outside", "span-off-boundary", "span-reversed") and parts[1] in ("check", "gen"):
                m = re.match(r"(\d+)\.\.(\d+)$", parts[2])
                if m:
                    b = int(m.group(2))
                    for fs in FSTRING.finditer(src):
                        for ex in re.findall(r"\{([^{}]*)\}", fs.group(2)):
                            if ex and b <= len(ex.encode("utf-8")):
                                return f["id"]
    return None


# ------------------------------------------------------------------------------------------ the check

def run(chk):
    quick = chk.tier == "quick"
    rng = chk.rng
    if os.environ.get("VERIF_KF_DEV") == "1" and os.path.exists(KF_FALLBACK):
        # development only (VERIF_KF_DEV=1): findings proposed in build/kf-C11.json that known_findings.json does not list yet
        listed = {f["id"] for f in chk.findings}
        chk.findings = chk.findings + [f for f in json.load(open(KF_FALLBACK)) if f.get("property") == "C11" and f["id"] not in listed]
    if os.environ.get("VERIF_KF_C11"):
        # test hook: take this property's findings from another file (used to check that a repaired class is no
        # longer suppressed before known_findings.json itself is updated)
        chk.findings = [f for f in json.load(open(os.environ["VERIF_KF_C11"])) if f.get("property") == "C11"]
    chk.trusted = [
        "Coq 8.16.1 kernel (coqc; vm_compute for closed facts and for evaluating the model in the correspondence run)",
        "hand model coq/Lex/Chars.v + coq/Lex/Layout.v of the lexer (tied by correspondence on token classes, byte spans, error classes)",
        "coq/C19 (owned by C19) for the totality of get_line_info / format_error caret arithmetic / span_to_range on every span",
        "vharness c11 adapter (catch_unwind, 1 GiB-stack thread per case, 20 s limit, child process) and this script",
        "rustc/std (char decoding, is_char_boundary)",
    ]
    chk.assumptions = [
        "PARTIAL: termination and panic-freedom of the parser, type checker, formatter and Rust emitter are exercised (robustness run), not proved",
        "token payloads (spelling, literal value, f-string parts) are not modelled; i64/f64 literal parsing is modelled only as accept/reject",
        "nesting depth is fixed at %d for every recursive construct (stack exhaustion beyond it is outside the model)" % DEPTH,
    ]
    res = chk.proof_stage("C11", allow_axioms=())
    # optional bridge to C19's rendering model (not gating: C19's files belong to another property)
    ok_bridge, _ = vlib.coq_build(["C11/Render.vo"])
    chk.coverage["c19_bridge_lexer_spans_render"] = ("proved (C11/Render.v: every lexer span is rendered by caret_m / span_to_range_m, via C19 render_total)"
                                                    if ok_bridge else "NOT available in this run (C11/Render.v does not build against the current coq/C19)")
    binary = vlib.build_harness("debug")
    dist = {}
    fails = []
    corr_bad = []

    corpus = []
    for f in c10.corpus_files():
        try:
            corpus.append((os.path.relpath(f, vlib.REPO), open(f, encoding="utf-8").read()))
        except (OSError, UnicodeDecodeError):
            pass
    small_files = [c for c in corpus if len(c[1]) < 700]

    # ---- 1. correspondence of the lexer model on malformed input
    lexs = c10.lexical_samples(rng, 150 if quick else 2000)
    rand = [random_utf8(rng, rng.randint(1, 12)) for _ in range(250 if quick else 4000)]
    lits = literal_cases()
    lits += ['x = f"{a}"', 'x = f"a{b}c{d + 1}e"', 'x = f"{ {1: 2}[1] }"', 'x = f"{{a}} {b} }}"', "x = f'{a}' + f\"{b:>3}\"", 'x = f"{}"', 'x = f"{a}{b}{c}"',
             'x = f"\u00e9{\u00e9\u20ac}\U0001f600{ {"\u00e9": 1} }"', 'x = f"\\{a}"', 'x = f"\\"{a}"', 'x = f"{a\nb}"', 'x = f"{a"}"', 'x = f"{f"{b}"}"', 'x = f"{{{a}}}"']
    trunc = []
    for _, s in small_files[:(6 if quick else 40)]:
        for _ in range(6):
            trunc.append(s[:rng.randrange(len(s) + 1)])
            trunc.append(mutate(rng, s))
    layout = ["".join(rng.choice("a \t\n\r#():\"") for _ in range(rng.randint(3, 10))) for _ in range(300 if quick else 6000)]
    groups = [("lexical", lexs, 150), ("random-utf8", rand, 150), ("literals", lits, 150), ("layout", layout, 150),
              ("truncated-mutated", trunc, 8), ("nonascii-truncations", nonascii_truncations(rng, 500 if quick else None), 250)]
    model_ok = vlib.coq_build(["Lex/Chars.vo", "Lex/Layout.vo"])[0]
    if not model_ok:
        res["tie_ok"] = False
        res["broken"].append({"what": "model", "message": "Lex/Chars.v no longer builds"})
    n_corr = 0
    n_fparts = 0
    import time as _t
    t0 = _t.time()
    for name, srcs, shard in groups:
        real = c10.real_lex(binary, srcs)
        for r in real:
            key = "corr:%s:%s" % (name, "panic" if r[0] == "panic" else "err" if r[1] else "ok")
            dist[key] = dist.get(key, 0) + 1
        if not model_ok:
            continue
        model = vlib.coq_eval(c10.REQ, "list N", c10.RUN, [c10.coq_src(s) for s in srcs], shard=shard, tag="c11" + name)
        for s, r, m in zip(srcs, real, model):
            n_corr += 1
            if r[0] == "panic":
                # the model is total (C11_lex_total): a panic of the real lexer is a failing input of the property itself
                fails.append({"group": "corr-" + name, "source": s, "stages": "lex=panic", "violation": "panic lex " + r[1][:300]})
                continue
            why = c10.compare_model(s, r, m)
            if why:
                corr_bad.append({"group": name, "source": s[:400], "why": why})
        # payload tie for f-strings: the text of every {expression} part (FStringPart::Expr) against the model's ranges
        fsrc = [s for s, r in zip(srcs, real) if r[0] != "panic" and not r[1] and any(k == 18 for (k, _, _) in r[0])]
        if fsrc:
            rp = real_fparts(binary, fsrc)
            mp = vlib.coq_eval(c10.REQ, "list N", RUN_FPARTS, [c10.coq_src(s) for s in fsrc], shard=300, tag="c11fp" + name)
            for s, r, m in zip(fsrc, rp, mp):
                n_fparts += 1
                why = "real lexer gave no f-string token on the second call" if r is None else \
                    compare_fparts(s, r, [(a, [tuple(x) for x in parts]) for (a, parts) in m])
                if why:
                    corr_bad.append({"group": name + "/fparts", "source": s[:400], "why": why})
    vlib.log("[c11] correspondence %d cases in %.1fs" % (n_corr, _t.time() - t0))
    t0 = _t.time()
    chk.coverage["traces_validated_against_impl"] = n_corr
    chk.coverage["correspondence_mismatches"] = len(corr_bad)
    chk.coverage["fstring_payload_cases"] = n_fparts

    # ---- 2. robustness run on the real pipeline
    cases = []
    for name, s in corpus:
        cases.append(("corpus", s))
    for _ in range(1000 if quick else 15000):
        s = rng.choice(corpus)[1]
        for _ in range(rng.choice([1, 1, 2, 3])):
            s = mutate(rng, s)
        cases.append(("mutated", s))
    for _ in range(700 if quick else 8000):
        cases.append(("random-utf8", random_utf8(rng, rng.choice([1, 2, 3, 5, 8, 13, 40, 200]))))
    for _, s in small_files[:(3 if quick else len(small_files))]:
        for i in range(len(s) + 1):
            cases.append(("truncation", s[:i]))
            if i % 3 == 0:
                cases.append(("truncation+nonascii-eof", s[:i] + rng.choice(NONASCII)))
    for s in lits:
        cases.append(("literal/bracket", s))
    for s in nonascii_truncations(rng):
        cases.append(("nonascii-truncation", s))
    # regression stream of the repaired finding python-import-ident-panic: any package string must give Ok or a
    # GenerationError, never a panic
    for pk in ["my-pkg", "::requests", "a.b", "", "a b", "1x", "fn", "requests", "\u00e9", "self", "_", "r#x", "a::b", "x-", "-", "Self",
               "crate", "super", "async", "\U0001f600", "a\tb", "0", "__", "type", "r#", "r#fn", "a'b", "a\\b"]:
        for tail in ["", " as p"]:
            cases.append(("python-import", 'import python "%s"%s\n\ndef f() -> None:\n    pass\n' % (pk, tail)))
    for pre in ["", "# \u00e9\u00e9\u00e9\u00e9\u00e9\u00e9\u00e9\u00e9\u00e9\u00e9\n", '"""\u20ac\U0001f600\u20ac\U0001f600\u20ac"""\n']:
        for ex in ["zzz", "zzz + 1", "1 + zzz", "f(zzz)", "zzz.a.b", "(zzz)", " zzz ", "x + 1", "'a' + 1", "zzz[0]", "not zzz", "\u00e9", "zzz?"]:
            cases.append(("fstring-expr", pre + "def f(x: int) -> None:\n    let s = f\"v={%s} {x}\"\n" % ex))
    for s in lexs:
        cases.append(("lexical", s))
    # grammar-directed stream: well-formed programs with deliberate semantic oddities (checks/c11_sem.py)
    n_sem = 0
    for (g, label, src) in c11_sem.stream(rng, quick):
        cases.append((g, src))
        n_sem += 1
    chk.coverage["grammar_directed_cases"] = n_sem
    for d in sorted(set([1, 2, 3, 10, 50, DEPTH])):
        for k, s in nesting(d).items():
            cases.append(("nest-%s@%d" % (k, d), s))
    out = run_robust(binary, [c[1] for c in cases])
    if len(out) != len(cases):
        raise vlib.Infra("c11 robust: %d lines for %d cases" % (len(out), len(cases)))
    vlib.log("[c11] robustness run %d cases in %.1fs" % (len(cases), _t.time() - t0))
    known_seen = {}
    rechecks = 0
    for (group, s), line in zip(cases, out):
        g = group.split("@")[0] if group.startswith("nest-") else group
        if line.startswith("R "):
            head, _, viol = line[2:].partition(" | ")
            st = dict(x.split("=", 1) for x in head.split() if "=" in x)
            key = "%s: lex=%s parse=%s check=%s gen=%s" % (g if not g.startswith("nest-") else "nest", st.get("lex", "?").split(":")[0],
                                                          st.get("parse", "?").split(":")[0], st.get("check", "?").split(":")[0], st.get("gen", "?"))
            dist[key] = dist.get(key, 0) + 1
            chk.count_case((group, s), nontrivial=(st.get("parse") == "ok"))
            for v in [x for x in viol.split(" ;; ") if x.strip()]:
                fid = classify(s, v, chk.findings)
                if fid:
                    known_seen.setdefault(fid, (s, v))
                    continue
                fails.append({"group": group, "source": s if len(s) < 3000 else s[:3000] + "...", "stages": head, "violation": v})
        else:
            chk.count_case((group, s), nontrivial=False)
            fid = classify(s, line, chk.findings)
            if fid:
                known_seen.setdefault(fid, (s, line))
                continue
            if line == "HANG" and rechecks < 3:
                # a busy machine must not produce a false alarm: the case alone, with six times the limit
                # (at most three such re-runs per run: more hangs than that are not load)
                rechecks += 1
                again = run_robust(binary, [s], limit=120)[0]
                if again.startswith("R ") and not again.partition(" | ")[2].strip():
                    chk.notes.append("a case exceeded 20 s in the batch but finished alone within 120 s (machine load): %r" % s[:80])
                    continue
                line = "HANG (twice: 20 s in the batch, 120 s alone) " + again[:200]
            fails.append({"group": group, "source": s if len(s) < 3000 else s[:3000] + "...", "stages": "", "violation": line[:400]})
    chk.coverage["robust_cases"] = len(cases)
    chk.coverage["nesting_depth"] = DEPTH
    chk.coverage["distribution"] = dist
    chk.coverage["rule"] = ("corpus (%d files) as is; 1-3 random mutations of a corpus file (insert/delete/replace from a pool of brackets, quotes, "
                            "blanks, non-ASCII; truncate; delete/duplicate/swap/re-indent a line); random UTF-8 of 1..200 pieces; EVERY truncation of "
                            "small files; unterminated literals / unbalanced brackets bare and inside a function; nesting of every recursive "
                            "construct at depths 1,2,3,10,50,%d; grammar-directed stream of well-formed programs with semantic oddities (checks/c11_sem.py: "
                            "built-in generic types at every arity x declaration positions x ~190 ways of using a value incl. every constructor pattern at "
                            "right/wrong arity, value pairs x operators, calls/constructors/methods with wrong arity and kwargs, control flow in odd places, "
                            "decorators, imports, duplicates, recursive declarations, inputs aimed at each audited panic-site group); "
                            "non-trivial = accepted by the real parser" % (len(corpus), DEPTH))
    for c in cases[200:203] + cases[-3:]:
        chk.sample({"group": c[0], "source": c[1][:160]})

    # ---- 3. known findings: re-run each witness
    for f in chk.findings:
        if f.get("status") != "known":
            continue
        w = f["witness"]
        line = run_robust(binary, [w["source"]])[0]
        _, _, viol = line.partition(" | ")
        if not line.startswith("R "):
            viol = line
        hit = [v for v in viol.split(" ;; ") if v.strip() and classify(w["source"], v, [f]) == f["id"]]
        if hit:
            chk.known(f["id"], "%s: %s" % (f["id"], f["summary"]))

    # ---- decide
    # at most three cases per kind of failure, so that one noisy class does not hide another in the replay file
    per_kind = {}
    shown = []
    for f in fails:
        k = (f["group"].split("@")[0], f["violation"].split('"')[0][:40])
        per_kind[k] = per_kind.get(k, 0) + 1
        if per_kind[k] <= 3:
            shown.append(f)
    for f in shown[:40]:
        chk.violation("failing-input", f)
    if not fails:
        if corr_bad:
            chk.violation("correspondence-broken", {"theorem_or_tie": "Lex/Chars.v vs lexer::lex", "cases": corr_bad[:10]}, no_input=True)
        if not res["proofs_ok"] or not res["tie_ok"]:
            chk.violation("proof-broken", {"theorem_or_tie": res["broken"]}, no_input=True)


def replay(path):
    data = json.load(open(path))
    binary = vlib.build_harness("debug")
    for v in data["violations"]:
        d = v["detail"]
        if "source" in d and "violation" in d:
            print("case (%s): %r" % (d.get("group"), d["source"][:500]))
            print("  recorded :", d["violation"])
            print("  now      :", run_robust(binary, [d["source"]])[0])
            print("  lexer    :", c10.real_lex(binary, [d["source"]])[0] if len(d["source"]) < 2000 else "(long)")
        elif "cases" in d:
            for c in d["cases"]:
                r = c10.real_lex(binary, [c["source"]])[0]
                m = vlib.coq_eval(c10.REQ, "list N", c10.RUN, [c10.coq_src(c["source"])], tag="c11replay")[0]
                print(json.dumps(c), "\n real:", r, "\n model:", m, "\n ->", c10.compare_model(c["source"], r, m))
        else:
            print(json.dumps(d, indent=1)[:4000])
    return 0
