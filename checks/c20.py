"""C20 — derived JSON, equality, ordering, hashing and clone are structural and round-trip.

proof:   coq/C20/Props.v over the value model of coq/C20/Model.v (JSON printer/reader on code-point
         lists, derived Serialize/Deserialize/PartialEq/Ord/Hash/Clone, decorator -> derive mapping).
tie:     (a) the decorator -> `#[derive(..)]` table is REGENERATED from the real lowering+emitter on
         every run for all 2^13 decorator subsets x {model, class} (coq/C20/GenTable.v) and the
         closure theorem is re-proved on it; (b) one generated Incan program per batch (declarations
         x values) is compiled by the real compiler pipeline (vharness c20 gen = prepare_project's
         library calls, then `cargo build --release --offline` in the shared target dir), run, and
         every printed line is compared with the model evaluated inside coqc (vm_compute).
oracle:  the same lines judged against the property directly with Python's own semantics
         (json.dumps/json.loads, ==, tuple ordering, set sizes), independent of the Coq model.
Route taken: compiling generated Incan programs offline works (about 1 s incremental per batch once
the dependencies are built), so the serde_json-mirror fallback is not used."""
import hashlib
import json
import os
import re
import shutil
import subprocess
import time

import vlib

I64_MIN, I64_MAX = -2**63, 2**63 - 1
DECORATORS = ["Debug", "Display", "Eq", "PartialEq", "Ord", "PartialOrd", "Hash", "Clone", "Copy", "Default",
              "Serialize", "Deserialize", "Validate"]
DCODE = {n: i for i, n in enumerate(DECORATORS + ["FieldInfo", "IncanClass"])}
GEN_TARGET = os.path.join(vlib.BUILD, "gen-target")


# ===================================================================== derive table (tie a)

def powerset(l):
    """same enumeration order as Model.powerset"""
    if not l:
        return [[]]
    rest = powerset(l[1:])
    return [[l[0]] + r for r in rest] + rest


def py_closed(e):
    s = set(e)
    why = []
    if "Eq" in s and "PartialEq" not in s:
        why.append("Eq needs PartialEq")
    if "PartialOrd" in s and "PartialEq" not in s:
        why.append("PartialOrd needs PartialEq")
    if "Ord" in s and not ("Eq" in s and "PartialOrd" in s):
        why.append("Ord needs Eq and PartialOrd")
    if "Copy" in s and "Clone" not in s:
        why.append("Copy needs Clone")
    return why


def py_emitted(flat):
    d = list(flat)
    if "Eq" in d and "PartialEq" not in d:
        d.append("PartialEq")
    if "Ord" in d:
        for x in ("PartialOrd", "Eq", "PartialEq"):
            if x not in d:
                d.append(x)
    if "PartialOrd" in d and "PartialEq" not in d:
        d.append("PartialEq")
    for x in ("Debug", "Clone", "FieldInfo", "IncanClass"):
        if x not in d:
            d.append(x)
    return [x for x in d if x != "Validate"]


SERDE_PROBES = [
    ("control_no_json", "def main() -> None:\n    println(1)\n", False),
    ("call_stmt", "def main() -> None:\n    println(json_stringify(1))\n", True),
    ("assignment", "def main() -> None:\n    s = json_stringify([1, 2])\n    println(s)\n", True),
    ("return", "def f() -> str:\n    return json_stringify(true)\n\ndef main() -> None:\n    println(f())\n", True),
    ("if_body", "def main() -> None:\n    if true:\n        println(json_stringify(1))\n", True),
    ("elif_body", "def main() -> None:\n    x = 2\n    if x == 1:\n        println(1)\n    elif x == 2:\n        println(json_stringify(2))\n", True),
    ("else_body", "def main() -> None:\n    x = 2\n    if x == 1:\n        println(1)\n    else:\n        println(json_stringify(2))\n", True),
    ("while_body", "def main() -> None:\n    mut i = 0\n    while i < 1:\n        println(json_stringify(i))\n        i = i + 1\n", True),
    ("for_body", "def main() -> None:\n    for i in range(2):\n        println(json_stringify(i))\n", True),
    ("nested_call_arg", "def sh(x: str) -> str:\n    return x\n\ndef main() -> None:\n    println(sh(json_stringify(3)))\n", True),
    ("model_method", "model M:\n    x: int\n\n    def js(self) -> str:\n        return json_stringify(self.x)\n\ndef main() -> None:\n    println(M(x=1).js())\n", True),
    ("class_method", "class K:\n    x: int\n\n    def js(self) -> str:\n        return json_stringify(self.x)\n\ndef main() -> None:\n    println(K(x=1).js())\n", True),
    ("derive_only_model", "@derive(Serialize)\nmodel M:\n    x: int\n\ndef main() -> None:\n    pass\n", True),
    ("derive_only_class_deserialize", "@derive(Deserialize)\nclass K:\n    x: int\n\ndef main() -> None:\n    pass\n", True),
    ("derive_second_decorator", "@derive(Eq)\n@derive(Hash, Serialize)\nmodel M:\n    x: int\n\ndef main() -> None:\n    pass\n", True),
    ("derive_other_only", "@derive(Eq, Hash)\nmodel M:\n    x: int\n\ndef main() -> None:\n    pass\n", False),
]


def known_partialord(req):
    s = set(req)
    return "PartialOrd" in s and not (s & {"PartialEq", "Eq", "Ord"})


def run_table(binary, kinds=("model", "class")):
    """the table is a pure function of the vharness binary (which links the current /repo), so it is cached by the
    binary's hash; any edit of /repo or of the harness changes the binary and re-extracts"""
    h = hashlib.sha1(open(binary, "rb").read()).hexdigest()[:16]
    cache = os.path.join(vlib.BUILD, "c20-table-%s.json" % h)
    if os.path.exists(cache):
        try:
            c = json.load(open(cache))
            return c["subsets"], c["table"], {k: [tuple(x) if x else None for x in v] for k, v in c["jm"].items()}
        except Exception:
            pass
    r = run_table_uncached(binary, kinds)
    for f in os.listdir(vlib.BUILD):
        if f.startswith("c20-table-") and f.endswith(".json"):
            try:
                os.remove(os.path.join(vlib.BUILD, f))
            except OSError:
                pass
    tmp = cache + ".%d" % os.getpid()
    json.dump({"subsets": r[0], "table": r[1], "jm": r[2]}, open(tmp, "w"))
    os.replace(tmp, cache)
    return r


def run_table_uncached(binary, kinds=("model", "class")):
    subsets = powerset(DECORATORS)
    lines = ["%s %s" % (k, ",".join(d) if d else "-") for k in kinds for d in subsets]
    n = 16
    chunks = [lines[i::n] for i in range(n)]
    procs = [subprocess.Popen([binary, "run", "c20", "table"], stdin=subprocess.PIPE, stdout=subprocess.PIPE,
                              stderr=subprocess.PIPE, text=True) for _ in chunks]
    outs = []
    for p, c in zip(procs, chunks):
        p.stdin.write("\n".join(c) + "\n")
        p.stdin.close()
    for p, c in zip(procs, chunks):
        o = p.stdout.read().split("\n")
        p.wait()
        o = [x for x in o if x != ""]
        if p.returncode != 0 or len(o) != len(c):
            raise vlib.Infra("vharness c20 table failed: rc=%s, %d lines for %d cases: %s" % (p.returncode, len(o), len(c), p.stderr.read()[-500:]))
        outs.append(o)
    res = [None] * len(lines)
    for i, o in enumerate(outs):
        res[i::n] = o
    table, jm = {}, {}
    for ki, k in enumerate(kinds):
        rows = res[ki * len(subsets):(ki + 1) * len(subsets)]
        table[k] = [r if r.startswith("ERR") else r.split("|")[0] for r in rows]
        jm[k] = [None if r.startswith("ERR") else tuple(r.split("|")[1:3]) for r in rows]
    return subsets, table, jm


def write_gen_table(table, jm):
    def row(r):
        if r.startswith("ERR"):
            return "(-1)"
        names = [x for x in r.split(",") if x]
        if any(x not in DCODE for x in names) or len(names) > 15:
            return "(-2)"
        return str(sum((DCODE[x] + 1) << (4 * i) for i, x in enumerate(names)))
    text = ["(* GENERATED on every run by checks/c20.py: the names of the #[derive(..)] attribute that the REAL",
            "   lexer+parser+checker+lower_model/lower_class+emit_struct produce for `@derive(D) model|class M`,",
            "   one row per decorator subset D in the order of Model.powerset Model.decorators. A row is the",
            "   base-16 number whose digits (least significant first) are Model.dcode + 1 of the emitted names in",
            "   order; -1 = the pipeline reported an error, -2 = a name outside the vocabulary was emitted. *)",
            "From Coq Require Import ZArith List.", "Import ListNotations.", "Open Scope Z_scope.", ""]
    for k in ("model", "class"):
        rows = [row(r) for r in table[k]]
        names = []                      # chunked into separate definitions: long list literals elaborate slowly
        for i in range(0, len(rows), 64):
            names.append("rows_%s_%d" % (k, i // 64))
            text.append("Definition %s : list Z := [%s]." % (names[-1], "; ".join(rows[i:i + 64])))
        text.append("Definition gen_rows_%s : list Z := concat [%s].\n" % (k, "; ".join(names)))
    for k in ("model", "class"):
        codes = ["(-1)" if x is None else str(int(x[0]) + 2 * int(x[1])) for x in jm[k]]
        names = []
        for i in range(0, len(codes), 256):
            names.append("jm_%s_%d" % (k, i // 256))
            text.append("Definition %s : list Z := [%s]." % (names[-1], "; ".join(codes[i:i + 256])))
        text.append("(* per row: 1 if an inherent to_json is emitted + 2 if an inherent from_json is emitted *)")
        text.append("Definition gen_jm_%s : list Z := concat [%s].\n" % (k, "; ".join(names)))
    body = "\n".join(text)
    path = os.path.join(vlib.COQ, "C20", "GenTable.v")
    old = open(path).read() if os.path.exists(path) else None
    if old != body:
        with open(path, "w") as f:
            f.write(body)
    return hashlib.sha1(body.encode()).hexdigest()[:12], old is not None and old != body


# ===================================================================== declarations and values

STR_POOL = ["", "a", "b", "ab", "é", "😀", "\"", "\\", "/", "\n", "\t\r", "\x01\x08\x0c\x1f", "\x7f\x80", "\u2028\u2029", "\ufeff",
            "\uffff", "\U00010000", "\U0010ffff", "\ud7ff\ue000", "日本語", "a\"b\\c/d", "null", "{}", "[1]", " ", "\\u0041", "a\x00b",
            "Zürich", "x y", "0", "-1", "true"]
INT_POOL = [0, 1, -1, 2, 7, -7, 10, 42, 255, -256, 2**31 - 1, -2**31, 2**31, 2**32, 2**53, 2**53 + 1, -2**53 - 1, 10**18, -10**18,
            I64_MAX, I64_MAX - 1, I64_MIN, I64_MIN + 1]
KEY_POOL = ["a", "b", "k", "", "é", "key \"q\"", "😀", "z\\", "A", "0", "x\ty", "\u2028"]
FIELD_NAMES = ["a", "b", "c", "x", "y", "n", "id", "name", "flag", "xs", "tags", "inner", "opt", "value", "count", "zeta", "alpha", "Mid", "k9", "_u", "data",
               "left", "right", "note", "w_1",
               "loop", "ref", "mod", "ab", "a_b", "aB", "x1", "x10", "x2", "Z", "zz", "use", "dyn", "idx_0"]


class Decl:
    def __init__(self, name, kind, derives, fields, caps):
        self.name, self.kind, self.derives, self.fields, self.caps = name, kind, derives, fields, caps
        self.values = []
        self.special = False
        self.with_method = False      # method-less classes get their to_json/from_json like models (repaired finding)
        self.chain = None             # class hierarchy: [(class name, own fields, has_method)] root first, the last is this class
        self.pub = False              # `pub model`
        self.pub_fields = set()       # fields declared `pub`
        self.defaults = {}            # field name -> default value (constructor calls omit a field that has its default value)
        self.noftext = False          # no hand-made from_json texts (very large values)
        self.explicit = set()         # indices of values whose constructor call passes every field, defaulted or not

    def src(self):
        s = ""
        own = self.fields
        ext = ""
        if self.chain:
            # ancestors are plain classes; `self.fields` is the documented order: root first, own fields last
            for i, (cn, cf, meth) in enumerate(self.chain[:-1]):
                s += "class %s%s:\n" % (cn, " extends %s" % self.chain[i - 1][0] if i else "")
                for f, t in cf:
                    s += "    %s: %s\n" % (f, ity(t))
                if meth or not cf:
                    s += "\n    def nm_%s(self) -> int:\n        return %d\n" % (cn, i)
                s += "\n"
            own = self.chain[-1][1]
            ext = " extends %s" % self.chain[-2][0] if len(self.chain) > 1 else ""
        if self.derives:
            s += "@derive(%s)\n" % ", ".join(self.derives)
        s += "%s%s %s%s:\n" % ("pub " if self.pub else "", self.kind, self.name, ext)
        for f, t in own:
            dflt = ""
            if f in self.defaults:
                dv = self.defaults[f]
                dflt = " = " + dexpr(t, dv)
            s += "    %s%s: %s%s\n" % ("pub " if f in self.pub_fields else "", f, ity(t), dflt)
        if self.with_method or not own:
            s += "\n    def nm(self) -> int:\n        return %d\n" % len(self.fields)
        return s

    def gtable(self):
        """the class table of this hierarchy as a Gallina term (classes numbered 1.. root first)"""
        rows = []
        for i, (cn, cf, _) in enumerate(self.chain):
            parent = "(Some %d)" % i if i else "None"
            rows.append("(pair %d (pair %s %s))" % (i + 1, parent, glist(["(pair %s %s)" % (gstr(f), gty(t)) for f, t in cf])))
        return glist(rows), len(self.chain)


def dexpr(t, dv):
    """a declared default: literals only (no helper calls in a field declaration)"""
    k = t[0]
    if k == "str":
        return istr(dv)
    if k == "bool":
        return "true" if dv else "false"
    if k == "int":
        return str(dv)
    if k == "opt":
        return "None" if dv is None else "Some(%s)" % dexpr(t[1], dv[1])
    if k == "list":
        return "[" + ", ".join(dexpr(t[1], x) for x in dv) + "]"
    if k == "dict":
        return "{}"                       # non-empty Dict[str,_] literals do not build (emitted with &str keys); not generated
    return "%s(%s)" % (t[1].name, ", ".join("%s=%s" % (f, dexpr(ft, x[1])) for (f, ft), x in zip(t[1].fields, dv[2])))


def ity(t):
    k = t[0]
    if k in ("int", "bool", "str", "float"):
        return k
    if k == "list":
        return "List[%s]" % ity(t[1])
    if k == "dict":
        return "Dict[str, %s]" % ity(t[1])
    if k == "opt":
        return "Option[%s]" % ity(t[1])
    return t[1].name


def type_ok(t, caps):
    """can a field of type t live in a declaration deriving caps?"""
    k = t[0]
    if k in ("int", "bool", "str"):
        return True
    if k == "float":
        return not (caps & {"Eq", "Ord", "Hash"})
    if k == "dict":
        return not (caps & {"Ord", "PartialOrd", "Hash"}) and type_ok(t[1], caps)
    if k in ("list", "opt"):
        return type_ok(t[1], caps)
    d = t[1]
    need = set(caps)
    return need <= d.caps


def has_nested_opt(t):
    k = t[0]
    if k == "opt":
        return t[1][0] == "opt" or has_nested_opt(t[1])
    if k in ("list", "dict"):
        return has_nested_opt(t[1])
    if k == "struct":
        return any(has_nested_opt(ft) for _, ft in t[1].fields)
    return False


def has_float(t):
    k = t[0]
    if k == "float":
        return True
    if k in ("list", "dict", "opt"):
        return has_float(t[1])
    if k == "struct":
        return any(has_float(ft) for _, ft in t[1].fields)
    return False


def gen_type(rng, caps, decls, depth, allow_dict=True):
    opts = ["int"] * 3 + ["bool"] + ["str"] * 3
    if depth > 0:
        opts += ["list"] * 2 + ["opt"] * 2
        if allow_dict and not (caps & {"Ord", "PartialOrd", "Hash"}):
            opts += ["dict"] * 2
        cands = [d for d in decls if set(caps) <= d.caps and not d.special]
        if cands:
            opts += ["struct"] * 3
    k = rng.choice(opts)
    if k in ("int", "bool", "str"):
        return (k,)
    if k == "list":
        return ("list", gen_type(rng, caps, decls, depth - 1, allow_dict))
    if k == "dict":
        return ("dict", gen_type(rng, caps, decls, depth - 1, allow_dict))
    if k == "opt":
        inner = gen_type(rng, caps, decls, depth - 1, allow_dict)
        while inner[0] == "opt":
            inner = gen_type(rng, caps, decls, depth - 1, allow_dict)
        return ("opt", inner)
    return ("struct", rng.choice(cands))


def gen_str(rng):
    r = rng.random()
    if r < 0.6:
        return rng.choice(STR_POOL)
    if r < 0.8:
        return rng.choice(STR_POOL) + rng.choice(STR_POOL)
    n = rng.randint(1, 6)
    out = []
    for _ in range(n):
        q = rng.random()
        if q < 0.4:
            out.append(chr(rng.randint(32, 126)))
        elif q < 0.55:
            out.append(chr(rng.randint(0, 31)))
        elif q < 0.75:
            out.append(chr(rng.randint(0x80, 0xd7ff)))
        elif q < 0.85:
            out.append(chr(rng.randint(0xe000, 0xffff)))
        else:
            out.append(chr(rng.randint(0x10000, 0x10ffff)))
    return "".join(out)


def gen_int(rng):
    r = rng.random()
    if r < 0.5:
        return rng.choice(INT_POOL)
    if r < 0.75:
        return rng.randint(-100, 100)
    return rng.randint(I64_MIN, I64_MAX)


def gen_value(rng, t, depth=3):
    k = t[0]
    if k == "int":
        return gen_int(rng)
    if k == "bool":
        return rng.random() < 0.5
    if k == "str":
        return gen_str(rng)
    if k == "float":
        return rng.choice([0.0, 0.1, 1.5, -2.25, 123456789.125, 0.30000000000000004, 0.001, -0.5, 2.0**53])
    if k == "list":
        n = rng.choice([0, 0, 1, 1, 2, 3]) if depth > 0 else 0
        return [gen_value(rng, t[1], depth - 1) for _ in range(n)]
    if k == "dict":
        n = rng.choice([0, 1, 2, 3]) if depth > 0 else 0
        keys = []
        for _ in range(n):
            kk = rng.choice(KEY_POOL) if rng.random() < 0.8 else gen_str(rng)
            if kk not in keys:
                keys.append(kk)
        return {"__dict__": [(kk, gen_value(rng, t[1], depth - 1)) for kk in keys]}
    if k == "opt":
        if rng.random() < 0.4:
            return None
        return ("some", gen_value(rng, t[1], depth))
    d = t[1]
    return ("S", d.name, [(f, d.defaults[f] if (f in d.defaults and rng.random() < 0.5) else gen_value(rng, ft, depth - 1)) for f, ft in d.fields])


def mutate_field(rng, d, v, idx):
    """v with field idx replaced by a different value (tries a few times)"""
    f, ft = d.fields[idx]
    fs = list(v[2])
    for _ in range(20):
        nv = gen_value(rng, ft)
        if pyeq(ft, nv, fs[idx][1]) is False:
            fs[idx] = (f, nv)
            break
    return ("S", d.name, fs)


CAP_SETS = [
    (["Serialize", "Deserialize", "Eq", "Ord", "Hash"], 4),
    (["Serialize", "Deserialize", "PartialEq"], 3),
    (["Serialize", "Deserialize", "Eq"], 2),
    (["Debug", "Clone", "Serialize", "Deserialize", "PartialEq", "PartialOrd"], 2),
    (["Serialize", "Deserialize", "Eq", "Hash"], 2),
    (["Ord", "Serialize", "Deserialize"], 2),
    (["Hash", "Eq", "Deserialize", "Serialize", "Default"], 1),
    (["Serialize", "Eq"], 1),
    (["Eq", "Ord", "Hash"], 1),
    (["PartialOrd", "Serialize", "Deserialize"], 1),
]


def caps_of(derives):
    """what Rust traits the emitted struct ends up with (the model's `emitted`), as capability names"""
    s = set(derives)
    if "Eq" in s:
        s.add("PartialEq")
    if "Ord" in s:
        s |= {"PartialOrd", "Eq", "PartialEq"}
    if "PartialOrd" in s:
        s.add("PartialEq")
    s |= {"Debug", "Clone"}
    return s


def gen_decls(rng, n, tag):
    decls = []
    names = rng.sample(FIELD_NAMES, len(FIELD_NAMES))
    weights = [w for _, w in CAP_SETS]
    for i in range(n):
        derives = list(rng.choices([c for c, _ in CAP_SETS], weights)[0])
        if i == 0:
            derives = ["Serialize", "Deserialize", "Eq", "Ord", "Hash"]      # a leaf usable everywhere
        if rng.random() < 0.3:
            rng.shuffle(derives)
        caps = caps_of(derives)
        kind = "model" if rng.random() < 0.65 else "class"
        nf = rng.choice([1, 2, 2, 3, 3, 4, 5])
        fnames = rng.sample(names, nf)
        d = Decl("%s%d" % (tag, i), kind, derives, [], caps)
        d.special = False
        d.with_method = rng.random() < 0.5 if kind == "class" else rng.random() < 0.3
        d.pub = rng.random() < 0.3
        depth = 0 if i == 0 else rng.choice([1, 2, 2, 3])
        for fn in fnames:
            d.fields.append((fn, gen_type(rng, caps, decls, depth)))
            if rng.random() < 0.25:
                d.pub_fields.add(fn)
        if i % 3 == 2:                  # field defaults (anywhere in the field list)
            for fn, ft in d.fields:
                if (ft[0] in ("int", "bool", "str", "list", "opt", "dict")) and rng.random() < 0.6:
                    d.defaults[fn] = {"int": rng.choice([0, 7, -1]), "bool": rng.random() < 0.5, "str": rng.choice(["", "x", "d\"q"]), "list": [],
                                      "opt": None, "dict": {"__dict__": []}}[ft[0]]
            d.explicit = {1}              # value 1 (the equal copy of value 0) is built with every field passed explicitly
        decls.append(d)
    return decls


ORD_SETS = [["Serialize", "Deserialize", "Eq", "Ord", "Hash"], ["Ord", "Serialize", "Deserialize"],
            ["Debug", "Clone", "Serialize", "Deserialize", "PartialEq", "PartialOrd"], ["PartialOrd", "Serialize", "Deserialize"],
            ["Eq", "Ord", "Hash"], ["Serialize", "Deserialize", "Eq"]]


def gen_hierarchy(rng, name, depth, decls, names_pool, light=False):
    """a class with `depth` levels (depth - 1 ancestors); every level declares 0-3 fields (at least two levels declare some);
    derives sit on the leaf. d.fields is the documented declaration order (root first)."""
    derives = list(rng.choice(ORD_SETS[:5] if rng.random() < 0.85 else ORD_SETS))
    caps = caps_of(derives)
    d = Decl(name, "class", derives, [], caps)
    d.special = True
    d.with_method = rng.random() < 0.5
    counts = [rng.choice([1, 1, 2, 3]) for _ in range(depth)]
    if depth >= 3 and rng.random() < 0.3:
        counts[rng.randrange(1, depth - 1)] = 0          # a level that only adds a method
    total = sum(counts)
    fnames = rng.sample(names_pool, total)
    chain, k = [], 0
    for lvl in range(depth):
        cf = []
        for _ in range(counts[lvl]):
            t = gen_type(rng, caps, decls, 0 if (light or rng.random() < 0.6) else 1, allow_dict=False)
            cf.append((fnames[k], t))
            k += 1
        cn = name if lvl == depth - 1 else "%sA%d" % (name, lvl)
        chain.append((cn, cf, rng.random() < 0.4))
    d.chain = chain
    d.fields = [f for _, cf, _ in chain for f in cf]
    return d


def hierarchy_values(rng, d):
    """base value, an equal copy, and for every declared field one value that differs from the base in exactly that
    field: for two such values the FIRST differing declared field (ancestors first) must decide the comparison"""
    t = ("struct", d)
    v0 = gen_value(rng, t)
    vals = [v0, json_copy(v0)]
    for i in range(len(d.fields)):
        vals.append(mutate_field(rng, d, v0, i))
    return vals


def special_decls(tag):
    """fixed declarations: the nested-option witness and a float declaration (execution only)"""
    oo = Decl(tag + "OptOpt", "model", ["Serialize", "Deserialize", "PartialEq"],
              [("o", ("opt", ("opt", ("int",)))), ("n", ("int",))], caps_of(["Serialize", "Deserialize", "PartialEq"]))
    oo.special = True
    oo.values = [("S", oo.name, [("o", ("some", None)), ("n", 1)]),
                 ("S", oo.name, [("o", None), ("n", 1)]),
                 ("S", oo.name, [("o", ("some", ("some", 5))), ("n", 2)]),
                 ("S", oo.name, [("o", ("some", ("some", 0))), ("n", -2)])]
    ff = Decl(tag + "Flt", "model", ["Serialize", "Deserialize", "PartialEq"],
              [("f", ("float",)), ("fs", ("list", ("float",))), ("of", ("opt", ("float",)))], caps_of(["Serialize", "Deserialize", "PartialEq"]))
    ff.special = True
    ff.values = [("S", ff.name, [("f", 0.1), ("fs", [1.5, -2.25]), ("of", None)]),
                 ("S", ff.name, [("f", 123456789.125), ("fs", []), ("of", ("some", 0.30000000000000004))]),
                 ("S", ff.name, [("f", 0.0), ("fs", [9007199254740992.0, 0.001]), ("of", ("some", -0.5))])]
    # regression witnesses of the repaired findings: PartialOrd alone; a method-less class with serde derives
    po = Decl(tag + "PoOnly", "model", ["PartialOrd"], [("a", ("int",)), ("s", ("str",))], caps_of(["PartialOrd"]))
    po.special = True
    po.values = [("S", po.name, [("a", 1), ("s", "b")]), ("S", po.name, [("a", 1), ("s", "a")]),
                 ("S", po.name, [("a", -1), ("s", "z")]), ("S", po.name, [("a", 1), ("s", "b")])]
    cj = Decl(tag + "ClsJson", "class", ["Serialize", "Deserialize", "PartialEq"], [("x", ("int",)), ("t", ("opt", ("str",)))],
              caps_of(["Serialize", "Deserialize", "PartialEq"]))
    cj.special = True
    cj.values = [("S", cj.name, [("x", 1), ("t", None)]), ("S", cj.name, [("x", -5), ("t", ("some", "é\""))])]
    # a default on every field type, empty and non-empty; values at the default (field omitted / passed explicitly) and away
    icaps = caps_of(["Serialize", "Deserialize", "Eq", "Ord", "Hash"])
    din = Decl(tag + "DfIn", "model", ["Serialize", "Deserialize", "Eq", "Ord", "Hash"], [("a", ("int",)), ("s", ("str",))], icaps)
    din.special = True
    din.defaults = {"a": 3}
    din.values = [("S", din.name, [("a", 3), ("s", "z")]), ("S", din.name, [("a", 3), ("s", "z")]), ("S", din.name, [("a", -1), ("s", "")])]
    din.explicit = {1}
    dcaps = caps_of(["Serialize", "Deserialize", "PartialEq"])
    sin = ("struct", din)
    inner_d = ("S", din.name, [("a", 1), ("s", "q")])
    dfl = Decl(tag + "Dflt", "model", ["Serialize", "Deserialize", "PartialEq"],
               [("name", ("str",)), ("o", ("opt", ("int",))), ("os", ("opt", ("str",))), ("xs", ("list", ("int",))), ("ys", ("list", ("int",))),
                ("d", ("dict", ("int",))), ("inner", sin), ("oi", ("opt", sin)), ("ol", ("opt", ("list", ("int",)))), ("n", ("int",)), ("b", ("bool",))], dcaps)
    dfl.special = True
    dfl.defaults = {"o": None, "os": ("some", "x"), "xs": [], "ys": [1, 2], "d": {"__dict__": []}, "inner": inner_d, "oi": None,
                    "ol": ("some", []), "n": 7, "b": True}
    at = [("name", "n"), ("o", None), ("os", ("some", "x")), ("xs", []), ("ys", [1, 2]), ("d", {"__dict__": []}), ("inner", inner_d),
          ("oi", None), ("ol", ("some", [])), ("n", 7), ("b", True)]
    away = [("name", "m"), ("o", ("some", 2)), ("os", None), ("xs", [1]), ("ys", []), ("d", {"__dict__": [("k", 1)]}),
            ("inner", ("S", din.name, [("a", 3), ("s", "")])), ("oi", ("some", inner_d)), ("ol", None), ("n", 0), ("b", False)]
    mixed = [at[0], away[1], at[2], at[3], away[4], at[5], away[6], at[7], at[8], away[9], at[10]]
    dfl.values = [("S", dfl.name, list(at)), ("S", dfl.name, list(at)), ("S", dfl.name, away), ("S", dfl.name, mixed)]
    dfl.explicit = {1, 3}
    dcl = Decl(tag + "DfCls", "class", ["Serialize", "Deserialize", "Eq"],
               [("tags", ("list", ("str",))), ("nick", ("opt", ("str",))), ("m", ("dict", ("list", ("int",))))], caps_of(["Serialize", "Deserialize", "Eq"]))
    dcl.special = True
    dcl.defaults = {"tags": [], "nick": None, "m": {"__dict__": []}}
    dcl.values = [("S", dcl.name, [("tags", []), ("nick", None), ("m", {"__dict__": []})]),
                  ("S", dcl.name, [("tags", []), ("nick", None), ("m", {"__dict__": []})]),
                  ("S", dcl.name, [("tags", ["a"]), ("nick", ("some", "")), ("m", {"__dict__": [("", [])]})])]
    dcl.explicit = {1}
    # non-zero declared defaults under derive sets with and without Default / Serialize / Eq / Ord: an omitted field must get
    # its DECLARED default ("dark", 14, true, Some(3), [1, 2]), not the type's zero value
    dd = []
    base_fields = [("name", ("str",)), ("theme", ("str",)), ("size", ("int",)), ("on", ("bool",)), ("o", ("opt", ("int",))),
                   ("xs", ("list", ("int",))), ("os", ("opt", ("str",)))]
    dflt = {"theme": "dark", "size": 14, "on": True, "o": ("some", 3), "xs": [1, 2], "os": ("some", "é\"")}
    awayv = {"name": "m", "theme": "", "size": 0, "on": False, "o": None, "xs": [], "os": None}
    for i, (kind, derives) in enumerate([("model", ["Default", "Serialize", "Deserialize", "Eq", "Ord", "Hash"]),
                                         ("model", ["Default", "PartialEq"]),
                                         ("model", ["Serialize", "Deserialize", "Eq", "Ord"]),
                                         ("class", ["Serialize", "Default", "PartialEq", "PartialOrd"]),
                                         ("class", ["Default", "Deserialize", "Serialize", "Eq"])]):
        x = Decl("%sDfD%d" % (tag, i), kind, derives, list(base_fields), caps_of(derives))
        x.special = True
        x.defaults = dict(dflt)
        atd = [(f, dflt.get(f, "n")) for f, _ in base_fields]
        x.values = [("S", x.name, list(atd)), ("S", x.name, list(atd)), ("S", x.name, [(f, awayv[f]) for f, _ in base_fields])]
        for k in range(1, len(base_fields)):         # exactly one defaulted field away from its default, all others omitted
            x.values.append(("S", x.name, [(f, awayv[f] if j == k else v) for j, (f, v) in enumerate(atd)]))
        x.explicit = {1}
        x.with_method = (i == 3)
        x.noftext = i > 0
        dd.append(x)
    return [oo, ff, po, cj, din, dfl, dcl] + dd


LADDER = [0, 1, 2, 16, 17, 63, 64, 65, 255, 256, 1000]


def scale_decls(rng, tag, quick):
    """sizes, depths and widths pushed past plausible bounds"""
    out = []
    caps = caps_of(["Serialize", "Deserialize", "PartialEq"])
    big = Decl(tag + "Big", "model", ["Serialize", "Deserialize", "PartialEq"],
               [("xs", ("list", ("int",))), ("d", ("dict", ("int",))), ("s", ("str",)), ("ll", ("list", ("list", ("str",))))], caps)
    big.special, big.noftext = True, True
    sizes = [(0, 0, 0), (1, 1, 1), (2, 2, 2), (16, 17, 16), (17, 16, 17), (63, 64, 65), (65, 63, 64), (255, 256, 255), (1000, 256, 1000)]
    if quick:
        sizes = [sizes[0], sizes[1], sizes[3], sizes[5], sizes[8]]
    for (a, b, c) in sizes:
        keys = ["k%d%s" % (i, rng.choice(["", "\"", "\\", "é", "\n", "😀"])) for i in range(b)]
        big.values.append(("S", big.name, [
            ("xs", [gen_int(rng) for _ in range(a)]),
            ("d", {"__dict__": [(kk, rng.randint(-5, 5)) for kk in keys]}),
            ("s", "".join(rng.choice(["a", "\"", "\\", "\n", "é", "\x01", "😀", "/"]) for _ in range(c))),
            ("ll", [[gen_str(rng) for _ in range(i % 3)] for i in range(min(a, 65))])]))
    out.append(big)
    # models nested 8 deep, each level also holding the previous one inside Option and List
    ocaps = caps_of(["Serialize", "Deserialize", "Eq", "Ord", "Hash"])
    prev = None
    chain = []
    for lvl in range(8):
        fs = [("v", ("int",))]
        if prev is not None:
            fs = [("inner", ("struct", prev)), ("v", ("int",)), ("o", ("opt", ("struct", prev))), ("l", ("list", ("struct", prev)))]
        dd = Decl("%sDeep%d" % (tag, lvl), "model", ["Serialize", "Deserialize", "Eq", "Ord", "Hash"], fs, ocaps)
        dd.special = True
        dd.noftext = lvl not in (0, 7)
        chain.append(dd)
        prev = dd
    for dd in chain:
        t = ("struct", dd)
        n = 3 if dd is chain[-1] else 2
        v0 = gen_deep(rng, t, 0)
        dd.values = [v0, json_copy(v0)] + [gen_deep(rng, t, k + 1) for k in range(n - 1)]
    out += chain
    nest = Decl(tag + "Nest", "model", ["Serialize", "Deserialize", "PartialEq"],
                [("l4", ("list", ("list", ("list", ("list", ("int",)))))), ("ol", ("opt", ("list", ("opt", ("list", ("opt", ("str",))))))),
                 ("dd", ("dict", ("dict", ("list", ("opt", ("int",))))))], caps)
    nest.special = True
    nest.values = [gen_value(rng, ("struct", nest), 6) for _ in range(4)]
    nest.values.append(("S", nest.name, [("l4", [[[[]]], [], [[], [[1, -1]]]]), ("ol", ("some", [None, ("some", [None, ("some", "")])])),
                                          ("dd", {"__dict__": [("", {"__dict__": []}), ("a\"", {"__dict__": [("\\", [None, ("some", 0)])]})]})]))
    out.append(nest)
    # 33 fields (more than any tuple/array impl limit of std)
    wf = []
    for i in range(33):
        wf.append(("f%02d" % i if i % 5 else "g%d" % i, [("int",), ("str",), ("bool",)][i % 3]))
    wide = Decl(tag + "Wide", "class", ["Serialize", "Deserialize", "Eq", "Ord", "Hash"], wf, ocaps)
    wide.special, wide.noftext = True, False
    v0 = gen_value(rng, ("struct", wide))
    wide.values = [v0, json_copy(v0)] + [mutate_field(rng, wide, v0, i) for i in (0, 16, 31, 32)]
    out.append(wide)
    return out


def gen_deep(rng, t, salt):
    """a value of a deeply nested model: one inner value per level (no fan-out explosion)"""
    d = t[1]
    fs = []
    for f, ft in d.fields:
        if ft[0] == "int":
            fs.append((f, rng.choice([0, 1, -1, salt])))
        elif ft[0] == "struct":
            fs.append((f, gen_deep(rng, ft, salt)))
        elif ft[0] == "opt":
            fs.append((f, None if rng.random() < 0.5 else ("some", gen_deep(rng, ft[1], salt))))
        else:
            fs.append((f, [gen_deep(rng, ft[1], salt)] if rng.random() < 0.4 else []))
    return ("S", d.name, fs)


# plain (non-model) values handed to json_stringify
def plain_values(rng):
    vals = [(("int",), 0), (("int",), I64_MIN), (("int",), I64_MAX), (("bool",), True), (("bool",), False),
            (("str",), ""), (("str",), "a\"b\\c\n\x00é😀\u2028"), (("opt", ("int",)), ("some", -3)),
            (("opt", ("list", ("str",))), ("some", ["", "x"])), (("list", ("list", ("int",))), [[1], [], [2, 3]]),
            (("list", ("opt", ("bool",))), [None, ("some", True)])]
    for n in LADDER:
        vals.append((("list", ("int",)), [rng.randint(-9, 9) for _ in range(n)]))
    for n in (0, 1, 2, 17, 64, 65):
        vals.append((("dict", ("int",)), {"__dict__": [("k%d%s" % (i, "\"" if i % 7 == 3 else ""), i) for i in range(n)]}))
    vals.append((("dict", ("list", ("str",))), {"__dict__": [("a", []), ("", ["\\"])]}))
    vals.append((("list", ("str",)), [chr(c) for c in (0, 8, 9, 10, 12, 13, 31, 32, 34, 92, 127, 128, 0xd7ff, 0xe000, 0xffff, 0x10000, 0x10ffff)]))
    return vals


# ---------------------------------------------------------------- Python semantics (the oracle)

def pyeq(t, a, b):
    k = t[0]
    if k in ("int", "bool", "str", "float"):
        return a == b
    if k == "list":
        return len(a) == len(b) and all(pyeq(t[1], x, y) for x, y in zip(a, b))
    if k == "dict":
        da, db = dict(a["__dict__"]), dict(b["__dict__"])
        return da.keys() == db.keys() and all(pyeq(t[1], da[q], db[q]) for q in da)
    if k == "opt":
        if a is None or b is None:
            return a is None and b is None
        return pyeq(t[1], a[1], b[1])
    return all(pyeq(ft, x[1], y[1]) for (f, ft), x, y in zip(t[1].fields, a[2], b[2]))


def pykey(t, v):
    """a Python value whose native ordering/hash is the structural one (lists/tuples lexicographic,
    str by code point, False < True, None < Some)"""
    k = t[0]
    if k in ("int", "str"):
        return v
    if k == "bool":
        return 1 if v else 0
    if k == "list":
        return tuple(pykey(t[1], x) for x in v)
    if k == "opt":
        return (0,) if v is None else (1, pykey(t[1], v[1]))
    if k == "dict":
        return tuple(sorted((q, pykey(t[1], x)) for q, x in v["__dict__"]))
    if k == "float":
        return v
    return tuple(pykey(ft, x[1]) for (f, ft), x in zip(t[1].fields, v[2]))


def pyjson(t, v):
    """the JSON document the documented type mapping prescribes, as Python data with ordered pairs"""
    k = t[0]
    if k in ("int", "bool", "str", "float"):
        return v
    if k == "list":
        return [pyjson(t[1], x) for x in v]
    if k == "dict":
        return Obj([(q, pyjson(t[1], x)) for q, x in v["__dict__"]])
    if k == "opt":
        return None if v is None else pyjson(t[1], v[1])
    return Obj([(f, pyjson(ft, x[1])) for (f, ft), x in zip(t[1].fields, v[2])])


class Obj(list):
    """ordered JSON object"""


def loads(text):
    return json.loads(text, object_pairs_hook=Obj)


def reorder(t, v, parsed):
    """v with every dict's entries permuted to the order observed in `parsed` (the implementation's
    HashMap iteration order is an oracle of the model)"""
    k = t[0]
    try:
        if k == "list" and isinstance(parsed, list) and len(parsed) == len(v):
            return [reorder(t[1], x, p) for x, p in zip(v, parsed)]
        if k == "opt" and v is not None and parsed is not None:
            return ("some", reorder(t[1], v[1], parsed))
        if k == "dict" and isinstance(parsed, Obj):
            d = dict(v["__dict__"])
            order = [q for q, _ in parsed]
            if sorted(order) == sorted(d.keys()):
                pm = dict(parsed)
                return {"__dict__": [(q, reorder(t[1], d[q], pm[q])) for q in order]}
        if k == "struct" and isinstance(parsed, Obj):
            pm = dict(parsed)
            return ("S", v[1], [(f, reorder(ft, x[1], pm[f]) if f in pm else x[1]) for (f, ft), x in zip(t[1].fields, v[2])])
    except Exception:
        pass
    return v


def canon(t, j):
    """parsed JSON with dict-typed objects sorted by key (struct objects keep their order)"""
    k = t[0]
    if k == "list" and isinstance(j, list):
        return [canon(t[1], x) for x in j]
    if k == "opt" and j is not None:
        return canon(t[1], j)
    if k == "dict" and isinstance(j, Obj):
        return ["<dict>"] + sorted([[q, canon(t[1], x)] for q, x in j], key=lambda p: p[0])
    if k == "struct" and isinstance(j, Obj):
        ft = dict(t[1].fields)
        return ["<obj>"] + [[q, canon(ft[q], x) if q in ft else x] for q, x in j]
    return j


def contains_some_none(t, v):
    k = t[0]
    if k == "opt":
        if v is None:
            return False
        if t[1][0] == "opt" and v[1] is None:
            return True
        return contains_some_none(t[1], v[1])
    if k == "list":
        return any(contains_some_none(t[1], x) for x in v)
    if k == "dict":
        return any(contains_some_none(t[1], x) for _, x in v["__dict__"])
    if k == "struct":
        return any(contains_some_none(ft, x[1]) for (f, ft), x in zip(t[1].fields, v[2]))
    return False


# ---------------------------------------------------------------- Incan source

def istr(s):
    out = []
    for ch in s:
        if ch == "\\":
            out.append("\\\\")
        elif ch == "\"":
            out.append("\\\"")
        elif ch == "\n":
            out.append("\\n")
        elif ch == "\r":
            out.append("\\r")
        elif ch == "\t":
            out.append("\\t")
        else:
            out.append(ch)
    return "\"" + "".join(out) + "\""


class Prog:
    def __init__(self):
        self.helpers = []
        self.nh = 0

    def expr(self, t, v, explicit=False):
        k = t[0]
        if k == "int":
            if v == I64_MIN:
                return "-9223372036854775807 - 1"
            return str(v)
        if k == "bool":
            return "true" if v else "false"
        if k == "str":
            return "st(%s)" % istr(v)
        if k == "float":
            return repr(float(v))
        if k == "list":
            return "[" + ", ".join(self.expr(t[1], x) for x in v) + "]"
        if k == "opt":
            return "None" if v is None else "Some(%s)" % self.expr(t[1], v[1])
        if k == "dict":
            name = "dk%d" % self.nh
            self.nh += 1
            ents = v["__dict__"]
            body = "def %s() -> %s:\n" % (name, ity(t))
            if ents:
                body += "    return {" + ", ".join("st(%s): %s" % (istr(q), self.expr(t[1], x)) for q, x in ents) + "}\n"
            else:
                body += "    mut d: %s = {}\n    return d\n" % ity(t)
            self.helpers.append(body)
            return name + "()"
        d = t[1]
        args = ["%s=%s" % (f, self.expr(ft, x[1])) for (f, ft), x in zip(d.fields, v[2])
                if explicit or not (f in d.defaults and d.defaults[f] == x[1])]
        return "%s(%s)" % (d.name, ", ".join(args))


def build_program(decls, ftexts, plain=()):
    """returns (source, plan). plan: list of records (tag, decl, ids..., nlines) in print order.
    Values are reached through val_<decl>(i) so that main stays small (loops instead of thousands of calls)."""
    P = Prog()
    out = []
    plan = []
    out.append("def st(x: str) -> str:\n    return x\n")
    out.append("def bb(x: bool) -> str:\n    if x:\n        return \"1\"\n    return \"0\"\n")
    for d in decls:
        out.append(d.src())
    mk = []
    for d in decls:
        t = ("struct", d)
        for j, v in enumerate(d.values):
            mk.append("def mk_%s_%d() -> %s:\n    return %s\n" % (d.name, j, d.name, P.expr(t, v, explicit=(j in d.explicit))))
        f = "def val_%s(i: int) -> %s:\n" % (d.name, d.name)
        for j in range(len(d.values) - 1):
            f += "    if i == %d:\n        return mk_%s_%d()\n" % (j, d.name, j)
        f += "    return mk_%s_%d()\n" % (d.name, len(d.values) - 1)
        mk.append(f)
    xv = []
    for k, (pt, pv) in enumerate(plain):
        xv.append("def xv_%d() -> %s:\n    return %s\n" % (k, ity(pt), P.expr(pt, pv)))
    out.extend(P.helpers)
    out.extend(mk)
    out.extend(xv)
    main = []
    for k in range(len(plain)):
        plan.append(("X", None, k, 1))
        main.append("println(\"#X %d 1\")\nprintln(json_stringify(xv_%d()))" % (k, k))
    for d in decls:
        c = d.caps
        ser, de, eq, od = "Serialize" in c, "Deserialize" in c, "PartialEq" in c, "PartialOrd" in c
        hs = "Hash" in c and "Eq" in c
        nm = d.name
        nv = len(d.values)
        if ser and de:
            f = "def rt_%s(v: %s) -> None:\n    j = json_stringify(v)\n    r = %s.from_json(j)\n    match r:\n        case Ok(w):\n            println(\"ok\")\n            println(json_stringify(w))\n" % (nm, nm, nm)
            f += "            println(bb(w == v))\n" if eq else "            println(\"-\")\n"
            f += "        case Err(e):\n            println(\"err\")\n            println(e)\n            println(\"-\")\n"
            out.append(f)
        if de:
            f = "def fj_%s(s: str) -> None:\n    r = %s.from_json(s)\n    match r:\n        case Ok(w):\n            println(\"ok\")\n" % (nm, nm)
            f += "            println(json_stringify(w))\n" if ser else "            println(\"-\")\n"
            f += "        case Err(e):\n            println(\"err\")\n            println(e)\n"
            out.append(f)
        if eq:
            f = "def pr_%s(a: %s, b: %s) -> None:\n    println(bb(a == b))\n    println(bb(a != b))\n" % (nm, nm, nm)
            if od:
                f += "    println(bb(a < b))\n    println(bb(a <= b))\n    println(bb(a > b))\n    println(bb(a >= b))\n"
            out.append(f)
        out.append("def id_%s(v: %s) -> %s:\n    return v\n" % (nm, nm, nm))
        # reflection: __class_name__() and __fields__() (incan_derive IncanClass)
        out.append("def mf_%s(v: %s) -> None:\n    println(v.__class_name__())\n    for f in v.__fields__():\n        println(f)\n" % (nm, nm))
        plan.append(("M", d, 1 + len(d.fields)))
        main.append("println(\"#M %s %d\")\nmf_%s(mk_%s_0())" % (nm, 1 + len(d.fields), nm, nm))
        if ser:
            body = ["for i in range(%d):" % nv,
                    "    println(f\"#J %s {i} 1\")" % nm, "    println(json_stringify(val_%s(i)))" % nm,
                    "    println(f\"#T %s {i} 1\")" % nm, "    println(val_%s(i).to_json())" % nm]
            if de:
                body += ["    println(f\"#R %s {i} 3\")" % nm, "    rt_%s(val_%s(i))" % (nm, nm)]
            main.append("\n".join(body))
            for j in range(nv):
                plan.append(("J", d, j, 1))
                plan.append(("T", d, j, 1))
                if de:
                    plan.append(("R", d, j, 3))
        if de:
            for q, text in enumerate(ftexts.get(nm, [])):
                plan.append(("F", d, q, 2))
                main.append("println(\"#F %s %d 2\")\nfj_%s(%s)" % (nm, q, nm, istr(text)))
        if eq:
            n = 6 if od else 2
            main.append("for i in range(%d):\n    for j in range(%d):\n        println(f\"#P %s {i} {j} %d\")\n        pr_%s(val_%s(i), val_%s(j))" % (nv, nv, nm, n, nm, nm, nm))
            for j in range(nv):
                for q in range(nv):
                    plan.append(("P", d, j, q, n))
        if hs:
            f = "def hs_%s() -> None:\n    mut d: Dict[%s, int] = {}\n" % (nm, nm)
            f += "    for i in range(%d):\n        d[val_%s(i)] = i\n" % (nv, nm)
            f += "    println(len(d))\n"
            f += "    for i in range(%d):\n        println(bb(val_%s(i) in d))\n" % (nv, nm)
            f += "    s: Set[%s] = {%s}\n    println(len(s))\n" % (nm, ", ".join("mk_%s_%d()" % (nm, j) for j in range(nv)))
            out.append(f)
            n = 2 + nv
            plan.append(("H", d, n))
            main.append("println(\"#H %s %d\")\nhs_%s()" % (nm, n, nm))
        # clone: the emitter passes a variable argument as `a.clone()`; then the copy is modified
        if ser and nv >= 2:
            for j in range(min(3, nv)):
                q = (j + 1) % nv
                fidx = j % len(d.fields)
                fname, ft = d.fields[fidx]
                fn = "cl_%s_%d" % (nm, j)
                f = "def %s() -> None:\n    a = mk_%s_%d()\n    mut c = id_%s(a)\n" % (fn, nm, j, nm)
                f += "    println(bb(c == a))\n" if eq else "    println(\"-\")\n"
                f += "    println(json_stringify(c))\n"
                f += "    c.%s = mk_%s_%d().%s\n" % (fname, nm, q, fname)
                f += "    println(json_stringify(a))\n    println(json_stringify(c))\n"
                out.append(f)
                plan.append(("C", d, j, q, fidx, 4))
                main.append("println(\"#C %s %d 4\")\n%s()" % (nm, j, fn))
    src = "\n".join(out) + "\ndef main() -> None:\n" + "\n".join("    " + l for m in main for l in m.split("\n")) + "\n"
    return src, plan


# ---------------------------------------------------------------- hand-made JSON texts for from_json

def jtext_ws(rng, j):
    def ws():
        return rng.choice(["", "", " ", "\n", "\t", " \r\n ", "  "])
    if isinstance(j, Obj):
        return "{" + ws() + ",".join(ws() + json.dumps(k, ensure_ascii=False) + ws() + ":" + ws() + jtext_ws(rng, x) + ws() for k, x in j) + "}"
    if isinstance(j, list):
        return "[" + ws() + ",".join(ws() + jtext_ws(rng, x) + ws() for x in j) + "]"
    return json.dumps(j, ensure_ascii=False)


def jtext_ascii(j):
    """every non-ASCII character as \\uXXXX (surrogate pairs for astral), and / as \\/ """
    if isinstance(j, Obj):
        return "{" + ",".join(json.dumps(k, ensure_ascii=True) + ":" + jtext_ascii(x) for k, x in j) + "}"
    if isinstance(j, list):
        return "[" + ",".join(jtext_ascii(x) for x in j) + "]"
    if isinstance(j, str):
        return json.dumps(j, ensure_ascii=True).replace("/", "\\/")
    return json.dumps(j)


class FT(str):
    """a hand-made from_json text with the category that produced it"""
    def __new__(cls, text, cat):
        o = str.__new__(cls, text)
        o.cat = cat
        return o


BAD_SCALARS = ["1.0", "1e2", "-0", "9223372036854775808", "-9223372036854775809", "01", "true", "null", "\"1\"", "[]", "{}", "+1", ".5", "1.",
               "\"a\\qb\"", "\"\\ud800\"", "\"\\udc00\\ud800\"", "\"\\ud83d\\ude00\"", "\"tab\there\"", "tru", "nul",
               "9223372036854775807", "-9223372036854775808", "0", "-1", "1E5", "1e+", "-", "\"\\u00e9\\/\\b\\f\\n\\r\\t\\\"\\\\\"",
               "\"\\uD83D\\uDE00x\"", "\"\\ud83dx\"", "\"\\u12\"", "1.5E-3", "-1.25", "00", "-01", "1e", "2.e1", "\"\u0001\"", "12345678901234567890123"]
_bad_counter = [0]


def gen_ftexts(rng, d, quick):
    t = ("struct", d)
    texts = []
    vals = d.values[:2] if quick else d.values[:4]
    if quick and d.special:
        vals = d.values[:1]
    strf = [i for i, (f, ft) in enumerate(d.fields) if ft[0] == "str"]
    intf = [i for i, (f, ft) in enumerate(d.fields) if ft[0] == "int"]
    optf = [i for i, (f, ft) in enumerate(d.fields) if ft[0] == "opt"]
    dictf = [i for i, (f, ft) in enumerate(d.fields) if ft[0] == "dict"]
    for v in vals:
        j = pyjson(t, v)
        texts.append(FT(jtext_ws(rng, j), "whitespace"))
        texts.append(FT(" " + jtext_ascii(j) + "\n", "ascii_escapes"))
        texts.append(FT(dumps(Obj(list(reversed(j)))), "reversed_fields"))
        extra = rng.choice(["1.5e3", "{\"a\":[null,true]}", "\"x\"", "[]", "-0", "null", "12345678901234567890123"])
        k = rng.randint(0, len(j))
        texts.append(FT(dumps(Obj(j[:k] + [("zz_unknown", RawJ(extra))] + j[k:])), "unknown_field"))
        k = rng.choice(optf) if (optf and rng.random() < 0.6) else rng.randrange(len(j))
        texts.append(FT(dumps(Obj(j[:k] + j[k + 1:])), ("missing_defaulted_option_field" if k in optf else "missing_defaulted_field") if d.fields[k][0] in d.defaults
                        else "missing_option_field" if k in optf else "missing_required_field"))
        for k, (f, ft) in enumerate(d.fields):        # every defaulted key left out once: the reference is silent about reading
            if f in d.defaults:                       # such a text; serde reads a missing Option as None and rejects the rest
                texts.append(FT(dumps(Obj(j[:k] + j[k + 1:])), "missing_defaulted_option_field" if ft[0] == "opt" else "missing_defaulted_field"))
        k = rng.randrange(len(j))
        texts.append(FT(dumps(Obj(j + [j[k]])), "duplicate_field"))
        texts.append(FT(dumps([x for _, x in j]), "array_form"))
        texts.append(FT(dumps([x for _, x in j] + [1]), "array_too_long"))
        texts.append(FT(dumps([x for _, x in j][:-1]), "array_too_short"))
        base = dumps(j)
        texts.append(FT(base[:rng.randint(0, len(base) - 1)], "truncated"))
        texts.append(FT(base + rng.choice(["x", "}", ",", " 1", "\n\n"]), "trailing"))
        # wrong or unusual scalars, cycling through the whole list across the run; string forms go to a str field and
        # number forms to an int field when the declaration has one, so that the value reaches the typed decoder
        for _ in range(3):
            bad = BAD_SCALARS[_bad_counter[0] % len(BAD_SCALARS)]
            _bad_counter[0] += 1
            pool = strf if (bad.startswith("\"") and strf) else intf if (bad[0] in "-+.0123456789" and intf) else list(range(len(j)))
            k = rng.choice(pool)
            texts.append(FT(dumps(Obj(j[:k] + [(j[k][0], RawJ(bad))] + j[k + 1:])), "scalar:" + bad))
        for k in dictf:                       # the same key twice inside a Dict[str,_] member: HashMap::insert overwrites
            ents = j[k][1]
            if isinstance(ents, Obj) and len(ents) >= 1:
                dup = Obj(list(ents) + [(ents[0][0], ents[-1][1])])
                texts.append(FT(dumps(Obj(j[:k] + [(j[k][0], dup)] + j[k + 1:])), "dict_duplicate_key"))
    for x in ("", "null", "{}", "[]", "{,}", "{\"a\":1,}", " \t\r\n", "[1,]", "{\"a\" 1}", "{\"a\":}", "{1:2}"):
        texts.append(FT(x, "malformed"))
    return texts


class RawJ(str):
    pass


def dumps(j):
    if isinstance(j, RawJ):
        return str(j)
    if isinstance(j, Obj):
        return "{" + ",".join(json.dumps(k, ensure_ascii=False) + ":" + dumps(x) for k, x in j) + "}"
    if isinstance(j, list):
        return "[" + ",".join(dumps(x) for x in j) + "]"
    return json.dumps(j, ensure_ascii=False)


# ---------------------------------------------------------------- Gallina terms

EVAL_DEFS = """Fixpoint unpack21 (fuel : nat) (z : Z) : list Z :=
  match fuel with O => [] | S f => if z <=? 0 then [] else (z mod 2097152 - 1) :: unpack21 f (z / 2097152) end.
Definition S21 (n z : Z) : list Z := unpack21 (Z.to_nat n) z."""


def gstr(s):
    """a code-point list; long ones are packed into one hexadecimal numeral (21 bits per character, +1) because long
    list literals elaborate slowly in coqc"""
    if len(s) <= 3:
        return glist([str(ord(c)) for c in s])
    z = 0
    for i, c in enumerate(s):
        z |= (ord(c) + 1) << (21 * i)
    return "(S21 %d 0x%x)" % (len(s), z)


def glist(items):
    """explicit cons/nil: nested `[ ; ]` notations elaborate very slowly in coqc"""
    if len(items) > 40:                 # long lists in chunks: deep cons nesting overflows coqc's parser stack
        chunks = [glist(items[i:i + 32]) for i in range(0, len(items), 32)]
        return "(concat %s)" % glist(chunks)
    out = "nil"
    for x in reversed(items):
        out = "(cons %s %s)" % (x, out)
    return out


def gty(t):
    k = t[0]
    if k == "int":
        return "TInt"
    if k == "bool":
        return "TBool"
    if k == "str":
        return "TStr"
    if k == "float":
        return "TFloat"
    if k == "list":
        return "(TList %s)" % gty(t[1])
    if k == "dict":
        return "(TDict %s)" % gty(t[1])
    if k == "opt":
        return "(TOpt %s)" % gty(t[1])
    return "(TStruct %s)" % glist(["(pair %s %s)" % (gstr(f), gty(ft)) for f, ft in t[1].fields])


def gval(t, v):
    k = t[0]
    if k == "int":
        return "(VInt %s)" % vlib.zlit(v)
    if k == "bool":
        return "(VBool %s)" % ("true" if v else "false")
    if k == "str":
        return "(VStr %s)" % gstr(v)
    if k == "list":
        return "(VList %s)" % glist([gval(t[1], x) for x in v])
    if k == "dict":
        return "(VDict %s)" % glist(["(pair %s %s)" % (gstr(q), gval(t[1], x)) for q, x in v["__dict__"]])
    if k == "opt":
        return "VNone" if v is None else "(VSome %s)" % gval(t[1], v[1])
    return "(VStruct %s)" % glist(["(pair %s %s)" % (gstr(f), gval(ft, x[1])) for (f, ft), x in zip(t[1].fields, v[2])])


def cps(s):
    return [ord(c) for c in s]


# ---------------------------------------------------------------- building and running a batch

DERIVE_ERR = re.compile(r"derive|Serialize|Deserialize|PartialEq|PartialOrd|\bEq\b|\bOrd\b|\bHash\b|\bClone\b|serde|to_json|from_json|binary operation|E0369|E0277|E0599")


def scratch_dir(chk):
    tag = "c20-%s-%d" % (hashlib.sha1(vlib.REPO.encode()).hexdigest()[:6], os.getpid())
    p = os.path.join(vlib.BUILD, tag)
    shutil.rmtree(p, ignore_errors=True)
    os.makedirs(p)
    return p


def compile_and_run(binary, scratch, name, src):
    """-> ('ok', stdout) | ('pipeline', message) | ('rustc', stderr) ; raises Infra for cargo trouble"""
    sp = os.path.join(scratch, name + ".incn")
    with open(sp, "w", encoding="utf-8") as f:
        f.write(src)
    proj = os.path.join(scratch, name)
    out = vlib.run_harness(binary, ["run", "c20", "gen"], "%s\t%s\t%s\n" % (sp, proj, name)).strip()
    if not out.startswith("OK"):
        return "pipeline", out
    toml = open(os.path.join(proj, "Cargo.toml")).read()
    want = os.path.join(os.path.realpath(vlib.REPO), "crates", "incan_stdlib")
    if ('path = "%s"' % want) not in toml and ('path = "%s"' % os.path.join(vlib.REPO, "crates", "incan_stdlib")) not in toml:
        raise vlib.Infra("generated Cargo.toml does not depend on the repository under test (%s):\n%s" % (want, toml))
    shutil.copy(os.path.join(vlib.REPO, "Cargo.lock"), os.path.join(proj, "Cargo.lock"))
    os.makedirs(GEN_TARGET, exist_ok=True)
    t0 = time.time()
    rc, so, se = vlib.sh(["cargo", "build", "--release", "--offline", "--quiet"], cwd=proj,
                         env={"CARGO_TARGET_DIR": GEN_TARGET, "CARGO_PROFILE_RELEASE_OPT_LEVEL": "0"}, timeout=3000)
    vlib.log("[c20] cargo build %s rc=%d in %.1fs" % (name, rc, time.time() - t0))
    if rc != 0:
        if "error: could not compile" in se or "error[" in se:
            return "rustc", se
        raise vlib.Infra("cargo failed for the generated project (not a compile error):\n" + se[-3000:])
    exe = os.path.join(scratch, name + ".bin")
    shutil.copy(os.path.join(GEN_TARGET, "release", name), exe)
    p = subprocess.run([exe], capture_output=True, timeout=600)
    if p.returncode != 0:
        return "run", "exit %d: %s" % (p.returncode, p.stderr.decode("utf-8", "replace")[-2000:])
    return "ok", p.stdout.decode("utf-8", "surrogateescape")


HEADER = re.compile(r"^#([JTRFPHCMX]) ")


def emitted_fields(binary, scratch, name, src):
    """struct name -> emitted field names in order, from the real pipeline's Rust text"""
    sp = os.path.join(scratch, name + "_fields.incn")
    with open(sp, "w", encoding="utf-8") as f:
        f.write(src)
    out = vlib.run_harness(binary, ["run", "c20", "fields"], sp + "\n").strip()
    if not out.startswith("OK"):
        return None, out
    res = {}
    for part in out[3:].split(";"):
        if ":" in part:
            n, fs = part.split(":", 1)
            fs, _, attrs = fs.partition("@")
            res[n] = [x[2:] if x.startswith("r#") else x for x in fs.split(",") if x]      # raw identifiers: r#loop is the field `loop`
            res[n + "@attrs"] = attrs
    return res, out


def check_field_order(chk, binary, scratch, name, decls, src, res, model_ok):
    """tie (c): emitted struct field order vs the documented order (Python) and vs the Coq model of lower_class"""
    fails, corr = [], []
    emitted, raw = emitted_fields(binary, scratch, name, src)
    if emitted is None:
        return [{"batch": name, "stage": "pipeline", "message": raw, "program": src,
                 "why": "the compiler pipeline rejects the generated declarations"}], []
    hier = [d for d in decls if d.chain]
    model = {}
    if model_ok and hier:
        req = "From Verif Require Import Base.I64 C20.Model.\nFrom Coq Require Import ZArith List.\nImport ListNotations.\nOpen Scope Z_scope."
        terms = []
        for d in hier:
            tbl, n = d.gtable()
            terms.append("run_class_fields %s %d" % (tbl, n))
        vals = vlib.coq_eval(req, "list Z", "fun x => x", terms, shard=64, tag="c20f" + name, extra_defs=EVAL_DEFS)
        for d, v in zip(hier, vals):
            names, cur = [], []
            for z in v:
                if z == -1:
                    names.append("".join(map(chr, cur)))
                    cur = []
                else:
                    cur.append(z)
            model[d.name] = names
    for d in decls:
        got = emitted.get(d.name)
        want = [f for f, _ in d.fields]
        chk.count_case(("fields", name, d.name, tuple(got or ())), nontrivial=bool(d.chain))
        res["dist"]["fields"] = res["dist"].get("fields", 0) + 1
        if d.chain:
            res["dist"]["hierarchy_depth_%d" % len(d.chain)] = res["dist"].get("hierarchy_depth_%d" % len(d.chain), 0) + 1
            arm(res, "class_fields:" + ("no_parent" if len(d.chain) == 1 else "parent_is_root" if len(d.chain) == 2 else "collect_inherited_fields_recursive"))
            if any(not cf for _, cf, _ in d.chain):
                arm(res, "class_fields:level_without_fields")
        case = {"batch": name, "record": "fields %s" % d.name, "decl": d.src(), "impl": got}
        attrs = emitted.get(d.name + "@attrs", "")
        arm(res, "emit_struct:non_derive_attributes_" + ("present" if attrs else "none"))
        if attrs:
            # the model (and serde's documented behaviour the theorems rely on) knows no field/container attribute:
            # any #[serde(..)] (rename, skip, default, flatten, ...) changes the JSON mapping
            c3 = dict(case)
            c3["record"] = "attrs %s" % d.name
            c3["why"] = "the emitted struct carries attributes the model does not predict: %s" % attrs
            fails.append(c3)
        if got != want:
            case["why"] = ("emitted struct field order %s differs from the declaration order %s (ancestors' fields root first, own fields "
                           "last): derived ordering and the JSON keys follow the emitted order" % (got, want))
            fails.append(case)
        if d.name in model and model[d.name] != got:
            c2 = dict(case)
            c2["mismatch"] = {"model": model[d.name], "impl": got}
            corr.append(c2)
    return fails, corr


def parse_output(stdout, plan):
    """group the payload lines under their `#TAG ...` header lines; a group with an unexpected number of lines
    (e.g. multi-line JSON) is kept as it is and judged as a failing record, only a wrong sequence of headers is
    an infrastructure problem"""
    groups = []
    for line in stdout.split("\n"):
        m = HEADER.match(line)
        if m:
            groups.append([m.group(1)])
        elif groups:
            groups[-1].append(line)
    if groups and groups[-1][-1:] == [""]:
        groups[-1].pop()
    if [g[0] for g in groups] != [rec[0] for rec in plan]:
        raise vlib.Infra("generated program printed %d records, %d expected, or in another order" % (len(groups), len(plan)))
    return [g[1:] for g in groups]


def arm(res, name, n=1):
    """per-arm hit counts of the hand model (which inputs of the correspondence stream reach which arm)"""
    h = res.setdefault("arms", {})
    h[name] = h.get(name, 0) + n


def arms_value(res, t, v):
    """which arms of the printer / derived impls a value reaches"""
    k = t[0]
    if k == "int":
        arm(res, "print_int:" + ("negative" if v < 0 else "zero" if v == 0 else "positive"))
        if v in (I64_MIN, I64_MAX):
            arm(res, "print_int:i64_limit")
    elif k == "bool":
        arm(res, "print_json:bool_" + str(v).lower())
    elif k == "str":
        if not v:
            arm(res, "print_str:empty")
        for ch in v:
            c = ord(ch)
            arm(res, "esc_char:" + ({34: "quote", 92: "backslash", 8: "b", 12: "f", 10: "n", 13: "r", 9: "t"}.get(c) or
                                    ("u00XX" if c < 32 else "raw_ascii" if c < 128 else "raw_bmp" if c < 0x10000 else "raw_astral")))
    elif k == "list":
        arm(res, "print_json:array_" + ("empty" if not v else "one" if len(v) == 1 else "many"))
        for x in v:
            arms_value(res, t[1], x)
    elif k == "dict":
        n = len(v["__dict__"])
        arm(res, "print_json:dict_" + ("empty" if not n else "one" if n == 1 else "many"))
        for q, x in v["__dict__"]:
            arms_value(res, ("str",), q)
            arms_value(res, t[1], x)
    elif k == "opt":
        arm(res, "encode:" + ("none" if v is None else "some"))
        if v is not None:
            arms_value(res, t[1], v[1])
    elif k == "struct":
        arm(res, "print_json:object_" + ("one" if len(v[2]) == 1 else "many"))
        for (f, ft), x in zip(t[1].fields, v[2]):
            arms_value(res, ft, x[1])


ESC_RE = re.compile(r'\\(u[dD][89abAB][0-9a-fA-F]{2}\\u[dD][c-fC-F][0-9a-fA-F]{2}|u[0-9a-fA-F]{4}|.)', re.S)


def arms_text(res, text, ok):
    """which arms of the JSON reader a from_json text reaches (judged from the text)"""
    for m in ESC_RE.finditer(text):
        e = m.group(1)
        if len(e) > 6:
            arm(res, "parse_str_body:surrogate_pair")
        elif e[0] == "u" and len(e) == 5:
            u = int(e[1:], 16)
            arm(res, "parse_str_body:" + ("lone_surrogate" if 0xd800 <= u <= 0xdfff else "u_bmp"))
        elif e in "\"\\/bfnrt":
            arm(res, "parse_str_body:esc_" + {"\"": "quote", "\\": "backslash", "/": "slash"}.get(e, e))
        else:
            arm(res, "parse_str_body:bad_escape")
    if re.search(r"[\x00-\x1f]", text.replace("\n", "").replace("\t", "").replace("\r", "")) or '"tab\there"' in text:
        arm(res, "parse_str_body:raw_control")
    if re.search(r"[ \t\r\n]", text):
        arm(res, "skip_ws:whitespace")
    for lit, nm in (("null", "null"), ("true", "true"), ("false", "false"), ("[]", "array_empty"), ("{}", "object_empty"), ("[", "array"), ("{", "object")):
        if lit in text:
            arm(res, "parse_value:" + nm)
    arm(res, "from_json:" + ("ok" if ok else "err"))


def flags(xs):
    return [1 if x else 0 for x in xs]


def run_batch(chk, binary, scratch, name, decls, ftexts, res, model_ok, plain=()):
    """one program: build, run, compare with model and oracle. Returns list of failure dicts."""
    src, plan = build_program(decls, ftexts, plain)
    ffails, fcorr = check_field_order(chk, binary, scratch, name, decls, src, res, model_ok)
    t3 = time.time()
    status, out = compile_and_run(binary, scratch, name, src)
    vlib.log("[c20] batch %s generated, built and run in %.1fs (%d records)" % (name, time.time() - t3, len(plan)))
    fails, corr = [], []
    if status != "ok":
        detail = {"batch": name, "stage": status, "message": out if len(out) < 6000 else out[:3500] + "\n...\n" + out[-2500:], "program": src}
        if status == "rustc" and not DERIVE_ERR.search(out):
            raise vlib.Infra("generated batch %s does not build for a reason outside C20:\n%s" % (name, out[-3000:]))
        detail["why"] = "a generated program of derived models/classes that builds on the verified tree no longer builds/runs"
        return ffails + [detail], fcorr, 0
    fails, corr = list(ffails), list(fcorr)
    recs = parse_output(out, plan)
    # ---- model terms
    terms, idx = [], []
    jtexts = {}
    for k, (rec, lines) in enumerate(zip(plan, recs)):
        tag, d = rec[0], rec[1]
        if len(lines) != rec[-1]:
            continue
        if tag == "X":
            pt, pv = plain[rec[2]]
            try:
                pv2 = reorder(pt, pv, loads(lines[0]))
            except Exception:
                pv2 = pv
            terms.append("to_json %s" % gval(pt, pv2))
            idx.append(k)
            continue
        if tag == "M":
            continue
        t = ("struct", d)
        if has_float(t):
            continue
        if tag == "T":
            continue                      # same text as the J record: judged by the oracle (exact text) only
        if tag in ("J", "T"):
            v = d.values[rec[2]]
            try:
                v2 = reorder(t, v, loads(lines[0]))
            except Exception:
                v2 = v
            terms.append("to_json %s" % gval(t, v2))
            idx.append(k)
            if tag == "J":
                jtexts[(d.name, rec[2])] = lines[0]
        elif tag == "R":
            txt = jtexts.get((d.name, rec[2]), "")
            if len(txt) > 6000:
                continue                  # the reader's unary fuel for very long texts overflows coqc's stack; oracle only
            terms.append("(let r := run_from_json %s %s in fst r :: snd r)" % (gty(t), gstr(txt)))
            idx.append(k)
        elif tag == "F":
            terms.append("(let r := run_from_json %s %s in fst r :: snd r)" % (gty(t), gstr(ftexts[d.name][rec[2]])))
            idx.append(k)
        elif tag == "P":
            if d.noftext and d.name.endswith("Big") and abs(rec[2] - rec[3]) > 1:
                continue                  # very large values: the model side judges equal and adjacent pairs only
            if len(d.values) > 6 and not (abs(rec[2] - rec[3]) <= 1 or rec[2] == 0 or rec[3] == 0):
                continue                  # many values: the model side judges base/adjacent pairs, the oracle all pairs
            a, b = gval(t, d.values[rec[2]]), gval(t, d.values[rec[3]])
            terms.append("map (fun b : bool => if b then 1 else 0) (run_pair %s %s)" % (a, b))
            idx.append(k)
        elif tag == "H":
            terms.append("(cons (run_distinct %s) nil)" % glist([gval(t, v) for v in d.values]))
            idx.append(k)
        elif tag == "C":
            terms.append("(map (fun b : bool => if b then 1 else 0) (cons (veq (vclone %s) %s) nil))" % (gval(t, d.values[rec[2]]), gval(t, d.values[rec[2]])))
            idx.append(k)
    # very large values are judged by the oracle only: their Gallina terms overflow coqc's parser/VM stack
    keep = [i for i, x in enumerate(terms) if len(x) <= 8000]
    res["model_side_skipped_large"] = res.get("model_side_skipped_large", 0) + len(terms) - len(keep)
    terms, idx = [terms[i] for i in keep], [idx[i] for i in keep]
    model = {}
    if model_ok and terms:
        req = "From Verif Require Import Base.I64 C20.Model.\nFrom Coq Require Import ZArith List.\nImport ListNotations.\nOpen Scope Z_scope."
        t2 = time.time()
        if os.environ.get("C20_DUMP_TERMS"):
            json.dump(terms, open(os.environ["C20_DUMP_TERMS"], "w"))
        vals = vlib.coq_eval(req, "list Z", "fun x => x", terms, shard=64, tag="c20" + name, extra_defs=EVAL_DEFS)
        vlib.log("[c20] model evaluation of %d cases in %.1fs" % (len(terms), time.time() - t2))
        model = dict(zip(idx, vals))
    # ---- compare
    n_model = 0
    for k, (rec, lines) in enumerate(zip(plan, recs)):
        tag, d = rec[0], rec[1]
        if tag == "X":
            pt, pv = plain[rec[2]]
            case = {"batch": name, "record": "X %d" % rec[2], "type": ity(pt), "value": repr(pv)[:400], "impl": [x[:400] for x in lines]}
            why = cwhy = None
            mres = model.get(k)
            if len(lines) != 1:
                why = "json_stringify printed %d lines" % len(lines)
            else:
                try:
                    parsed = loads(lines[0])
                    want = dumps(pyjson(pt, reorder(pt, pv, parsed)))
                    if lines[0] != want:
                        why = "json_stringify(%s value) differs from the documented mapping: expected %s" % (ity(pt), want[:300])
                except Exception as ex:
                    why = "output of json_stringify is not JSON (%s)" % ex
                if mres is not None:
                    n_model += 1
                    if mres != cps(lines[0]):
                        cwhy = {"model": "".join(map(chr, mres))[:300], "impl": lines[0][:300]}
            chk.count_case((name, case["record"], tuple(lines)))
            res["dist"]["X"] = res["dist"].get("X", 0) + 1
            arm(res, "json_stringify(plain %s)" % pt[0])
            if why:
                case["why"] = why
                fails.append(case)
            if cwhy:
                c2 = dict(case)
                c2["mismatch"] = cwhy
                corr.append(c2)
            continue
        t = ("struct", d)
        nm = d.name
        why = None          # oracle verdict
        cwhy = None         # correspondence verdict
        case = {"batch": name, "record": "%s %s %s" % (tag, nm, " ".join(str(x) for x in rec[2:-1])), "decl": d.src(), "impl": lines}
        if tag == "M":
            want = [nm] + [f for f, _ in d.fields]
            chk.count_case((name, case["record"], tuple(lines)))
            res["dist"]["M"] = res["dist"].get("M", 0) + 1
            if lines != want:
                case["why"] = "__class_name__() / __fields__() give %s, the declaration says %s" % (lines, want)
                fails.append(case)
            continue
        nontrivial = True
        mres = model.get(k)
        if mres is not None:
            n_model += 1
        if len(lines) != rec[-1]:
            why = "the record has %d output lines, %d expected (a JSON text must be one line; flags one per line)" % (len(lines), rec[-1])
            tag = "?"
        if tag == "J":
            arms_value(res, t, d.values[rec[2]])
        if tag in ("J", "T"):
            v = d.values[rec[2]]
            case["value"] = repr(v)
            got = lines[0]
            try:
                parsed = loads(got)
                v2 = reorder(t, v, parsed)
                want = dumps(pyjson(t, v2))
                if has_float(t):
                    if canon(t, parsed) != canon(t, loads(want)):
                        why = "JSON document differs from the documented mapping: expected %s" % want
                elif got != want:
                    why = "JSON text differs from the documented mapping: expected %s" % want
                elif isinstance(parsed, Obj) and [q for q, _ in parsed] != [f for f, _ in d.fields]:
                    why = "field names/order differ from the declaration"
            except Exception as e:
                why = "output of json_stringify is not JSON (%s)" % e
            if mres is not None and mres != cps(got):
                cwhy = {"model": "".join(map(chr, mres)), "impl": got}
        elif tag == "R":
            v = d.values[rec[2]]
            case["value"] = repr(v)
            st, payload, eqf = lines
            known_nested = has_nested_opt(t) and contains_some_none(t, v)
            if st != "ok":
                why = "from_json(json_stringify(v)) is Err(%s)" % payload
            else:
                try:
                    same = canon(t, loads(payload)) == canon(t, loads(dumps(pyjson(t, v))))
                except Exception:
                    same = False
                if not same or eqf == "0":
                    why = "from_json(json_stringify(v)) != v: re-serialised %s, == printed %s" % (payload, eqf)
            if why and known_nested:
                why = ("known", "nested-option-roundtrip", why)
            if mres is not None:
                mst = mres[0]
                mtxt = "".join(map(chr, mres[1:]))
                ok_m = (mst == 1)
                if ok_m != (st == "ok"):
                    cwhy = {"model_status": mst, "impl_status": st, "impl_payload": payload}
                elif ok_m:
                    try:
                        if canon(t, loads(mtxt)) != canon(t, loads(payload)):
                            cwhy = {"model": mtxt, "impl": payload}
                    except Exception:
                        cwhy = {"model": mtxt, "impl": payload}
        elif tag == "F":
            text = ftexts[nm][rec[2]]
            case["text"] = text
            st, payload = lines
            nontrivial = (st == "ok")
            arms_text(res, text, st == "ok")
            cat = getattr(text, "cat", "?")
            arm(res, "decode:%s:%s" % (cat if not cat.startswith("scalar:") else "scalar", st))
            if cat.startswith("scalar:"):
                arm(res, "parse_number/scalar %s:%s" % (cat[7:], st))
            # oracle: if Python reads the text as the JSON of some value of the type, the result must be Ok
            # and re-serialise to the same document; if Python rejects the text, it must be Err.
            try:
                pj = loads(text)
                py_ok = True
            except Exception:
                py_ok = False
            if not py_ok and st == "ok":
                why = "from_json accepted a text that is not JSON"
            if mres is not None:
                mst = mres[0]
                mtxt = "".join(map(chr, mres[1:]))
                if (mst == 1) != (st == "ok"):
                    cwhy = {"model_status": mst, "impl_status": st, "impl_payload": payload, "text": text}
                elif mst == 1 and payload != "-":
                    try:
                        if canon(t, loads(mtxt)) != canon(t, loads(payload)):
                            cwhy = {"model": mtxt, "impl": payload, "text": text}
                    except Exception:
                        cwhy = {"model": mtxt, "impl": payload, "text": text}
        elif tag == "P":
            a, b = d.values[rec[2]], d.values[rec[3]]
            case["a"], case["b"] = repr(a), repr(b)
            got = [int(x) for x in lines]
            e = pyeq(t, a, b)
            first = next((ft[0] for (f, ft), x, y in zip(d.fields, a[2], b[2]) if not pyeq(ft, x[1], y[1])), "none")
            arm(res, "veq/vcmp:first_differing_field_is_" + first)
            want = [int(e), int(not e)]
            if len(got) == 6:
                ka, kb = pykey(t, a), pykey(t, b)
                want += [int(ka < kb), int(ka <= kb), int(ka > kb), int(ka >= kb)]
            if got != want:
                why = "comparison results [==, !=, <, <=, >, >=] = %s, structural/lexicographic semantics give %s" % (got, want)
            if mres is not None:
                m = [mres[0], 1 - mres[0]] + ([mres[1], mres[2], mres[3], mres[4]] if len(got) == 6 else [])
                if m != got:
                    cwhy = {"model": m, "impl": got}
        elif tag == "H":
            got = [int(x) for x in lines]
            distinct = len(set(pykey(t, v) for v in d.values))
            want = [distinct] + [1] * len(d.values) + [distinct]
            if got != want:
                why = "dict/set keyed by the values: [len(dict), v_i in dict..., len(set)] = %s, expected %s" % (got, want)
            if mres is not None and mres[0] != got[0]:
                cwhy = {"model": mres, "impl": got}
        elif tag == "C":
            j, q, fidx = rec[2], rec[3], rec[4]
            a = d.values[j]
            eqf, c0, a1, c1 = lines
            try:
                ja = canon(t, loads(dumps(pyjson(t, a))))
                changed = ("S", nm, [x if i != fidx else (x[0], d.values[q][2][fidx][1]) for i, x in enumerate(a[2])])
                jc = canon(t, loads(dumps(pyjson(t, changed))))
                if eqf == "0":
                    why = "clone != original"
                elif canon(t, loads(c0)) != ja:
                    why = "clone serialises differently from the original"
                elif canon(t, loads(a1)) != ja:
                    why = "modifying the clone changed the original"
                elif canon(t, loads(c1)) != jc:
                    why = "the modified clone does not show the modification"
            except Exception as e:
                why = "clone record unreadable: %s" % e
            if mres is not None and mres != [1]:
                cwhy = {"model": mres}
        chk.count_case((name, case["record"], tuple(lines)), nontrivial=nontrivial)
        res["dist"][tag] = res["dist"].get(tag, 0) + 1
        if isinstance(why, tuple):
            res["known_hits"].setdefault(why[1], []).append(case["record"])
            if any(f["id"] == why[1] and f.get("status") == "known" for f in chk.findings):
                why = None
            else:
                why = why[2] + " (class %s, not listed as known)" % why[1]
        if why:
            case["why"] = why
            fails.append(case)
        if cwhy:
            c2 = dict(case)
            c2["mismatch"] = cwhy
            corr.append(c2)
    return fails, corr, n_model


# ===================================================================== known-finding witnesses

WITNESS = {
    "derive-partialord": "@derive(PartialOrd)\nmodel M:\n    x: int\n\ndef main() -> None:\n    pass\n",
    "derive-display": "@derive(Display)\nmodel M:\n    x: int\n\ndef main() -> None:\n    pass\n",
    "clone-method-rejected": "@derive(Clone)\nmodel M:\n    x: int\n\ndef main() -> None:\n    a = M(x=1)\n    b = a.clone()\n    println(b.x)\n",
}


def table_row(binary, kind, ds):
    return vlib.run_harness(binary, ["run", "c20", "table"], "%s %s\n" % (kind, ",".join(ds) if ds else "-")).strip().split("|")[0]


def table_row_full(binary, kind, ds):
    return vlib.run_harness(binary, ["run", "c20", "table"], "%s %s\n" % (kind, ",".join(ds) if ds else "-")).strip()


def load_findings(chk):
    # TEMPORARY until the lead merges build/kf-C20.json: findings found in the generator audit (derive-duplicate,
    # hierarchy-duplicate-field, cyclic-extends-crash) that known_findings.json does not list yet
    p = os.path.join(vlib.VERIF, "build", "kf-C20.json")
    if os.path.exists(p) and os.environ.get("VERIF_KF_DEV"):  # development only: proposals not yet merged into known_findings.json
        have = {f["id"] for f in chk.findings}
        for f in json.load(open(p)):
            if f["id"] not in have:
                chk.findings.append(f)


def is_known(chk, fid):
    return any(f["id"] == fid and f.get("status") == "known" for f in chk.findings)


# ===================================================================== run

def run(chk):
    load_findings(chk)
    chk.trusted = [
        "Coq 8.16.1 kernel (coqc, vm_compute in proofs of closed finite facts and in the correspondence run); no native_compute",
        "hand-written C20/Model.v (value model, JSON printer/reader, derived Serialize/Deserialize/PartialEq/Ord/Hash/Clone), tied by correspondence",
        "vharness c20 (table: real lexer+parser+checker+lowering+emitter per decorator subset, derive attribute read back with syn; gen: the library calls of prepare_project) and this script's generator/differ",
        "rustc 1.95 + cargo (offline), serde/serde_derive/serde_json, rustc's builtin derives, std HashMap/HashSet, String ordering = UTF-8 byte order = code-point order: outside the model, exercised by every batch",
        "Python's json module and native ==, <, set semantics as the independent oracle",
    ]
    chk.assumptions = [
        "float fields are outside every theorem (TFloat has no well-typed value); finite floats are covered by execution only, NaN/inf not at all",
        "HashMap iteration order is an oracle: the model prints dict entries in the order observed in the implementation's output",
        "class hierarchies and field defaults (every field type; non-empty Dict defaults excepted) are generated; enums, newtypes, generics and traits are not",
        "reading a JSON text that omits a DEFAULTED key: the reference is silent; the model follows serde (missing Option = None, anything else = Err) and the run records it (arms decode:missing_defaulted_*), no theorem depends on it",
    ]
    tb = time.time()
    binary = vlib.build_harness("debug")
    vlib.log("[c20] harness ready after %.1fs" % (time.time() - tb))
    res = {"dist": {}, "known_hits": {}}
    fails, corr = [], []

    # ---- tie (a): the derive table, exhaustively, from the real code
    t0 = time.time()
    subsets, table, jm = run_table(binary)
    thash, changed = write_gen_table(table, jm)
    chk.coverage["derive_table"] = {"rows": 2 * len(subsets), "sha1": thash, "extract_s": round(time.time() - t0, 1)}
    known_rows = {"derive-display": 0}
    class_hits = {"partialord_alone": 0, "methodless_class_with_serde": 0}
    # to_json / from_json are generated by emit_impl, i.e. only where an impl block is lowered
    for kind in ("modelm", "classm"):
        for req in ([], ["Serialize"], ["Deserialize"], ["Serialize", "Deserialize"], ["Deserialize", "Eq", "Serialize", "Ord"]):
            flags = tuple(table_row_full(binary, kind, req).split("|")[1:3])
            want = (str(int("Serialize" in req)), str(int("Deserialize" in req)))
            chk.count_case(("jsonmethods", kind, tuple(req), flags))
            if flags != want:
                fails.append({"record": "jsonmethods %s %s" % (kind, ",".join(req) or "-"),
                              "decl": "@derive(%s)\n%s M:\n    x: int\n    def nm(self) -> int: ...\n" % (", ".join(req), kind[:-1]),
                              "why": "inherent (to_json, from_json) emitted = %s, the derives require %s" % (flags, want)})
    for kind in ("model", "class"):
        for req, row, flags in zip(subsets, table[kind], jm[kind]):
            chk.count_case(("table", kind, tuple(req), row, flags), nontrivial=not row.startswith("ERR"))
            case = {"record": "table %s %s" % (kind, ",".join(req) or "-"), "decl": "@derive(%s)\n%s M:\n    x: int\n" % (", ".join(req), kind), "emitted": row}
            if row.startswith("ERR"):
                case["why"] = "the compiler pipeline rejects a declaration deriving only vocabulary names: " + row
                fails.append(case)
                continue
            e = [x for x in row.split(",") if x]
            why = py_closed(e)
            if known_partialord(req):
                class_hits["partialord_alone"] += 1
            missing = [d for d in req if d != "Validate" and d not in e]
            if missing:
                why.append("requested derives not emitted: %s" % missing)
            unknown = [x for x in e if x not in DCODE]
            if unknown:
                why.append("emitted names outside the vocabulary: %s" % unknown)
            if "Display" in e:
                known_rows["derive-display"] += 1
                if not is_known(chk, "derive-display"):
                    why.append("`Display` is not a derive macro in scope of the generated file")
            want = (str(int("Serialize" in req)), str(int("Deserialize" in req)))
            if kind == "class" and want != ("0", "0"):
                class_hits["methodless_class_with_serde"] += 1
            if flags != want:
                why.append("inherent (to_json, from_json) emitted = %s, the derives require %s" % (flags, want))
            if why:
                case["why"] = "; ".join(why)
                fails.append(case)
    res["dist"]["table"] = 2 * len(subsets)
    # arms of extract_derives / lower_derives / emit_struct reached by the exhaustive table
    for req in subsets:
        q = set(req)
        arm(res, "extract_derives:Eq_pulls_PartialEq" if ("Eq" in q and "PartialEq" not in q) else "extract_derives:Eq_block_idle")
        if "Ord" in q:
            state = set(q) | ({"PartialEq"} if "Eq" in q else set())
            for x in ("PartialOrd", "Eq", "PartialEq"):
                arm(res, "extract_derives:Ord_%s_%s" % ("pulls" if x not in state else "finds", x))
                state.add(x)
        else:
            arm(res, "extract_derives:no_Ord")
        arm(res, "extract_derives:PartialOrd_pulls_PartialEq" if ("PartialOrd" in q and not q & {"PartialEq", "Eq", "Ord"}) else "extract_derives:PartialOrd_block_idle")
        for x in ("Debug", "Clone"):
            arm(res, "lower_derives:%s_%s" % (x, "already_requested" if x in q else "added"))
        arm(res, "emit_struct:Validate_" + ("filtered" if "Validate" in q else "absent"))
    # ---- further request shapes: shuffled order, several @derive decorators, repeated names, unknown names
    nx = 150 if chk.tier == "quick" else 900
    xl, xreq = [], []
    for i in range(nx):
        req = chk.rng.sample(DECORATORS, chk.rng.randint(1, 7))
        groups = [req]
        if i % 3 == 1 and len(req) > 1:
            cut = chk.rng.randint(1, len(req) - 1)
            groups = [req[:cut], req[cut:]]
        if i % 3 == 2:
            dup = chk.rng.choice(req)
            if chk.rng.random() < 0.5 or len(req) < 2:
                groups = [req + [dup]]
            else:
                groups = [req, [dup]]
        kind = "model" if i % 2 else "class"
        xl.append("%s %s" % (kind, "+".join(",".join(g) for g in groups)))
        xreq.append((kind, groups))
    for bad in ("serialize", "Foo", "partialeq", "PartialEq,Equal"):
        xl.append("model " + bad)
        xreq.append(("model", None))
    xout = [o for o in vlib.run_harness(binary, ["run", "c20", "table"], "\n".join(xl) + "\n").split("\n") if o]
    if len(xout) != len(xl):
        raise vlib.Infra("vharness c20 table returned %d lines for %d extra rows" % (len(xout), len(xl)))
    xterms, xrows = [], []
    dup_hits = 0
    for line, (kind, groups), row in zip(xl, xreq, xout):
        chk.count_case(("table+", line, row), nontrivial=not row.startswith("ERR"))
        res["dist"]["table_extra"] = res["dist"].get("table_extra", 0) + 1
        case = {"record": "table+ " + line, "decl": "".join("@derive(%s)\n" % ", ".join(g) for g in (groups or [[line.split(" ")[1]]])) + "%s M:\n    x: int\n" % kind, "emitted": row}
        if groups is None:
            arm(res, "derives.rs from_str:unknown_name")
            if not (row.startswith("ERR typecheck") and "Unknown derive" in row):
                case["why"] = "a name outside the derive vocabulary must be rejected with `Unknown derive`"
                fails.append(case)
            continue
        flat = [x for g in groups for x in g]
        arm(res, "request_shape:%s%s" % ("two_decorators" if len(groups) > 1 else "one_decorator", "_repeated_name" if len(set(flat)) < len(flat) else ""))
        if row.startswith("ERR"):
            case["why"] = "the compiler pipeline rejects a declaration deriving only vocabulary names: " + row
            fails.append(case)
            continue
        e = [x for x in row.split("|")[0].split(",") if x]
        why = py_closed(e)
        if set(e) != set(py_emitted(flat)):
            why.append("emitted derive set differs from request + prerequisites + defaults: expected %s" % sorted(set(py_emitted(flat))))
        if len(set(e)) < len(e):
            if len(set(flat)) < len(flat):
                dup_hits += 1
                if not is_known(chk, "derive-duplicate"):
                    why.append("a derive name is emitted twice (rustc: conflicting implementations) (class derive-duplicate, not listed as known)")
            else:
                why.append("a derive name is emitted twice although requested once")
        if "Display" in e and not is_known(chk, "derive-display"):
            why.append("`Display` is not a derive macro in scope of the generated file")
        if why:
            case["why"] = "; ".join(why)
            fails.append(case)
        xterms.append("map dcode (emitted %s)" % glist(["D" + x for x in flat]))
        xrows.append((case, e))
    known_rows["derive-duplicate"] = dup_hits
    # ---- serde detection (scanners.rs): derive on a model/class, or json_stringify anywhere the emitter emits it
    for pname, psrc, want in SERDE_PROBES:
        sp = os.path.join(vlib.BUILD, "c20-serde-probe-%d.incn" % os.getpid())
        open(sp, "w").write(psrc)
        out = vlib.run_harness(binary, ["run", "c20", "gen"], "%s\t%s\t%s\n" % (sp, sp + ".proj", "probe")).strip()
        shutil.rmtree(sp + ".proj", ignore_errors=True)
        os.remove(sp)
        chk.count_case(("serde", pname, out))
        res["dist"]["serde_probe"] = res["dist"].get("serde_probe", 0) + 1
        arm(res, "detect_serde_usage:%s" % ("true" if want else "false"))
        if out != "OK serde=%s" % ("true" if want else "false"):
            fails.append({"record": "serde " + pname, "decl": psrc, "impl": out,
                          "why": "serde support detected = %s, the program %s json_stringify / serde derives" % (out, "uses" if want else "does not use")})

    # ---- proofs (GenTable.v is part of the development)
    vlib.log("[c20] table stage %.1fs" % (time.time() - t0))
    t1 = time.time()
    pres = chk.proof_stage("C20", allow_axioms=())
    vlib.log("[c20] Props.vo checked after %.1fs" % (time.time() - t1))
    model_ok = vlib.coq_build(["C20/Model.vo"])[0]
    if not model_ok:
        pres["tie_ok"] = False
        pres["broken"].append({"what": "model", "message": "C20/Model.v no longer builds"})
    # the refutation witnesses live in their own file so that a FIX of a finding does not break Props.v
    kok, klog = vlib.coq_build(["C20/PropsKnown.vo"])
    chk.coverage["known_witness_theorems_hold"] = bool(kok)
    vlib.log("[c20] proof stage %.1fs" % (time.time() - t1))
    if model_ok and xterms:
        req0 = "From Verif Require Import Base.I64 C20.Model.\nFrom Coq Require Import ZArith List.\nImport ListNotations.\nOpen Scope Z_scope."
        xvals = vlib.coq_eval(req0, "list Z", "fun x => x", xterms, shard=64, tag="c20x", extra_defs=EVAL_DEFS)
        for (case, e), mv in zip(xrows, xvals):
            if sorted(mv) != sorted(DCODE.get(x, 99) for x in e):
                c2 = dict(case)
                c2["mismatch"] = {"model": mv, "impl": e}
                corr.append(c2)

    # ---- tie (b) + oracle: generated programs
    scratch = scratch_dir(chk)
    try:
        nb = 1 if chk.tier == "quick" else 5
        n_model = 0
        suffix = "" if vlib.ALT is None else "_" + hashlib.sha1(vlib.REPO.encode()).hexdigest()[:6]
        for bi in range(nb):
            tag = "Q%d" % bi if chk.tier == "quick" else "T%d" % bi
            ndecl = 8 if chk.tier == "quick" else 20
            decls = gen_decls(chk.rng, ndecl, tag + "d")
            for d in decls:
                t = ("struct", d)
                v0 = gen_value(chk.rng, t)
                d.values = [v0, json_copy(v0), mutate_field(chk.rng, d, v0, len(d.fields) - 1), mutate_field(chk.rng, d, v0, 0),
                            gen_value(chk.rng, t), gen_value(chk.rng, t)]
            nh = 2 if chk.tier == "quick" else 4
            for hi in range(nh):
                depth = [3, 4, 2, 1][hi % 4] if chk.tier == "quick" else chk.rng.choice([1, 2, 3, 3, 4])
                h = gen_hierarchy(chk.rng, "%sH%d" % (tag, hi), depth, decls[:ndecl], FIELD_NAMES)
                h.values = hierarchy_values(chk.rng, h)[:10]
                decls.append(h)
            decls += special_decls(tag)
            plain = ()
            if bi == 0:
                decls += scale_decls(chk.rng, tag, chk.tier == "quick")
                plain = plain_values(chk.rng)
            ftexts = {d.name: gen_ftexts(chk.rng, d, chk.tier == "quick") for d in decls
                      if "Deserialize" in d.caps and not has_float(("struct", d)) and not d.noftext}
            name = "c20_%s%s" % (tag.lower(), suffix)
            f, c, nm = run_batch(chk, binary, scratch, name, decls, ftexts, res, model_ok, plain)
            fails += f
            corr += c
            n_model += nm
            if bi == 0:
                for d in decls[:2]:
                    chk.sample(d.src() + "# value: " + repr(d.values[0])[:300])
        # declarations-only sweep: many hierarchies of depth 1-5 through the real pipeline (no cargo), field order only
        nsw = 16 if chk.tier == "quick" else 80
        sweep = []
        for hi in range(nsw):
            sweep.append(gen_hierarchy(chk.rng, "Sw%d" % hi, 1 + hi % 5, [], FIELD_NAMES, light=True))
        ssrc = "\n".join(d.src() for d in sweep) + "\ndef main() -> None:\n    pass\n"
        f, c = check_field_order(chk, binary, scratch, "c20_sweep", sweep, ssrc, res, model_ok)
        fails += f
        corr += c
        n_model += len(sweep)
        vlib.log("[c20] batches done at %.1fs" % (time.time() - chk.t0))
        # ---- known findings: replay the witnesses on the real code
        for f in chk.findings:
            if f.get("status") == "fixed" and f["id"] == "cyclic-extends-crash":
                # repaired (fix: commit): regression witness — a cyclic `extends` chain must end in a diagnostic, not in a crash
                sp = os.path.join(scratch, "w_cyclic_fixed.incn")
                open(sp, "w").write(f["witness"])
                try:
                    p = subprocess.run([binary, "run", "c20", "fields"], input=sp + "\n", capture_output=True, text=True, timeout=120)
                    crashed = p.returncode < 0 or "overflowed its stack" in p.stderr
                except subprocess.TimeoutExpired:
                    crashed = True
                if crashed:
                    fails.append({"case": "regression of the repaired finding cyclic-extends-crash", "program": f["witness"],
                                  "why": "a cyclic `extends` chain crashes the compiler again (stack overflow / abort) instead of being diagnosed"})
                continue
            if f.get("status") != "known":
                continue
            fid = f["id"]
            if fid == "derive-partialord":
                row = table_row(binary, "model", ["PartialOrd"])
                e = row.split(",")
                if "PartialOrd" in e and "PartialEq" not in e:
                    if chk.tier == "thorough":
                        st, out = compile_and_run(binary, scratch, "c20_w_partialord" + suffix, WITNESS[fid])
                        if st != "rustc":
                            continue
                    chk.known(fid, "%s: %s" % (fid, f["summary"]))
            elif fid == "derive-display":
                row = table_row(binary, "model", ["Display"])
                if "Display" in row.split(","):
                    if chk.tier == "thorough":
                        st, out = compile_and_run(binary, scratch, "c20_w_display" + suffix, WITNESS[fid])
                        if st != "rustc":
                            continue
                    chk.known(fid, "%s: %s" % (fid, f["summary"]))
            elif fid == "class-json-methods":
                if tuple(table_row_full(binary, "class", ["Serialize", "Deserialize"]).split("|")[1:3]) != ("1", "1"):
                    if chk.tier == "thorough":
                        st, out = compile_and_run(binary, scratch, "c20_w_classjson" + suffix, f["witness"])
                        if st != "rustc":
                            continue
                    chk.known(fid, "%s: %s" % (fid, f["summary"]))
            elif fid == "derive-duplicate":
                row = table_row(binary, "model", ["Eq", "Eq"])
                e = row.split(",")
                if len(set(e)) < len(e):
                    chk.known(fid, "%s: %s" % (fid, f["summary"]))
            elif fid == "hierarchy-duplicate-field":
                em, raw = emitted_fields(binary, scratch, "w_dupfield", f["witness"])
                if em and len(set(em.get("B", []))) < len(em.get("B", [])):
                    chk.known(fid, "%s: %s" % (fid, f["summary"]))
            elif fid == "cyclic-extends-crash":
                sp = os.path.join(scratch, "w_cyclic.incn")
                open(sp, "w").write(f["witness"])
                try:
                    p = subprocess.run([binary, "run", "c20", "fields"], input=sp + "\n", capture_output=True, text=True, timeout=120)
                    crashed = p.returncode != 0 or "overflowed its stack" in p.stderr
                except subprocess.TimeoutExpired:
                    crashed = True
                if crashed:
                    chk.known(fid, "%s: %s" % (fid, f["summary"]))
            elif fid == "nested-option-roundtrip":
                if res["known_hits"].get(fid):
                    chk.known(fid, "%s: %s" % (fid, f["summary"]))
            elif fid == "clone-method-rejected":
                sp = os.path.join(scratch, "w_clone.incn")
                open(sp, "w").write(WITNESS[fid])
                out = vlib.run_harness(binary, ["run", "c20", "gen"], "%s\t%s\t%s\n" % (sp, os.path.join(scratch, "w_clone"), "w_clone")).strip()
                if out.startswith("ERR typecheck") and "clone" in out:
                    chk.known(fid, "%s: %s" % (fid, f["summary"]))
    finally:
        shutil.rmtree(scratch, ignore_errors=True)

    chk.coverage["rule"] = ("all 2^13 decorator subsets x {model, class} through the real lowering+emitter (exhaustive); per batch: seeded random "
                            "declarations (1-5 fields of int/bool/str/List/Dict[str,_]/Option/nested model, 10 derive sets, model|class) x 6 values, plus class "
                            "hierarchies (`extends`, 1-4 levels in the compiled batch, 1-5 in a declarations-only sweep; base value, equal copy and one "
                            "single-field variant per declared field so that the first differing declared field decides) with record `fields` "
                            "(emitted struct field order vs declaration order and vs the Coq model of lower_class) "
                            "(boundary pools: i64 extremes, empty/escape/control/astral strings, empty collections, None/Some; one equal copy, one "
                            "first-field and one last-field variant) -> records J (json_stringify), T (.to_json()), R (from_json round trip + ==), "
                            "F (from_json on hand-made texts: whitespace, \\u escapes, reordered/unknown/missing/duplicate fields, array form, "
                            "truncation, wrong scalars), P (all ordered pairs: == != < <= > >=), H (dict and set keys), C (clone via argument "
                            "passing, then field assignment); a case is non-trivial unless from_json returned Err; distinct by (batch, record, output)")
    chk.coverage["distribution"] = res["dist"]
    chk.coverage["traces_validated_against_impl"] = n_model + (2 * len(subsets) if pres["proofs_ok"] else 0)
    chk.coverage["correspondence_mismatches"] = len(corr)
    chk.coverage["known_class_hits"] = {k: (v if isinstance(v, int) else len(v)) for k, v in list(res["known_hits"].items()) + list(known_rows.items())}
    chk.coverage["repaired_class_rows_checked"] = class_hits
    hits = dict(sorted(res.get("arms", {}).items()))
    hits["class_fields:undeclared_parent (unreachable: the type checker rejects `extends` of an unknown class)"] = 0
    chk.coverage["model_arm_hits"] = hits
    chk.coverage["model_side_skipped_large"] = res.get("model_side_skipped_large", 0)

    fails.sort(key=lambda f: (0, len(f["record"])) if f.get("record", "").startswith(("table", "jsonmethods", "fields")) else (1, 0))
    picked, per_kind = [], {}
    for f in fails:                       # at most 4 per record kind, so that every affected observable shows up in the replay
        k = f.get("record", "build").split(" ")[0]
        per_kind[k] = per_kind.get(k, 0) + 1
        if per_kind[k] <= 4:
            picked.append(f)
    for f in picked[:24]:
        chk.violation("failing-input", f)
    if not fails:
        if corr:
            chk.violation("correspondence-broken", {"theorem_or_tie": "C20 model/implementation correspondence", "cases": corr[:10]}, no_input=True)
        if not pres["proofs_ok"] or not pres["tie_ok"]:
            kind = "proof-broken"
            if any("table_is_model" in str(b.get("theorem")) for b in pres["broken"]):
                kind = "correspondence-broken"
            chk.violation(kind, {"theorem_or_tie": pres["broken"]}, no_input=True)


def json_copy(v):
    if isinstance(v, tuple):
        return tuple(json_copy(x) for x in v)
    if isinstance(v, list):
        return [json_copy(x) for x in v]
    if isinstance(v, dict):
        return {k: json_copy(x) for k, x in v.items()}
    return v


def replay(path):
    data = json.load(open(path))
    binary = vlib.build_harness("debug")
    for v in data["violations"]:
        d = v["detail"]
        print("== %s" % v["kind"])
        if "record" in d and d["record"].startswith("table"):
            _, kind, ds = d["record"].split(" ")
            ds = [] if ds == "-" else ds.split(",")
            print("declaration:\n" + d["decl"])
            print("recorded emitted derives:", d["emitted"])
            print("emitted derives now:     ", table_row(binary, kind, ds))
            print("requirement:", d.get("why"))
        elif "program" in d:
            print("stage:", d["stage"])
            print(d["message"][-3000:])
            p = os.path.join(vlib.BUILD, "c20-replay.incn")
            open(p, "w").write(d["program"])
            print("program written to", p, "(build it with `incan build`)")
        else:
            print(json.dumps(d, indent=1, ensure_ascii=False))
    return 0
