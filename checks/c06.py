"""C06 — compile-time evaluation of `const` initializers agrees with run-time evaluation.

proof:   coq/C06/Props.v over the hand model coq/C06/Model.v (const evaluator with its
         NotStarted/InProgress/Done map and cache, pure evaluator, run-time semantics, concat! folding).
tie:     correspondence: generated const programs through the REAL type checker
         (TypeCheckInfo.const_values / const_kinds / recorded type / diagnostics, via harness c06) vs the
         model evaluated inside coqc (vm_compute); the REAL emitted Rust const items vs the model's folding;
         every digraph shape of const dependencies up to N consts.
oracle:  Python's own semantics (str indexing / slicing / `in` / concatenation, bool operators, i64 arithmetic)
         judged against what the implementation publishes: value, type, IndexError / ValueError diagnostics;
         thorough tier: the same expression compiled as a `const` and inside a function body with real cargo,
         printed values compared.
"""
import collections
import concurrent.futures
import itertools
import json
import os
import shutil
import struct
import subprocess

import vlib

I64_MIN, I64_MAX = -2**63, 2**63 - 1
PROP = "C06"

# ----------------------------------------------------------------------------- trees
# expr := ("lit", kind, val) | ("id", k) | ("node", tag, [children])
# tag  := ("un", "neg"|"not") | ("bin", op) | ("tuple",) | ("list",) | ("set",) | ("dict",) | ("index",)
#       | ("slice", lo, hi, st) | ("other", "paren"|"call") | ("self",)
# const names: id k >= 0 -> "C<k>"; undeclared names: id k < 0 -> "zz<-k>"

BINOPS = ["+", "-", "*", "/", "//", "%", "**", "==", "!=", "<", ">", "<=", ">=", "and", "or", "in", "not in", "is"]
COQ_BIN = {"+": "BAdd", "-": "BSub", "*": "BMul", "/": "BDiv", "//": "BFloorDiv", "%": "BMod", "**": "BPow", "==": "BEq",
           "!=": "BNotEq", "<": "BLt", ">": "BGt", "<=": "BLtEq", ">=": "BGtEq", "and": "BAnd", "or": "BOr", "in": "BIn",
           "not in": "BNotIn", "is": "BIs"}
ARITH = ["+", "-", "*", "/", "//", "%", "**"]
CMP = ["==", "!=", "<", ">", "<=", ">="]

# precedence levels of the Incan parser (crates/incan_syntax/src/parser/expr.rs)
L_OR, L_AND, L_NOT, L_CMP, L_ADD, L_MUL, L_POW, L_UN, L_POST = range(9)


def lit(kind, v):
    return ("lit", kind, v)


def node(tag, *ch):
    return ("node", tag, list(ch))


def fbits(f):
    return struct.unpack("<Q", struct.pack("<d", f))[0]


def funbits(b):
    return struct.unpack("<d", struct.pack("<Q", b))[0]


ODD_NAMES = ["mod", "impl", "dyn", "ref", "use", "move", "_u", "Zz9", "struct", "where", "unsafe", "crate_", "x"]


def cname(k):
    if 100 <= k < 100 + len(ODD_NAMES):
        return ODD_NAMES[k - 100]
    return "C%d" % k if k >= 0 else "zz%d" % (-k)


def level(e):
    if e[0] != "node":
        return L_POST
    t = e[1]
    if t[0] == "un":
        return L_UN if t[1] == "neg" else L_NOT
    if t[0] == "bin":
        op = t[1]
        if op == "or":
            return L_OR
        if op == "and":
            return L_AND
        if op in CMP or op in ("in", "not in", "is"):
            return L_CMP
        if op in ("+", "-"):
            return L_ADD
        if op in ("*", "/", "//", "%"):
            return L_MUL
        return L_POW
    if t[0] == "other":
        return {"range": L_CMP, "await": L_UN}.get(t[1], L_POST)
    return L_POST


def operand_levels(tag):
    """minimal level of each operand so that the text re-parses to the same tree without parentheses"""
    if tag[0] == "un":
        return [L_UN] if tag[1] == "neg" else [L_NOT]
    op = tag[1]
    if op == "or":
        return [L_OR, L_AND]
    if op == "and":
        return [L_AND, L_NOT]
    if op in CMP or op in ("in", "not in", "is"):
        return [L_CMP, L_ADD]
    if op in ("+", "-"):
        return [L_ADD, L_MUL]
    if op in ("*", "/", "//", "%"):
        return [L_MUL, L_POW]
    return [L_UN, L_POW]  # power := unary ('**' power)?


# forms the const evaluator rejects without looking inside ("Expression is not allowed inside const initializers")
OTHER_SRC = {"paren": "(1 + 2)", "call": 'len("ab")', "method": '"ab".len()', "fstring": 'f"a"', "listcomp": "[i for i in [1]]",
             "range": "1..2", "field": "zz1.y", "try": "zz1?", "await": "await zz1", "dictcomp": "{i: i for i in [1]}"}

STR_ESC = {'"': '\\"', "\\": "\\\\", "\n": "\\n", "\t": "\\t"}


def src_str(s):
    return '"' + "".join(STR_ESC.get(c, c) for c in s) + '"'


def src(e):
    if e[0] == "lit":
        k, v = e[1], e[2]
        if k == "int":
            return str(v)
        if k == "float":
            r = repr(funbits(v))
            return r if ("." in r and "e" not in r) else "%.1f" % funbits(v)
        if k == "bool":
            return "true" if v else "false"
        if k == "str":
            return src_str(v)
        return 'b"' + "".join(chr(b) for b in v) + '"'
    if e[0] == "id":
        return cname(e[1])
    t, ch = e[1], e[2]
    if t[0] == "un":
        return ("-" if t[1] == "neg" else "not ") + src(ch[0])
    if t[0] == "bin":
        return "%s %s %s" % (src(ch[0]), t[1], src(ch[1]))
    if t[0] == "tuple":
        return "(" + ", ".join(src(c) for c in ch) + ("," if len(ch) == 1 else "") + ")"
    if t[0] == "list":
        return "[" + ", ".join(src(c) for c in ch) + "]"
    if t[0] == "set":
        return "{" + ", ".join(src(c) for c in ch) + "}"
    if t[0] == "dict":
        return "{" + ", ".join("%s: %s" % (src(ch[i]), src(ch[i + 1])) for i in range(0, len(ch), 2)) + "}"
    if t[0] == "index":
        return "%s[%s]" % (src(ch[0]), src(ch[1]))
    if t[0] == "slice":
        it = iter(ch[1:])
        parts = [src(next(it)) if p else "" for p in t[1:]]
        # `::` is one token in the lexer (C05's colon-colon finding): always separate the colons
        if t[3]:
            return "%s[%s : %s : %s]" % (src(ch[0]), parts[0], parts[1], parts[2])
        return "%s[%s : %s]" % (src(ch[0]), parts[0], parts[1])
    if t[0] == "other":
        return OTHER_SRC[t[1]]
    return "self"


def sx(e):
    """the S-expression the harness prints for the parsed initializer"""
    if e[0] == "lit":
        k, v = e[1], e[2]
        if k == "int":
            return "i%d" % v
        if k == "float":
            return "f%d" % v
        if k == "bool":
            return "b%d" % (1 if v else 0)
        if k == "str":
            return "s[%s]" % ",".join(str(ord(c)) for c in v)
        return "y[%s]" % ",".join(str(b) for b in v)
    if e[0] == "id":
        return "@" + cname(e[1])
    t, ch = e[1], e[2]
    if t[0] == "un":
        return "(%s %s)" % (t[1], sx(ch[0]))
    if t[0] == "bin":
        return "(%s %s %s)" % (t[1].replace(" ", "_"), sx(ch[0]), sx(ch[1]))
    if t[0] in ("tuple", "list", "set", "dict"):
        return "(" + " ".join([t[0]] + [sx(c) for c in ch]) + ")"
    if t[0] == "index":
        return "(index %s %s)" % (sx(ch[0]), sx(ch[1]))
    if t[0] == "slice":
        it = iter(ch[1:])
        parts = [sx(next(it)) if p else "_" for p in t[1:]]
        return "(slice %s %s)" % (sx(ch[0]), " ".join(parts))
    if t[0] == "other":
        return {"paren": "(paren)", "call": "(call)"}.get(t[1], "(other)")
    return "self"


def coq_bool(b):
    return "true" if b else "false"


def coq_expr(e):
    if e[0] == "lit":
        k, v = e[1], e[2]
        if k == "int":
            return "(ELit (LInt %s))" % vlib.zlit(v)
        if k == "float":
            return "(ELit (LFloat %d))" % v
        if k == "bool":
            return "(ELit (LBool %s))" % coq_bool(v)
        if k == "str":
            return "(ELit (LStr %s))" % vlib.zlist([ord(c) for c in v])
        return "(ELit (LBytes %s))" % vlib.zlist(list(v))
    if e[0] == "id":
        return "(EIdent %s)" % vlib.zlit(e[1])
    t, ch = e[1], e[2]
    if t[0] == "un":
        tg = "(NUn %s)" % ("UNeg" if t[1] == "neg" else "UNot")
    elif t[0] == "bin":
        tg = "(NBin %s)" % COQ_BIN[t[1]]
    elif t[0] == "slice":
        tg = "(NSlice %s %s %s)" % tuple(coq_bool(x) for x in t[1:])
    elif t[0] == "other":
        tg, ch = "NOther", []
    elif t[0] == "self":
        tg, ch = "NSelf", []
    else:
        tg = {"tuple": "NTuple", "list": "NList", "set": "NSet", "dict": "NDict", "index": "NIndex"}[t[0]]
    es = "ENil"
    for c in reversed(ch):
        es = "(ECons %s %s)" % (coq_expr(c), es)
    return "(ENode %s %s)" % (tg, es)


# types: "int" "float" "bool" "str" "fstr" "bytes" "fbytes" "unknown" ("tuple", ts...) ("flist", t) ("fset", t) ("fdict", k, v)
def coq_ty(t):
    if isinstance(t, str):
        return {"int": "TInt", "float": "TFloat", "bool": "TBool", "str": "TStr", "fstr": "TFStr", "bytes": "TBytes",
                "fbytes": "TFBytes", "unknown": "TUnknown"}[t]
    if t[0] == "tuple":
        return "(TTuple [%s])" % "; ".join(coq_ty(x) for x in t[1:])
    if t[0] == "flist":
        return "(TFList %s)" % coq_ty(t[1])
    if t[0] == "fset":
        return "(TFSet %s)" % coq_ty(t[1])
    return "(TFDict %s %s)" % (coq_ty(t[1]), coq_ty(t[2]))


def src_ty(t, frozen=False):
    """frozen: spell the collection with its Frozen* name (same resolved const type)"""
    if isinstance(t, str):
        return {"int": "int", "float": "float", "bool": "bool", "str": "str", "fstr": "FrozenStr", "bytes": "bytes",
                "fbytes": "FrozenBytes"}[t]
    pre = "Frozen" if frozen else ""
    if t[0] == "flist":
        return "%sList[%s]" % (pre, src_ty(t[1]))
    if t[0] == "fset":
        return "%sSet[%s]" % (pre, src_ty(t[1]))
    if t[0] == "fdict":
        return "%sDict[%s, %s]" % (pre, src_ty(t[1]), src_ty(t[2]))
    raise ValueError(t)


def enc_ty(t):
    if t is None:
        return [98]
    if isinstance(t, str):
        return [{"int": 1, "float": 2, "bool": 3, "str": 4, "fstr": 5, "bytes": 6, "fbytes": 7, "unknown": 8}[t]]
    t = list(t)
    if t[0] == "tuple":
        return [9, len(t) - 1] + [x for s in t[1:] for x in enc_ty(s)]
    if t[0] == "flist":
        return [10] + enc_ty(t[1])
    if t[0] == "fset":
        return [11] + enc_ty(t[1])
    if t[0] == "fdict":
        return [12] + enc_ty(t[1]) + enc_ty(t[2])
    return [97]


def norm_ty(t):
    return t if isinstance(t, str) else tuple(norm_ty(x) if i else x for i, x in enumerate(t))


def enc_val(v):
    if v is None:
        return [0]
    k, p = v
    if k == "int":
        return [1, int(p)]
    if k == "float":
        return [2, int(p)]
    if k == "bool":
        return [3, 1 if p else 0]
    if k == "str":
        return [4, len(p)] + list(p)
    if k == "bytes":
        return [5, len(p)] + list(p)
    return [99]


def coq_prog(prog):
    return "[" + "; ".join("mkdecl %d %s %s" % (n, "None" if a is None else "(Some %s)" % coq_ty(a), coq_expr(e))
                           for n, a, e in prog) + "]"


def src_prog(prog, main=True):
    lines = []
    for i, (n, a, e) in enumerate(prog):
        lines.append("%sconst %s%s = %s" % ("pub " if i % 4 == 3 else "", cname(n),
                                             "" if a is None else ": " + src_ty(a, frozen=(i % 2 == 1)), src(e)))
    if main:
        lines += ["", "def main() -> None:", "    println(1)"]
    return "\n".join(lines) + "\n"


# ----------------------------------------------------------------------------- implementation result -> rows
ERR_PREFIX = [
    ("Unary '-' is not supported", [4]), ("Unary 'not' is not supported", [5]), ("Binary operator", [6]),
    ("Cannot compare", [7]), ("Logical operator", [8]), ("Indexing is only supported", [10]),
    ("String index must be int", [11]), ("Slicing is only supported", [12]), ("Slice start must be int", [13, 0]),
    ("Slice end must be int", [13, 1]), ("Slice step must be int", [13, 2]),
    ("IndexError: string index out of range", [14]), ("ValueError: slice step cannot be zero", [15]),
    ("Expression is not allowed inside const initializers", [16]), ("self is not allowed inside const", [17]),
    ("Cannot infer type for empty const list", [18, 0]), ("Cannot infer type for empty const set", [18, 1]),
    ("Cannot infer type for empty const dict", [18, 2]), ("Type mismatch", [19]),
]


def name_id(s):
    if s.startswith("r#"):
        s = s[2:]
    if s in ODD_NAMES:
        return 100 + ODD_NAMES.index(s)
    if s.startswith("C") and s[1:].isdigit():
        return int(s[1:])
    if s.startswith("zz") and s[2:].isdigit():
        return -int(s[2:])
    return 10**6


def enc_impl_err(msg):
    if msg.startswith("Const dependency cycle detected: "):
        return [1] + [name_id(x) for x in msg[len("Const dependency cycle detected: "):].split(" -> ")]
    if msg.startswith("Non-const name '"):
        return [2, name_id(msg.split("'")[1])]
    if msg.startswith("Operator '") and "is not allowed inside const initializers" in msg:
        return [9]
    if msg.startswith("Cannot infer type for const '"):
        return [20, name_id(msg.split("'")[1])]
    for p, code in ERR_PREFIX:
        if msg.startswith(p):
            return list(code)
    return [99, hash(msg) % 1000]


def impl_rows(out):
    rows = []
    for c in out["consts"]:
        if c["kind"] is None:
            continue
        rows.append([name_id(c["name"])] + enc_ty(c["ty"]) + [1 if c["kind"] == "frozen" else 0] + enc_val(c["value"]))
    rows.append([-1])
    for kind, msg in out["errors"]:
        rows.append(enc_impl_err(msg))
    return rows


def model_rows(rows):
    return [[19] if (r and r[0] == 19 and i > 0 and [-1] in rows[:i]) else list(r) for i, r in enumerate(rows)]


# ----------------------------------------------------------------------------- the run-time oracle (Python's own semantics)
class Raise(Exception):
    pass


class Stuck(Exception):
    pass


def wrap(z):
    return (z + 2**63) % 2**64 - 2**63


def tagof(v):
    return v[0]


def int_literal_of(e):
    if e[0] == "lit" and e[1] == "int":
        return e[2]
    if e[0] == "node" and e[1] == ("un", "neg") and e[2][0][0] == "lit" and e[2][0][1] == "int":
        return -e[2][0][2]
    return None


def py_eval(e, env):
    """env: const id -> value or None. Values are tagged: ("int", z) ("float", f) ("bool", b) ("str", s) ("bytes", b)
    ("tuple"|"list"|"set"|"dict", [values])."""
    if e[0] == "lit":
        k, v = e[1], e[2]
        if k == "float":
            return ("float", funbits(v))
        if k == "bytes":
            return ("bytes", bytes(v))
        return (k, v)
    if e[0] == "id":
        v = env.get(e[1])
        if v is None:
            raise Stuck()
        return v
    t, ch = e[1], e[2]
    if t[0] == "bin" and t[1] in ("and", "or"):
        l = py_eval(ch[0], env)
        if l[0] != "bool":
            raise Stuck()
        if (t[1] == "and") != l[1]:
            return l
        r = py_eval(ch[1], env)
        if r[0] != "bool":
            raise Stuck()
        return r
    vs = [py_eval(c, env) for c in ch]
    if t[0] in ("un", "bin", "index", "slice") and any(v[1] is None for v in vs):
        raise Stuck()        # needs a numeric value this oracle does not compute (float // % **)
    if t[0] == "un":
        v = vs[0]
        if t[1] == "neg" and v[0] == "int":
            return ("int", wrap(-v[1]))
        if t[1] == "neg" and v[0] == "float":
            return ("float", -v[1])
        if t[1] == "not" and v[0] == "bool":
            return ("bool", not v[1])
        raise Stuck()
    if t[0] == "bin":
        return py_binary(t[1], ch[1], vs[0], vs[1])
    if t[0] in ("tuple", "list", "set", "dict"):
        return (t[0], vs)
    if t[0] == "index":
        if vs[0][0] != "str" or vs[1][0] != "int":
            raise Stuck()
        try:
            return ("str", vs[0][1][vs[1][1]])
        except IndexError:
            raise Raise("IndexError")
    if t[0] == "slice":
        if vs[0][0] != "str":
            raise Stuck()
        it = iter(vs[1:])
        b = []
        for p in t[1:]:
            if p:
                x = next(it)
                if x[0] != "int":
                    raise Stuck()
                b.append(x[1])
            else:
                b.append(None)
        try:
            return ("str", vs[0][1][slice(b[0], b[1], b[2])])
        except ValueError:
            raise Raise("ValueError")
    raise Stuck()


def py_binary(op, rhs, l, r):
    if l[1] is None or r[1] is None:
        raise Stuck()        # an operand whose value this oracle does not compute (float // % **)
    if op == "+" and l[0] == "str" and r[0] == "str":
        return ("str", l[1] + r[1])
    if op in ("in", "not in"):
        if l[0] == "str" and r[0] == "str":
            return ("bool", (l[1] in r[1]) == (op == "in"))
        raise Stuck()
    if op in CMP:
        if l[0] == r[0] and l[0] in ("int", "float", "str", "bool"):
            a, b = l[1], r[1]
        elif l[0] in ("int", "float") and r[0] in ("int", "float"):
            a, b = float(l[1]), float(r[1])
        else:
            raise Stuck()
        return ("bool", {"==": a == b, "!=": a != b, "<": a < b, ">": a > b, "<=": a <= b, ">=": a >= b}[op])
    if op in ARITH and l[0] in ("int", "float") and r[0] in ("int", "float"):
        if l[0] == "int" and r[0] == "int":
            a, b = l[1], r[1]
            if op == "+":
                return ("int", wrap(a + b))
            if op == "-":
                return ("int", wrap(a - b))
            if op == "*":
                return ("int", wrap(a * b))
            if op in ("//", "%", "/") and b == 0:
                raise Raise("ZeroDivisionError")
            if op == "//":
                return ("int", wrap(a // b))
            if op == "%":
                return ("int", a % b)
            if op == "/":
                return ("float", float(a) / float(b))
            k = int_literal_of(rhs)
            if k is not None and k >= 0:
                return ("int", wrap(a ** b)) if b < 4096 else ("int", None)
            return ("float", None)
        a, b = float(l[1]), float(r[1])
        if op in ("/", "//", "%") and b == 0.0:
            raise Raise("ZeroDivisionError")
        try:
            if op == "+":
                return ("float", a + b)
            if op == "-":
                return ("float", a - b)
            if op == "*":
                return ("float", a * b)
            if op == "/":
                return ("float", a / b)
            return ("float", None)   # // % ** on floats: value not needed by this check
        except OverflowError:
            return ("float", None)
    raise Stuck()


def py_has_type(v, t, nested=False):
    """Does the Python value v inhabit the published type t?  An `unknown` NESTED in a collection type (it comes from an
    empty collection literal whose element type the checker could not determine, e.g. `{{}, {1.0: "a"}}` is published as
    FrozenSet[FrozenDict[unknown, unknown]]) carries no information and is inhabited by every value; a top-level
    `unknown` is not accepted (the checker reports `Cannot infer` there)."""
    t = norm_ty(t) if not isinstance(t, str) else t
    k = v[0]
    if isinstance(t, str):
        if t == "unknown":
            return nested
        return (k, t) in (("int", "int"), ("float", "float"), ("bool", "bool"), ("str", "str"), ("str", "fstr"),
                          ("bytes", "bytes"), ("bytes", "fbytes"))
    if t[0] == "tuple":
        return k == "tuple" and len(v[1]) == len(t) - 1 and all(py_has_type(x, y, True) for x, y in zip(v[1], t[1:]))
    if t[0] == "flist":
        return k == "list" and all(py_has_type(x, t[1], True) for x in v[1])
    if t[0] == "fset":
        return k == "set" and all(py_has_type(x, t[1], True) for x in v[1])
    if t[0] == "fdict":
        return k == "dict" and len(v[1]) % 2 == 0 and all(py_has_type(x, t[1 + i % 2], True) for i, x in enumerate(v[1]))
    return False


def subexprs(e):
    yield e
    if e[0] == "node":
        for c in e[2]:
            yield from subexprs(c)


def idents(e):
    return [x[1] for x in subexprs(e) if x[0] == "id"]


def tag_strict(t):
    return t[0] in ("un", "index", "slice") or (t[0] == "bin" and t[1] in ("+", "in", "not in"))


class Oracle:
    """Evaluate a program's consts with Python semantics (memoised, cycles -> Stuck)."""

    def __init__(self, prog):
        self.decl = {n: e for n, _, e in prog}
        self.memo = {}
        self.busy = set()

    def value(self, n):
        if n in self.memo:
            return self.memo[n]
        if n in self.busy or n not in self.decl:
            return ("stuck",)
        self.busy.add(n)
        env = _Env(self)
        try:
            r = ("val", py_eval(self.decl[n], env))
        except Raise as x:
            r = ("raise", str(x))
        except Stuck:
            r = ("stuck",)
        self.busy.discard(n)
        self.memo[n] = r
        return r


class _Env:
    def __init__(self, o):
        self.o = o

    def get(self, n):
        r = self.o.value(n)
        return r[1] if r[0] == "val" else None


def same_value(pub, pv):
    """published ConstValue (harness JSON) vs python value"""
    k, p = pub
    if k == "int":
        return pv[0] == "int" and pv[1] == int(p)
    if k == "float":
        return pv[0] == "float" and pv[1] is not None and fbits(pv[1]) == int(p)
    if k == "bool":
        return pv[0] == "bool" and pv[1] == bool(p)
    if k == "str":
        return pv[0] == "str" and [ord(c) for c in pv[1]] == list(p)
    if k == "bytes":
        return pv[0] == "bytes" and list(pv[1]) == list(p)
    return False


# ----------------------------------------------------------------------------- known-finding classes (mirrors of Model.v)
class Classes:
    """Python mirror of the Known_C06_* predicates, computed from the implementation's own published
    results (type / value-known per const) so that the classifier does not depend on the model."""

    def __init__(self, prog, out):
        self.decl = {n: e for n, _, e in prog}
        self.pub = {name_id(c["name"]): c for c in out["consts"] if c["kind"] is not None}

    def valued(self, e):
        """does the compile-time evaluator know the VALUE of e (const_eval.rs, read off its arms)"""
        if e[0] == "lit":
            return True
        if e[0] == "id":
            c = self.pub.get(e[1])
            return c is not None and c["value"] is not None
        t, ch = e[1], e[2]
        if t[0] == "un":
            return self.valued(ch[0])
        if t[0] == "bin":
            if t[1] in ("and", "or", "in", "not in"):
                return all(self.valued(c) for c in ch)
            if t[1] == "+":
                return all(self.valued(c) and self.is_str(c) for c in ch)
            return False
        if t[0] == "index":
            return all(self.valued(c) for c in ch)
        if t[0] == "slice":
            return all(self.valued(c) for c in ch)      # value only when every present bound is known
        return False

    def is_str(self, e):
        if e[0] == "lit":
            return e[1] == "str"
        if e[0] == "id":
            c = self.pub.get(e[1])
            return c is not None and c["ty"] in ("fstr", "str")
        t = e[1]
        return t[0] in ("index", "slice") or (t[0] == "bin" and t[1] == "+" and all(self.is_str(c) for c in e[2]))

    def unvalued_bound(self, e):
        """Known_C06_slice_bound_unvalued on one initializer"""
        for x in subexprs(e):
            if x[0] == "node" and x[1][0] == "slice":
                if self.valued(x[2][0]) and not all(self.valued(c) for c in x[2][1:]):
                    return True
        return False

    def tainted(self, n, seen=None):
        """n's published value may be wrong: its initializer, or one it depends on, is in the class"""
        seen = seen if seen is not None else set()
        if n in seen or n not in self.decl:
            return False
        seen.add(n)
        e = self.decl[n]
        return self.unvalued_bound(e) or any(self.tainted(m, seen) for m in idents(e))

    def vfrag(self, e):
        """Model.v vfrag: strict operators only, every sub-expression's value known, no unvalued slice bound"""
        for x in subexprs(e):
            if x[0] == "id" and not self.valued(x):
                return False
            if x[0] == "node" and not (tag_strict(x[1]) and self.valued(x)):
                return False
        return not self.unvalued_bound(e)

    def hetero_dep(self, n, seen=None):
        """n's initializer, or one it depends on, contains a list/set/dict literal (Known_C06_hetero_collection
        is decided on the value: the caller has already found that the value does not inhabit the type)"""
        seen = seen if seen is not None else set()
        if n in seen or n not in self.decl:
            return False
        seen.add(n)
        e = self.decl[n]
        return any(x[0] == "node" and x[1][0] in ("list", "set", "dict") for x in subexprs(e)) or \
            any(self.hetero_dep(m, seen) for m in idents(e))

    def lazy_rhs_raises(self, e):
        """Known_C06_eager_and_or: an index/slice inside the right operand of and/or"""
        for x in subexprs(e):
            if x[0] == "node" and x[1] in (("bin", "and"), ("bin", "or")):
                if any(y[0] == "node" and y[1][0] in ("index", "slice") for y in subexprs(x[2][1])):
                    return True
        return False


# ----------------------------------------------------------------------------- generators
STR_POOL = ["", "a", "ab", "abc", "hello", "abcdef", "héllo", "€uro", "a\U0001F600b", "x y", 'q"t', "tab\there", "n\nl",
            "back\\slash", "{}", "zzzzzzzz"]


class Gen:
    def __init__(self, rng, n_consts):
        self.rng = rng
        self.n = n_consts
        self.types = {}     # const id -> intended scalar type
        self.order = {}     # const id -> rank (references go to lower ranks, mostly)

    def atom_lit(self, ty):
        r = self.rng
        if ty == "int":
            return lit("int", r.choice([0, 1, 2, 3, 4, 5, 6, 7, 9, 10, 100, 2**31, 2**62, I64_MAX]) if r.random() < 0.9 else r.randint(0, I64_MAX))
        if ty == "float":
            return lit("float", fbits(r.choice([0.0, 0.5, 1.0, 1.5, 2.0, 2.5, 3.25, 10.0, 100.125, 0.1])))
        if ty == "bool":
            return lit("bool", r.random() < 0.5)
        if ty == "str":
            return lit("str", r.choice(STR_POOL))
        return lit("bytes", list(r.choice([b"", b"ab", b"xyz"])))

    def ref(self, ty, me):
        cands = [k for k, t in self.types.items() if t == ty and k != me and
                 (self.order[k] < self.order.get(me, 10**9) or self.rng.random() < 0.03)]
        if cands and self.rng.random() < 0.85:
            return ("id", self.rng.choice(cands))
        return None

    def fit(self, e, lv, ty, me):
        """e must be printable at operand level lv; otherwise replace it by an atom of the same type"""
        if level(e) >= lv:
            return e
        return self.ref(ty, me) or self.atom_lit(ty)

    def binop(self, op, l, lt, r, rt, me):
        ll, rl = operand_levels(("bin", op))
        return node(("bin", op), self.fit(l, ll, lt, me), self.fit(r, rl, rt, me))

    def small_int(self, me, depth):
        """an int operand for index/slice: mostly a literal / negated literal / const reference"""
        r = self.rng
        k = r.random()
        if k < 0.45:
            return lit("int", r.choice([0, 1, 2, 3, 4, 5, 6, 7, 8, 9, 2**31, 2**62]))
        if k < 0.75:
            return node(("un", "neg"), lit("int", r.choice([1, 2, 3, 4, 5, 6, 7, 9, 2**31, 2**62])))
        if k < 0.9:
            return self.ref("int", me) or lit("int", r.randint(0, 8))
        return self.expr("int", me, depth - 1)

    def expr(self, ty, me, depth):
        r = self.rng
        if r.random() < 0.04:      # ill-typed / disallowed / unknown name
            k = r.random()
            if k < 0.3:
                return ("id", -r.randint(1, 3))
            if k < 0.45:
                return node(("other", r.choice(sorted(OTHER_SRC))))
            if k < 0.5:
                return node(("self",))
            ty = r.choice(["int", "float", "bool", "str", "bytes"])
        if depth <= 0 or r.random() < 0.25:
            return self.ref(ty, me) or self.atom_lit(ty)
        k = r.random()
        if ty == "int":
            if k < 0.2:
                return node(("un", "neg"), self.fit(self.expr("int", me, depth - 1), L_UN, "int", me))
            op = r.choice(["+", "-", "*", "//", "%", "**"])
            return self.binop(op, self.expr("int", me, depth - 1), "int", self.expr("int", me, depth - 1), "int", me)
        if ty == "float":
            if k < 0.2:
                return node(("un", "neg"), self.fit(self.expr("float", me, depth - 1), L_UN, "float", me))
            op = r.choice(ARITH)
            lt = r.choice(["int", "float"])
            rt = "float" if (lt == "int" and op != "/") else r.choice(["int", "float"])
            return self.binop(op, self.expr(lt, me, depth - 1), lt, self.expr(rt, me, depth - 1), rt, me)
        if ty == "bool":
            if k < 0.2:
                return node(("un", "not"), self.fit(self.expr("bool", me, depth - 1), L_NOT, "bool", me))
            if k < 0.5:
                op = r.choice(["and", "or"])
                return self.binop(op, self.expr("bool", me, depth - 1), "bool", self.expr("bool", me, depth - 1), "bool", me)
            if k < 0.7:
                op = r.choice(["in", "not in"])
                return self.binop(op, self.expr("str", me, depth - 1), "str", self.expr("str", me, depth - 1), "str", me)
            if k < 0.73:
                return self.binop("is", self.expr("int", me, 0), "int", self.expr("int", me, 0), "int", me)
            op = r.choice(CMP)
            t = r.choice(["int", "float", "str", "bool", "int"])
            t2 = r.choice(["int", "float"]) if t in ("int", "float") else t
            return self.binop(op, self.expr(t, me, depth - 1), t, self.expr(t2, me, depth - 1), t2, me)
        if ty == "str":
            if k < 0.35:
                return self.binop("+", self.expr("str", me, depth - 1), "str", self.expr("str", me, depth - 1), "str", me)
            base = self.fit(self.expr("str", me, depth - 1), L_POST, "str", me)
            if k < 0.65:
                return node(("index",), base, self.small_int(me, depth))
            lo, hi, st = r.random() < 0.6, r.random() < 0.6, r.random() < 0.5
            ch = [base] + [self.small_int(me, depth) for p in (lo, hi, st) if p]
            if st and r.random() < 0.15:
                ch[-1] = lit("int", 0)
            return node(("slice", lo, hi, st), *ch)
        return self.atom_lit(ty)

    def collection(self, me, depth):
        r = self.rng
        kind = r.choice(["tuple", "list", "set", "dict"])
        if kind == "tuple":
            tys = [r.choice(["int", "float", "bool", "str", "bytes"]) for _ in range(r.choice([0, 1, 2, 2, 3, 3]))]
            return None, node(("tuple",), *[self.expr(t, me, depth) for t in tys])
        if r.random() < 0.15 and depth > 0:
            # nested, unannotated: [[1], [2, 3]], {(1, "a"), (2, "b")}, ...
            inner = [self.collection(me, 0)[1] for _ in range(r.randint(1, 3))]
            if kind == "dict":
                inner = [x for i in inner for x in (lit("int", r.randint(0, 5)), i)]
            return None, node((kind,), *inner)
        et = r.choice(["int", "str", "float", "bool"])
        n = r.randint(0, 3) if r.random() < 0.9 else 0
        if kind == "dict":
            vt = r.choice(["int", "str"])
            ch = []
            for _ in range(n):
                ch += [self.expr(et, me, depth), self.expr(vt if r.random() < 0.93 else "bool", me, depth)]
            ann = ("fdict", et, vt) if r.random() < 0.7 else None
            return ann, node(("dict",), *ch)
        ch = [self.expr(et if r.random() < 0.93 else r.choice(["int", "str"]), me, depth) for _ in range(n)]
        if kind == "set" and not ch:
            kind = "dict"       # `{}` is the empty dict
            return None, node(("dict",))
        ann = ("f" + kind, et) if r.random() < 0.7 else None
        return ann, node((kind,), *ch)

    def program(self):
        r = self.rng
        ids = list(range(self.n))
        ranks = ids[:]
        r.shuffle(ranks)
        self.order = dict(zip(ids, ranks))
        self.types = {k: r.choice(["int", "int", "float", "bool", "str", "str", "str", "bytes"]) for k in ids}
        prog = []
        for k in ids:
            if r.random() < 0.12:
                ann, e = self.collection(k, 1)
                self.types[k] = "coll"
                if ann is not None and len(e[2]) == 0:
                    ann = None          # empty annotated collections use the `expected` type: outside the model
                prog.append((k, ann, e))
                continue
            ty = self.types[k]
            e = self.expr(ty, k, r.choice([0, 1, 2, 2, 3]))
            a = r.random()
            ann = ty if a < 0.6 else (None if a < 0.9 else r.choice(["int", "float", "bool", "str", "fstr", "bytes"]))
            prog.append((k, ann, e))
        if r.random() < 0.2:
            prog = rename(prog, {k: 100 + k for k in ids})
        return prog


def rename(prog, m):
    def go(e):
        if e[0] == "id":
            return ("id", m.get(e[1], e[1]))
        if e[0] == "node":
            return ("node", e[1], [go(c) for c in e[2]])
        return e
    return [(m.get(n, n), a, go(e)) for n, a, e in prog]


SIZES = [0, 1, 2, 16, 17, 63, 64, 65, 255, 256]


def scale_programs(quick):
    """deterministic programs that push one dimension at a time past plausible bounds"""
    out = []
    one = lit("int", 1)
    sizes = [n for n in SIZES if n <= (256 if quick else 10**6)] + ([] if quick else [1000])
    # chains of forward references (depth of the evaluator's recursion = n), without and with a closing back edge
    for n in [x for x in sizes if x >= 1]:
        out.append(("chain%d" % n, [(i, "int", node(("bin", "+"), ("id", i + 1), one) if i + 1 < n else one) for i in range(n)]))
        if n in (2, 17, 64, 256):
            out.append(("ring%d" % n, [(i, "int", ("id", (i + 1) % n)) for i in range(n)]))
    # one const depending on n others; n others depending on one
    for n in (16, 64, 256):
        e = ("id", 1)
        for j in range(2, n + 1):
            e = node(("bin", "+"), e, ("id", j))
        out.append(("fanout%d" % n, [(0, "int", e)] + [(j, "int", lit("int", j)) for j in range(1, n + 1)]))
        out.append(("fanin%d" % n, [(j, "int", ("id", 0)) for j in range(1, n + 1)] + [(0, "int", one)]))
    # long operator chains, deep unary nesting
    for n in (16, 64, 256):
        e = lit("str", "a")
        for j in range(n):
            e = node(("bin", "+"), e, lit("str", chr(98 + j % 20)))
        out.append(("concat%d" % n, [(0, "str", e)]))
        u = lit("int", 5)
        b = lit("bool", True)
        for j in range(n):
            u = node(("un", "neg"), u)
            b = node(("un", "not"), b)
        out.append(("unary%d" % n, [(0, "int", u), (1, "bool", b)]))
    # collection sizes and tuple arities
    for n in sizes:
        if n <= 256:
            out.append(("list%d" % n, [(0, None, node(("list",), *[lit("int", j) for j in range(n)])),
                                        (1, None, node(("tuple",), *[lit("int", j) for j in range(min(n, 64))])),
                                        (2, None, node(("dict",), *[x for j in range(min(n, 64)) for x in (lit("int", j), lit("str", "v"))]))]))
    # strings of every size: index and slice at and just beyond the ends, steps around the length
    for n in sizes:
        if n > 256:
            continue
        sv = "".join("aé€\U0001F600bcd"[j % 7] for j in range(n)) if False else "".join(["a", "é", "€", "\U0001F600", "b", "c", "d"][j % 7] for j in range(n))
        prog = [(0, "str", lit("str", sv))]
        k = 1
        for i in sorted({-n - 1, -n, -1, 0, n - 1, n, n + 1}):
            ie = lit("int", i) if i >= 0 else node(("un", "neg"), lit("int", -i))
            prog.append((k, "str", node(("index",), ("id", 0), ie)))
            k += 1
        for st in sorted({1, 2, max(n, 1), n + 1, 2**62}):
            for sign in (1, -1):
                se = lit("int", st) if sign > 0 else node(("un", "neg"), lit("int", st))
                prog.append((k, "str", node(("slice", False, False, True), ("id", 0), se)))
                k += 1
        for a, b in ((0, n), (n, 0), (-n - 1, n + 1), (1, n - 1)):
            ae = lit("int", a) if a >= 0 else node(("un", "neg"), lit("int", -a))
            be = lit("int", b) if b >= 0 else node(("un", "neg"), lit("int", -b))
            prog.append((k, "str", node(("slice", True, True, False), ("id", 0), ae, be)))
            k += 1
        out.append(("str%d" % n, prog))
    # integer literals at the type limit
    out.append(("intmax", [(0, "int", lit("int", I64_MAX)), (1, "int", node(("un", "neg"), lit("int", I64_MAX))),
                           (2, "int", node(("un", "neg"), ("id", 1))), (3, "str", node(("index",), lit("str", "ab"), ("id", 0))),
                           (4, "str", node(("slice", True, True, True), lit("str", "ab"), ("id", 1), ("id", 0), ("id", 0)))]))
    return out


def arm_programs():
    """one tiny program per arm of the const evaluator (every operator on every operand-kind pair, every slice shape,
    every diagnostic), so that each arm of the model is reached in every run whatever the seed"""
    out = []
    atoms = {"int": [lit("int", 3), node(("un", "neg"), lit("int", 2))], "float": [lit("float", fbits(2.5))],
             "bool": [lit("bool", True)], "str": [lit("str", "ab")], "bytes": [lit("bytes", [97])]}
    kinds = ["int", "float", "bool", "str", "bytes"]
    for op in BINOPS:
        for lk in kinds:
            for rk in kinds:
                for la in atoms[lk][:1]:
                    for ra in atoms[rk]:
                        ll, rl = operand_levels(("bin", op))
                        if level(la) >= ll and level(ra) >= rl:
                            out.append(("arm:bin", [(0, None, node(("bin", op), la, ra))]))
    # operands that are consts with / without a known value
    for op in ("+", "and", "in", "**", "<"):
        out.append(("arm:bin-ref", [(0, None, node(("bin", "-"), lit("int", 4), lit("int", 1))), (1, None, lit("int", 2)),
                                    (2, None, lit("str", "ab")), (3, None, lit("bool", False)),
                                    (4, None, node(("bin", op), ("id", 0), ("id", 1))), (5, None, node(("bin", op), ("id", 1), ("id", 0))),
                                    (6, None, node(("bin", op), ("id", 2), ("id", 2))), (7, None, node(("bin", op), ("id", 3), ("id", 3)))]))
    ustr = node(("slice", True, False, False), lit("str", "abc"), node(("bin", "+"), lit("int", 0), lit("int", 1)))
    out.append(("arm:bin-ref", [(0, "str", ustr), (1, None, node(("bin", "in"), ("id", 0), ("id", 0))),
                                (2, None, node(("bin", "not in"), ("id", 0), lit("str", "b"))), (3, None, node(("bin", "+"), ("id", 0), ("id", 0))),
                                (4, None, node(("index",), ("id", 0), lit("int", 0))), (5, None, node(("slice", False, True, False), ("id", 0), lit("int", 1))),
                                (6, None, node(("bin", "=="), ("id", 0), lit("str", "bc"))), (7, None, node(("bin", "<"), lit("str", "a"), ("id", 0)))]))
    for k in kinds:
        out.append(("arm:un", [(0, None, node(("un", "neg"), atoms[k][0])), (1, None, node(("un", "not"), atoms[k][0]))]))
    unv = node(("bin", "+"), lit("int", 0), lit("int", 1))          # an int whose value the evaluator does not compute
    for base in (lit("str", "héllo"), lit("int", 5), ("id", -1)):
        for idx in (lit("int", 1), lit("int", 9), node(("un", "neg"), lit("int", 5)), lit("str", "x"), lit("bool", True), unv):
            out.append(("arm:index", [(0, None, node(("index",), base, idx))]))
        for lo in (False, True):
            for hi in (False, True):
                for st in (False, True):
                    for bad in (None, 0, 1, 2, "unv", "zero", "neg"):
                        pres = [lo, hi, st]
                        ch = []
                        for j, pj in enumerate(pres):
                            if not pj:
                                continue
                            if bad == j:
                                ch.append(lit("str", "x"))
                            elif bad == "unv":
                                ch.append(unv)
                            elif bad == "zero" and j == 2:
                                ch.append(lit("int", 0))
                            elif bad == "neg":
                                ch.append(node(("un", "neg"), lit("int", 2)))
                            else:
                                ch.append(lit("int", 1 + j))
                        if isinstance(bad, int) and not pres[bad]:
                            continue
                        out.append(("arm:slice", [(0, None, node(("slice", lo, hi, st), base, *ch))]))
    for kind in ("list", "set", "dict", "tuple"):
        for items in ([], [lit("int", 1)], [lit("int", 1), lit("int", 2)], [lit("int", 1), lit("str", "a")],
                      [lit("int", 1), lit("int", 2), lit("str", "a"), ("id", -1)], [("id", -1)], [lit("str", "a"), lit("bytes", [98])]):
            if kind == "dict":
                items = [x for i in items for x in (i, i)] if len(items) != 4 else items
            if kind == "set" and not items:
                continue
            for ann in (None, "int", ("f" + kind, "int") if kind in ("list", "set") else None):
                if ann is not None and not items:
                    continue
                out.append(("arm:coll", [(0, ann, node((kind,), *items))]))
    out.append(("arm:coll", [(0, None, node(("dict",), lit("int", 1), lit("int", 2), lit("int", 3), lit("str", "v")))]))
    out.append(("arm:coll", [(0, None, node(("dict",), lit("int", 1), lit("int", 2), lit("str", "k"), lit("int", 3)))]))
    for how in sorted(OTHER_SRC):
        out.append(("arm:other", [(0, None, node(("other", how)))]))
    out.append(("arm:other", [(0, None, node(("self",)))]))
    # state across declarations: a failed const referenced later (Done without cache), referenced twice (cache hit),
    # a forward reference, an annotation that does not fit, a cycle entered from a third const
    out.append(("arm:state", [(0, "int", ("id", -1)), (1, "int", ("id", 0)), (2, "int", node(("bin", "+"), ("id", 1), ("id", 0))),
                              (3, "int", node(("bin", "+"), ("id", 4), ("id", 4))), (4, "int", lit("int", 2)),
                              (5, "str", ("id", 4)), (6, "float", ("id", 5))]))
    out.append(("arm:state", [(0, "int", ("id", 1)), (1, "int", node(("bin", "+"), ("id", 2), ("id", 3))), (2, "int", ("id", 1)),
                              (3, "int", lit("int", 1)), (4, "int", ("id", 3))]))
    out.append(("arm:state", rename([(0, "str", lit("str", "a")), (1, "str", node(("bin", "+"), ("id", 0), ("id", 0))), (2, "str", ("id", 2))],
                                    {0: 100, 1: 101, 2: 108})))
    return out


def graph_programs(n, subsets):
    """one program per dependency digraph on n consts: const i = sum of its successors (or 1)"""
    out = []
    for edges in subsets:
        prog = []
        for i in range(n):
            succ = [j for j in range(n) if (i, j) in edges]
            if not succ:
                e = lit("int", 1)
            else:
                e = ("id", succ[0])
                for j in succ[1:]:
                    e = node(("bin", "+"), e, ("id", j))
            prog.append((i, "int", e))
        out.append(prog)
    return out


def all_graphs(n):
    pairs = [(i, j) for i in range(n) for j in range(n)]
    for mask in range(2 ** len(pairs)):
        yield {p for b, p in enumerate(pairs) if mask >> b & 1}


def has_cycle(prog):
    decl = {n: e for n, _, e in prog}
    color = {}

    def dfs(u):
        color[u] = 1
        for v in idents(decl[u]):
            if v not in decl:
                continue
            if color.get(v) == 1 or (color.get(v) is None and dfs(v)):
                return True
        color[u] = 2
        return False
    return any(color.get(u) is None and dfs(u) for u in decl)


def fold_programs(rng, count):
    """`str`-typed consts built from literals, references and `+` (what consts.rs folds to concat!)"""
    progs = []
    for _ in range(count):
        n = rng.randint(1, 6)
        prog = []
        for k in range(n):
            def operand():
                if k > 0 and rng.random() < 0.6:
                    return ("id", rng.randrange(0, k) if rng.random() < 0.9 else rng.randrange(0, n))
                return lit("str", rng.choice(STR_POOL))
            x = rng.random()
            if x < 0.3:
                e = lit("str", rng.choice(STR_POOL))
            elif x < 0.8:
                e = node(("bin", "+"), operand(), operand())
            elif x < 0.9:
                e = node(("bin", "+"), node(("bin", "+"), operand(), operand()), operand())
            else:
                e = operand()
            # mostly `str` (IR type StaticStr: folded); sometimes FrozenStr / unannotated (never in the folding table)
            y = rng.random()
            prog.append((k, "str" if y < 0.8 else ("fstr" if y < 0.9 else None), e))
        if rng.random() < 0.2:
            prog = rename(prog, {k: 100 + k for k in range(n)})
        progs.append(prog)
    return progs


# ----------------------------------------------------------------------------- emitted Rust: a tiny const-expression evaluator
class NoEval(Exception):
    pass


def rust_eval(x, consts):
    """value of an emitted const initializer (rexpr tree of harness c06), Rust const-evaluation rules"""
    k = x[0]
    if k == "int":
        return ("float", float(x[1])) if (len(x) > 2 and x[2] == "f64") else ("int", int(x[1]))
    if k == "float":
        return ("float", float(x[1]))
    if k == "bool":
        return ("bool", bool(x[1]))
    if k == "str":
        return ("str", "".join(chr(c) for c in x[1]))
    if k == "bytes":
        return ("bytes", bytes(x[1]))
    if k in ("paren",):
        return rust_eval(x[1], consts)
    if k == "path":
        if x[1] in consts:
            return consts[x[1]]
        raise NoEval("path " + x[1])
    if k == "cast":
        v = rust_eval(x[1], consts)
        if x[2].replace(" ", "") == "f64" and v[0] in ("int", "float"):
            return ("float", float(v[1]))
        raise NoEval("cast")
    if k == "un":
        v = rust_eval(x[2], consts)
        if x[1] == "-" and v[0] == "int":
            return ("int", -v[1])
        if x[1] == "-" and v[0] == "float":
            return ("float", -v[1])
        if x[1] == "!" and v[0] == "bool":
            return ("bool", not v[1])
        raise NoEval("unary")
    if k == "bin":
        op = x[1]
        l = rust_eval(x[2], consts)
        if op in ("&&", "||"):
            if l[0] != "bool":
                raise NoEval("logic")
            if (op == "&&") != l[1]:
                return l
            return rust_eval(x[3], consts)
        r = rust_eval(x[3], consts)
        if l[0] != r[0]:
            raise NoEval("mixed operand types")
        a, b = l[1], r[1]
        if op in ("+", "-", "*") and l[0] in ("int", "float"):
            v = {"+": a + b, "-": a - b, "*": a * b}[op]
            if l[0] == "int" and not I64_MIN <= v <= I64_MAX:
                raise NoEval("overflow in const")
            return (l[0], v)
        if op in ("==", "!=", "<", ">", "<=", ">=") and l[0] in ("int", "float", "bool"):
            return ("bool", {"==": a == b, "!=": a != b, "<": a < b, ">": a > b, "<=": a <= b, ">=": a >= b}[op])
        raise NoEval("binary " + op)
    if k == "macro" and x[1] == "concat":
        parts = [rust_eval(a, consts) for a in x[2:]]
        if all(p[0] == "str" for p in parts):
            return ("str", "".join(p[1] for p in parts))
        raise NoEval("concat of non-literals")
    if k == "tuple":
        return ("tuple", [rust_eval(a, consts) for a in x[1:]])
    raise NoEval(k)


def has_call(x):
    if not isinstance(x, list):
        return False
    if x and x[0] in ("call", "mcall"):
        return True
    return any(has_call(y) for y in x[1:])


# ----------------------------------------------------------------------------- run
def run_impl(binary, progs, emit):
    text = "\n".join(json.dumps({"src": src_prog(p), "emit": emit}) for p in progs) + "\n"
    out = vlib.run_harness(binary, ["run", "c06"], text, timeout=1200).split("\n")
    res = [json.loads(l) for l in out if l]
    if len(res) != len(progs):
        raise vlib.Infra("harness returned %d lines for %d programs" % (len(res), len(progs)))
    return res


REQ = "From Verif Require Import Base.I64 C06.Model.\nFrom Coq Require Import ZArith List.\nImport ListNotations.\nOpen Scope Z_scope."


def run_model(progs, tag, shard=150):
    terms = [coq_prog(p) for p in progs]
    res = vlib.coq_eval(REQ, "list decl", "fun ds => (render_check ds, render_pure ds)", terms, shard=shard, tag=tag)
    return [(model_rows([list(r) for r in a]), [list(r) for r in b], [list(r) for r in a]) for a, b in res]


ERR_NAMES = {1: "ECycle", 2: "ENonConst", 4: "EUnaryNeg", 5: "EUnaryNot", 6: "EBinUnsupported", 7: "ECannotCompare", 8: "ELogical",
             9: "EOpNotAllowed", 10: "EIndexBase", 11: "EIndexNotInt", 12: "ESliceBase", 14: "EIndexOOR", 15: "EStepZero",
             16: "ENotAllowed", 17: "ESelf"}
TY_CODES = {1: "int", 2: "float", 3: "bool", 4: "str", 5: "fstr", 6: "bytes", 7: "fbytes", 8: "unknown"}


def dec_ty(r, i):
    c = r[i]
    if c in TY_CODES:
        return TY_CODES[c], i + 1
    if c == 9:
        n, i, ts = r[i + 1], i + 2, []
        for _ in range(n):
            t, i = dec_ty(r, i)
            ts.append(t)
        return ["tuple"] + ts, i
    if c in (10, 11):
        t, i = dec_ty(r, i + 1)
        return [("flist" if c == 10 else "fset"), t], i
    k, i = dec_ty(r, i + 1)
    v, i = dec_ty(r, i)
    return ["fdict", k, v], i


def tag_name(t):
    return {"un": lambda: "un:" + t[1], "bin": lambda: "bin:" + t[1], "slice": lambda: "slice", "other": lambda: "other"}.get(
        t[0], lambda: t[0])()


def model_arms(prog, raw, hits):
    """which arms of the MODEL (by_name / combine / precheck / check_decl) this program reached, read off the
    model's own output (published rows, error rows) and the program text"""
    sep = raw.index([-1])
    for r in raw[sep + 1:]:
        c = r[0]
        if c == 13:
            hits["precheck:ESliceBound:%d" % r[1]] += 1
        elif c == 18:
            hits["combine:EEmptyColl:%d" % r[1]] += 1
        elif c == 19:
            hits["check_decl:EMismatch" if len(r) == 2 else "precheck:EElemMismatch"] += 1
        elif c == 20:
            hits["check_decl:ECannotInfer"] += 1
        else:
            hits["abort:" + ERR_NAMES.get(c, str(c))] += 1
    consts = []
    for r in raw[:sep]:
        ty, i = dec_ty(r, 1)
        consts.append({"name": cname(r[0]), "kind": "frozen" if r[i] else "native", "ty": ty,
                       "value": None if r[i + 1] == 0 else ("k", 0)})
        hits["publish:" + ("frozen" if r[i] else "native")] += 1
        hits["value:" + {0: "none", 1: "int", 2: "float", 3: "bool", 4: "str", 5: "bytes"}.get(r[i + 1], "?")] += 1
    cls = Classes(prog, {"consts": consts})
    pos = {n: i for i, (n, _, _) in enumerate(prog)}
    for i, (n, a, e) in enumerate(prog):
        for x in subexprs(e):
            if x[0] == "id" and x[1] in pos:
                if x[1] in cls.pub:
                    hits["by_name:NotStarted (forward reference)" if pos[x[1]] > i else "by_name:cache hit"] += 1
                else:
                    hits["by_name:Done without result / InProgress"] += 1
        if n not in cls.pub:
            continue
        hits["check_decl:" + ("no annotation" if a is None else "annotation")] += 1
        for x in subexprs(e):
            if x[0] == "lit":
                hits["lit:" + x[1]] += 1
            elif x[0] == "node":
                hits["combine:%s:%s" % (tag_name(x[1]), "valued" if cls.valued(x) else "typed")] += 1
                if x[1][0] == "slice":
                    hits["combine:slice shape %d%d%d" % tuple(int(b) for b in x[1][1:])] += 1
                if x[1] == ("bin", "**"):
                    k = int_literal_of(x[2][1])
                    hits["pow_kind:" + ("variable" if k is None else ("nonneg literal" if k >= 0 else "negative literal"))] += 1
                if x[1][0] in ("list", "set", "dict", "tuple"):
                    hits["combine:%s:%s" % (x[1][0], "empty" if not x[2] else ("one" if len(x[2]) == (2 if x[1][0] == "dict" else 1) else "many"))] += 1


REQUIRED_ARMS = (["abort:" + v for v in ERR_NAMES.values()] +
                 ["precheck:ESliceBound:0", "precheck:ESliceBound:1", "precheck:ESliceBound:2", "precheck:EElemMismatch",
                  "combine:EEmptyColl:0", "combine:EEmptyColl:2", "check_decl:EMismatch", "check_decl:annotation", "check_decl:no annotation",
                  "by_name:NotStarted (forward reference)", "by_name:cache hit", "by_name:Done without result / InProgress",
                  "publish:frozen", "publish:native", "value:none", "value:int", "value:float", "value:bool", "value:str", "value:bytes",
                  "lit:int", "lit:float", "lit:bool", "lit:str", "lit:bytes",
                  "combine:un:neg:valued", "combine:un:neg:typed", "combine:un:not:valued", "combine:un:not:typed",
                  "combine:bin:+:valued", "combine:bin:+:typed", "combine:bin:in:valued", "combine:bin:in:typed",
                  "combine:bin:not in:valued", "combine:bin:not in:typed", "combine:bin:and:valued", "combine:bin:and:typed", "combine:bin:or:valued",
                  "combine:index:valued", "combine:index:typed", "combine:slice:valued", "combine:slice:typed",
                  "pow_kind:variable", "pow_kind:nonneg literal", "pow_kind:negative literal"] +
                 ["combine:bin:%s:typed" % op for op in ("-", "*", "/", "//", "%", "**", "==", "!=", "<", ">", "<=", ">=")] +
                 ["combine:slice shape %d%d%d" % (a, b, c) for a in (0, 1) for b in (0, 1) for c in (0, 1)] +
                 ["combine:%s:%s" % (k, z) for k in ("list", "dict", "tuple") for z in ("empty", "one", "many")] +
                 ["combine:set:one", "combine:set:many"])
# arms of the model that no program can reach (not generator gaps): EUnknownSym (eval_const_by_name is only called on
# declared names), EMalformed (arities the parser cannot produce), ECannotInfer (root type Unknown needs a None literal:
# outside the model), EEmptyColl 1 (`{}` is the empty DICT), resolve_static_str_const's `visiting` hit (the type checker
# rejects cycles before emission runs)


def judge(prog, out, chk, findings, stats):
    """the property oracle on one program. Returns list of failure dicts (not covered by a listed finding)."""
    fails = []
    orc = Oracle(prog)
    cls = Classes(prog, out)
    known = {f["id"] for f in findings if f.get("status") == "known"} - REPAIRED
    decl = {n: (a, e) for n, a, e in prog}
    # which decl does each IndexError / ValueError diagnostic belong to? the checker reports them while
    # evaluating the first not-yet-evaluated const that needs the failing one: attribute by re-deriving
    # the set of consts whose OWN initializer contains a failing index/slice.
    diag = [enc_impl_err(m) for _, m in out["errors"]]
    n_rt_diag = sum(1 for d in diag if d in ([14], [15]))
    pubs = {name_id(c["name"]): c for c in out["consts"] if c["kind"] is not None}
    for n, (ann, e) in decl.items():
        pv = orc.value(n)
        c = pubs.get(n)
        tainted = cls.tainted(n)
        if c is not None:
            # (1) value
            if c["value"] is not None and pv[0] == "val":
                stats["value_checked"] += 1
                if not same_value(c["value"], pv[1]):
                    if tainted and "slice-bound-unvalued" in known:
                        stats["known:slice-bound-unvalued"] += 1
                    else:
                        fails.append({"what": "value", "const": cname(n), "published": c["value"], "run_time": repr(pv[1])})
            elif c["value"] is not None and pv[0] == "raise":
                if tainted and "slice-bound-unvalued" in known:
                    stats["known:slice-bound-unvalued"] += 1
                else:
                    fails.append({"what": "value-but-raises", "const": cname(n), "published": c["value"], "run_time": pv[1]})
            # (2) type
            if pv[0] == "val" and c["ty"] is not None:
                stats["type_checked"] += 1
                if not py_has_type(pv[1], c["ty"]):
                    if cls.hetero_dep(n) and "hetero-collection" in known and pv[1][0] in ("list", "set", "dict", "tuple"):
                        stats["known:hetero-collection"] += 1
                    else:
                        fails.append({"what": "type", "const": cname(n), "published_type": c["ty"], "run_time": repr(pv[1])})
            # (3) a run-time IndexError / ValueError that the compile-time evaluation did not report
            if pv[0] == "raise" and pv[1] in ("IndexError", "ValueError"):
                if cls.vfrag(e) and not tainted:
                    fails.append({"what": "missed-error", "const": cname(n), "run_time": pv[1], "published": c})
                elif tainted and "slice-bound-unvalued" in known:
                    stats["known:slice-bound-unvalued"] += 1
                elif not cls.vfrag(e) and "error-operand-unvalued" in known:
                    stats["known:error-operand-unvalued"] += 1
                else:
                    fails.append({"what": "missed-error", "const": cname(n), "run_time": pv[1], "published": c})
    # (4) reported IndexError / ValueError diagnostics must correspond to run-time raises
    if n_rt_diag:
        raising = [n for n in decl if orc.value(n) == ("raise", "IndexError") or orc.value(n) == ("raise", "ValueError")]
        stats["diag_checked"] += n_rt_diag
        stuck = [n for n in decl if orc.value(n)[0] == "stuck"]
        if len(raising) < n_rt_diag and len(raising) + len(stuck) >= n_rt_diag:
            stats["diag_unjudged_oracle_stuck"] = stats.get("diag_unjudged_oracle_stuck", 0) + 1
        elif len(raising) < n_rt_diag:
            lazy = any(cls.lazy_rhs_raises(e) for _, e in decl.values())
            taint = any(cls.tainted(n) for n in decl)
            other_raise = any(orc.value(n)[0] == "raise" for n in decl)
            if taint and "slice-bound-unvalued" in known:
                stats["known:slice-bound-unvalued"] += 1
            elif lazy and "eager-and-or" in known:
                stats["known:eager-and-or"] += 1
            elif other_raise:
                stats["diag_other_exception_first"] += 1
            else:
                fails.append({"what": "spurious-error", "diagnostics": [m for _, m in out["errors"]],
                              "run_time": {cname(n): repr(orc.value(n)) for n in decl}})
    # (5) cycles: a program whose const graph has a cycle must be rejected, acyclic ones must not get a cycle error
    cyc = has_cycle(prog)
    has_cyc_err = any(d and d[0] == 1 for d in diag)
    if cyc and not out["errors"]:
        fails.append({"what": "cycle-accepted"})
    elif cyc and out["errors"] and all(name_id(c["name"]) in {n for n, _, _ in prog} and c["kind"] is not None for c in out["consts"]):
        fails.append({"what": "cycle-member-published", "diagnostics": [m for _, m in out["errors"]]})
    # (6) an undeclared name anywhere in an initializer (whatever the evaluation order) makes the program rejected
    undeclared = sorted({cname(x) for _, e in decl.values() for x in idents(e) if x not in decl})
    if undeclared and not out["errors"]:
        fails.append({"what": "undeclared-name-accepted", "names": undeclared})
    if has_cyc_err and not cyc:
        fails.append({"what": "cycle-error-without-cycle", "diagnostics": [m for _, m in out["errors"]]})
    return fails


def check_trees(prog, out):
    got = {name_id(c["name"]): c["tree"] for c in out.get("consts", [])}
    return all(got.get(n) == sx(e) for n, _, e in prog)


# findings repaired in /repo (fix commits e9d64bd, 731d3f7): their classes suppress nothing any more, whatever
# known_findings.json says; their witnesses stay in the case stream as regression inputs
REPAIRED = {"slice-bound-unvalued", "hetero-collection"}

WITNESSES = {
    "slice-bound-unvalued": [(0, "str", node(("index",), node(("slice", True, True, True), lit("str", "abcdef"), lit("int", 4), lit("int", 1),
                                                        node(("bin", "-"), lit("int", 0), lit("int", 1))), lit("int", 0)))],
    "error-operand-unvalued": [(0, "str", node(("index",), lit("str", "abc"), node(("bin", "+"), lit("int", 1), lit("int", 4))))],
    "eager-and-or": [(0, "bool", node(("bin", "and"), lit("bool", False),
                                      node(("bin", "in"), lit("str", "a"), node(("index",), lit("str", "abc"), lit("int", 5)))))],
    "hetero-collection": [(0, None, node(("list",), lit("int", 1), lit("str", "a")))],
}


def witness_reproduces(fid, out):
    diag = [enc_impl_err(m) for _, m in out["errors"]]
    if fid == "slice-bound-unvalued":
        return [14] in diag                      # spurious IndexError; run time gives "e"
    if fid == "error-operand-unvalued":
        return not out["errors"]                 # run time raises IndexError, nothing reported
    if fid == "eager-and-or":
        return [14] in diag                      # run time gives false
    if fid == "hetero-collection":
        return not out["errors"] and out["consts"][0]["ty"] == ["flist", "int"]
    return False


def run(chk):
    chk.trusted = [
        "Coq 8.16.1 kernel (coqc, vm_compute for closed witnesses and for the correspondence run); no native_compute",
        "hand-written C06/Model.v (const evaluator, static-str folding, string kernels) tied to src/frontend/typechecker/const_eval.rs, "
        "src/backend/ir/emit/consts.rs and crates/incan_core/src/strings.rs by the correspondence run only (not generated)",
        "vharness c06 adapter (reads ConstValue/ConstKind through their Debug form: the module is private), this script's encoder/differ",
        "Python's own str/int semantics as the run-time oracle; rustc/cargo in the thorough tier",
        "Gen/CoreNum.v core_result_numeric_type / from_literal_info (rs2v) for the numeric result types",
    ]
    chk.assumptions = [
        "fragment: None literals, the `expected` type for EMPTY annotated collections, duplicate const names and Named(\"FrozenStr\") spellings are outside the model (never generated)",
        "slice loops are modelled over Z; since fix d68de38 the real helper stops when the index leaves i64, which is the Z behaviour (before it, |step| > MAX - len was C05's finding slice-step-overflow: a debug-built compiler panicked on such a const; that class is still recognised and attributed to C05)",
        "the error half of the link stateful evaluator = pure evaluator is checked behaviourally on every generated program (render_pure), the success half is a theorem",
        "repaired and now guarded by regression witnesses (a `fixed` finding suppresses nothing): slice-bound-unvalued (a slice with a present bound of unknown value publishes no value), hetero-collection (every list/set/dict element is compared with the first one's type)",
        "const-nonconst-call (`const X: int = 7 // 2` emitted as a non-const fn call) is a C02 defect: such a const never holds a value, so C06 has nothing to compare; the generator of the build tier stays inside the buildable fragment",
        "frozen collection VALUES are compared by execution only (thorough tier)",
    ]
    # TEMPORARY (drop after merging build/kf-C06.json into known_findings.json): proposed entries not yet listed
    kfp = os.path.join(vlib.VERIF, "build", "kf-C06.json")
    if os.path.exists(kfp) and os.environ.get("VERIF_KF_DEV"):  # development only: proposals not yet merged into known_findings.json
        have = {f["id"] for f in chk.findings}
        chk.findings = list(chk.findings) + [f for f in json.load(open(kfp)) if f["id"] not in have]
    res = chk.proof_stage("C06", allow_axioms=(), rs2v_units=["CoreNum"])
    binary = vlib.build_harness("debug")
    rng = chk.rng
    quick = chk.tier == "quick"

    # ---- programs
    progs = []
    for fid, w in WITNESSES.items():
        progs.append(("witness:" + fid, w))
    for n in (1, 2, 3):
        for p in graph_programs(n, all_graphs(n)):
            progs.append(("graph%d" % n, p))
    for k, p in arm_programs():
        progs.append((k, p))
    sc_progs = shortcircuit_programs()
    for k, p in sc_progs:
        progs.append((k, p))
    deep = []
    for k, p in scale_programs(quick):
        if k.startswith("chain") and len(p) >= DEEP_CHAIN:
            deep.append((k, p))     # the real evaluator recurses once per link: run each in its own process
        else:
            progs.append(("scale:" + k.rstrip("0123456789"), p))
    n4 = 100 if quick else 3000
    pairs4 = [(i, j) for i in range(4) for j in range(4)]
    for _ in range(n4):
        dens = rng.choice([0.1, 0.2, 0.3, 0.5])
        progs.append(("graph4", graph_programs(4, [{p for p in pairs4 if rng.random() < dens}])[0]))
    if not quick:
        pairs6 = [(i, j) for i in range(6) for j in range(6)]
        for _ in range(1500):
            dens = rng.choice([0.05, 0.1, 0.2])
            progs.append(("graph6", graph_programs(6, [{p for p in pairs6 if rng.random() < dens}])[0]))
    for _ in range(350 if quick else 5000):
        progs.append(("random", Gen(rng, rng.randint(1, 6)).program()))
    plist = [p for _, p in progs]

    impl = run_impl(binary, plist, emit=False)
    model_ok = vlib.coq_build(["C06/Model.vo"])[0]
    model = None
    if model_ok:
        # big deterministic programs get their own small shards (one coqc each pair) so that no shard is slow
        big = [i for i, (k, _) in enumerate(progs) if k.startswith("scale:")]
        small = [i for i in range(len(progs)) if i not in set(big)]
        model = [None] * len(progs)
        with concurrent.futures.ThreadPoolExecutor(max_workers=2) as ex:
            fa = ex.submit(run_model, [plist[i] for i in small], "c06")
            fb = ex.submit(run_model, [plist[i] for i in big], "c06big", 3)
            for i, r in zip(small, fa.result()):
                model[i] = r
            for i, r in zip(big, fb.result()):
                model[i] = r
    if not model_ok:
        res["tie_ok"] = False
        res["broken"].append({"what": "model", "message": "C06/Model.v no longer builds"})

    stats = {k: 0 for k in ("value_checked", "type_checked", "diag_checked", "diag_other_exception_first", "known:slice-bound-unvalued",
                            "known:error-operand-unvalued", "known:eager-and-or", "known:hetero-collection", "tree_mismatch",
                            "parse_rejected", "cyclic_programs", "programs_with_errors", "pure_vs_stateful_mismatch")}
    dist = {}
    arm_hits = collections.defaultdict(int)
    corr_bad, fails = [], []
    for i, ((kind, prog), out) in enumerate(zip(progs, impl)):
        dist[kind] = dist.get(kind, 0) + 1
        if out.get("parse") != "ok":
            stats["parse_rejected"] += 1
            if out.get("parse") == "panic":
                huge = any(x[0] == "lit" and x[1] == "int" and x[2] > I64_MAX - 64 for _, _, e in prog for x in subexprs(e))
                if "overflow" in str(out.get("message")) and huge:
                    stats["c05_slice_step_overflow_at_compile_time"] = stats.get("c05_slice_step_overflow_at_compile_time", 0) + 1
                else:
                    fails.append({"what": "panic", "program": src_prog(prog), "message": out.get("message")})
            else:
                corr_bad.append({"program": src_prog(prog), "why": "generated program does not parse", "impl": out})
            continue
        if not check_trees(prog, out):
            stats["tree_mismatch"] += 1
            corr_bad.append({"program": src_prog(prog), "why": "printed text parses to another tree",
                             "trees": [c["tree"] for c in out["consts"]], "meant": [sx(e) for _, _, e in prog]})
            continue
        rows = impl_rows(out)
        chk.count_case(src_prog(prog), nontrivial=any(c["kind"] is not None for c in out["consts"]))
        stats["cyclic_programs"] += 1 if has_cycle(prog) else 0
        stats["programs_with_errors"] += 1 if out["errors"] else 0
        if model is not None:
            mrows, prows, raw = model[i]
            model_arms(prog, raw, arm_hits)
            if mrows != rows:
                corr_bad.append({"program": src_prog(prog), "model": mrows, "impl": rows, "impl_errors": out["errors"]})
            # pure evaluator over the final cache agrees with what was published
            pub = {r[0]: r[1:] for r in rows[:rows.index([-1])]}
            for r in prows:
                if r[1] == 0 and pub.get(r[0]) != r[2:]:
                    stats["pure_vs_stateful_mismatch"] += 1
                if r[1] != 0 and r[0] in pub:
                    stats["pure_vs_stateful_mismatch"] += 1
        for f in judge(prog, out, chk, chk.findings, stats):
            f["program"] = src_prog(prog)
            fails.append(f)

    # ---- emission: static-str folding and numeric/bool const items
    fprogs = fold_programs(rng, 160 if quick else 1500)
    fimpl = run_impl(binary, fprogs, emit=True)
    fterms = ["[" + "; ".join("(%d, %s)" % (n, coq_expr(e)) for n, a, e in p if a == "str") + "]" for p in fprogs]
    fmodel = vlib.coq_eval(REQ, "sdecls", "render_fold", fterms, shard=150, tag="c06fold") if model_ok else None
    stats.update({"fold_programs": len(fprogs), "fold_emitted": 0, "fold_concat_items": 0, "fold_rejected_by_checker": 0})
    for i, (prog, out) in enumerate(zip(fprogs, fimpl)):
        chk.count_case("fold:" + src_prog(prog), nontrivial="ok" in (out.get("emit") or {}))
        if out.get("parse") != "ok" or not check_trees(prog, out):
            corr_bad.append({"program": src_prog(prog), "why": "fold program does not parse as meant"})
            continue
        if out["errors"]:
            stats["fold_rejected_by_checker"] += 1   # cycles / forward garbage: nothing is emitted
            continue
        em = out["emit"]
        if "ok" not in em:
            fails.append({"what": "emit-error", "program": src_prog(prog), "message": em.get("err")})
            continue
        stats["fold_emitted"] += 1
        items = {name_id(c["name"]): c for c in em["ok"]}
        orc = Oracle(prog)
        rows = []
        static = {n for n, a, _ in prog if a == "str"}
        for n, a, e in prog:
            if a != "str":
                continue
            init = items[n]["init"]
            if e[0] == "node" and e[1] == ("bin", "+"):
                for side, x in zip(("left", "right"), e[2]):
                    arm_hits["to_lit:%s:%s" % (side, "literal" if x[0] == "lit" else ("static-str const" if x[0] == "id" and x[1] in static
                                                else ("other const" if x[0] == "id" else "nested")))] += 1
            if init[0] == "macro" and init[1] == "concat" and len(init) == 4 and init[2][0] == "str" and init[3][0] == "str":
                rows.append([n, 1, len(init[2][1])] + init[2][1] + [len(init[3][1])] + init[3][1])
                stats["fold_concat_items"] += 1
            elif e[0] == "node" and e[1] == ("bin", "+"):
                rows.append([n, 0])
            elif init[0] == "str" and e[0] == "lit":
                rows.append([n, 2, len(init[1])] + init[1])
            else:
                rows.append([n, 3])
            # oracle: whatever constant text was emitted must be the run-time value
            try:
                v = rust_eval(init, {})
            except NoEval:
                v = None
            pv = orc.value(n)
            if v is not None and pv[0] == "val" and v != pv[1]:
                fails.append({"what": "folded-literal-differs", "program": src_prog(prog), "const": cname(n),
                              "emitted": init, "run_time": repr(pv[1])})
        for r in rows:
            arm_hits["emit_add:" + {0: "not folded", 1: "concat!", 2: "literal", 3: "reference / other"}[r[1]]] += 1
        if fmodel is not None and [list(r) for r in fmodel[i]] != rows:
            corr_bad.append({"program": src_prog(prog), "why": "concat! folding differs", "model": fmodel[i], "impl": rows})

    # numeric / bool / tuple const items: emitted Rust const expression evaluates to the run-time value
    nprogs = [p for k, p in progs if k == "random"][: (250 if quick else 2000)]
    nprogs += [BuildGen(rng, rng.randint(3, 10)).program() for _ in range(80 if quick else 800)]
    nprogs += [p for k, p in progs if k in ("arm:coll", "arm:un", "scale:intmax")] + [p for k, p in progs if k == "scale:list" and len(p[0][2][2]) <= 65]
    nimpl = run_impl(binary, nprogs, emit=True)
    stats.update({"emit_items_evaluated": 0, "emit_items_with_nonconst_call": 0, "emit_rejected": 0})
    for prog, out in zip(nprogs, nimpl):
        if out.get("parse") != "ok" or out["errors"] or "ok" not in (out["emit"] or {}):
            stats["emit_rejected"] += 1
            continue
        orc = Oracle(prog)
        vals = {}
        for c in out["emit"]["ok"]:
            n = name_id(c["name"])
            if has_call(c["init"]):
                stats["emit_items_with_nonconst_call"] += 1      # C02: const-nonconst-call
                continue
            try:
                v = rust_eval(c["init"], vals)
            except NoEval:
                continue
            vals[c["name"]] = v
            pv = orc.value(n)
            if pv[0] != "val" or pv[1][0] not in ("int", "bool", "str", "float") or pv[1][1] is None:
                continue
            stats["emit_items_evaluated"] += 1
            chk.count_case("emit:" + c["name"] + src_prog(prog))
            if v[0] != pv[1][0] or v[1] != pv[1][1]:
                not_over_cmp = any(x[0] == "node" and x[1] == ("un", "not") and level(x[2][0]) < L_UN for x in subexprs(dict((a, b) for a, _, b in prog)[n]))
                neg_pow = any(x[0] == "node" and x[1] == ("bin", "**") and level(x[2][0]) == L_UN and x[2][0][0] == "node" for x in subexprs(dict((a, b) for a, _, b in prog)[n]))
                if not_over_cmp or neg_pow:
                    stats["emit_c01_grouping"] = stats.get("emit_c01_grouping", 0) + 1   # C01 grouping: `not a == b` -> `!a == b`
                else:
                    fails.append({"what": "emitted-const-differs", "program": src_prog(prog), "const": c["name"],
                                  "emitted": c["init"], "rust_value": repr(v), "run_time": repr(pv[1])})

    if not quick:
        build_tier(chk, rng, stats, fails)

    function_body_agreement(binary, [p for k, p in sc_progs if k == "shortcircuit:defect"],
                            {src_prog(p): o for (k, p), o in zip(progs, impl)}, chk, stats, fails)
    deep_chains(binary, deep, chk, stats, fails)
    spec_corpus(binary, stats, fails)
    repo_corpus(binary, chk, stats, fails)
    zero = [a for a in REQUIRED_ARMS + ["to_lit:left:literal", "to_lit:left:static-str const", "to_lit:left:other const", "to_lit:left:nested",
                                        "to_lit:right:literal", "to_lit:right:static-str const", "to_lit:right:other const",
                                        "emit_add:not folded", "emit_add:concat!", "emit_add:literal", "emit_add:reference / other"]
            if model_ok and arm_hits.get(a, 0) == 0]
    chk.coverage["model_arm_hits"] = dict(sorted(arm_hits.items()))
    chk.coverage["model_arms_unreachable"] = ["by_name:EUnknownSym (only declared names are looked up)", "combine:EMalformed (arity the parser cannot produce)",
                                              "check_decl:ECannotInfer (needs a None literal: outside the model, pinned by the spec corpus)",
                                              "combine:EEmptyColl:1 (`{}` is the empty dict)", "sresolve:visiting (cycles are rejected before emission)"]

    # ---- known findings: replay the witnesses
    for f in chk.findings:
        if f.get("status") != "known" or f["id"] not in WITNESSES or f["id"] in REPAIRED:
            continue
        idx = [k for k, _ in progs].index("witness:" + f["id"])
        if witness_reproduces(f["id"], impl[idx]):
            chk.known(f["id"], "%s: %s" % (f["id"], f["summary"]))

    chk.coverage["rule"] = ("one case = one generated program of 1-6 consts (all dependency digraphs on <= 3 consts, sampled ones on 4 (6), "
                            "type-directed random initializers with 4% ill-typed/disallowed leaves), a str-folding program, or one emitted const item; "
                            "non-trivial when the checker published at least one const; distinct by source text")
    chk.coverage["distribution"] = dist
    chk.coverage["stats"] = stats
    chk.coverage["traces_validated_against_impl"] = (len(plist) + len(fprogs)) if model_ok else 0
    chk.coverage["correspondence_mismatches"] = len(corr_bad)
    chk.coverage["generator_constructs"] = ("int/float/bool/str/bytes literals, const refs (forward too), undeclared names, - not, all 18 binary "
                                            "operators, index, slice (all 8 shapes), tuple/list/set/dict, Paren/Call/self")
    for _, p in progs[:2] + progs[-4:]:
        chk.sample(src_prog(p, main=False))
    per_kind = collections.defaultdict(list)
    for f in fails:
        per_kind[f.get("what")].append(f)
    for fl in per_kind.values():            # a frequent kind of failure must not hide a second one
        for f in fl[:max(3, 20 // len(per_kind))]:
            chk.violation("failing-input", f)
    if not fails:
        if corr_bad:
            chk.violation("correspondence-broken", {"theorem_or_tie": "C06 model/implementation correspondence", "cases": corr_bad[:8]}, no_input=True)
        if model is not None and stats["pure_vs_stateful_mismatch"]:
            chk.violation("correspondence-broken", {"theorem_or_tie": "pure evaluator vs stateful evaluator (error half of the link)",
                                                    "count": stats["pure_vs_stateful_mismatch"]}, no_input=True)
        if not res["proofs_ok"] or not res["tie_ok"]:
            chk.violation("proof-broken", {"theorem_or_tie": res["broken"]}, no_input=True)
    if zero and not chk.violations:
        raise vlib.Infra("C06 generator bug: model arms with zero hits: %s" % zero)


# ----------------------------------------------------------------------------- fixed inputs outside the model
SPEC = [
    # (source, published type of X or None, must-have error prefix or None)   — the `expected`-type path and None literals
    ("const X: List[int] = []\n", ["flist", "int"], None),
    ("const X: FrozenList[int] = []\n", ["flist", "int"], None),
    ("const X: Dict[str, int] = {}\n", "any", None),
    ("const X: FrozenDict[str, int] = {}\n", "any", None),
    ("const X: FrozenSet[int] = {1}\n", ["fset", "int"], None),
    ("const X = []\n", "any", "Cannot infer type for empty const list"),
    ("const X = {}\n", "any", "Cannot infer type for empty const dict"),
    ("const X = None\n", "any", "Cannot infer type for None"),
    ("const X: List[int] = [1, 2.5]\n", None, "Type mismatch"),
    ("const X: int = 1\nconst Y: List[int] = [X, X]\n", "int", None),
]


def shortcircuit_programs():
    """`and` / `or` whose LEFT operand decides the result at run time, with something in the RIGHT operand that must not
    go unnoticed at compile time: a dependency-cycle edge (self cycle, 2- and 3-rings; directly, under `not`, inside a
    nested and/or) or a defect a function body would be rejected for (undeclared name, ill-typed operand)."""
    out = []
    T, F = lit("bool", True), lit("bool", False)
    D = 9        # const C9 = <deciding literal>: a decider that is a const reference
    deciders = [("and", F, None), ("or", T, None), ("and", node(("un", "not"), T), None), ("or", node(("un", "not"), F), None),
                ("and", ("id", D), F), ("or", ("id", D), T), ("or", node(("bin", "or"), T, F), None)]
    wraps = [lambda x: x, lambda x: node(("un", "not"), x), lambda x: node(("bin", "and"), x, T),
             lambda x: node(("bin", "and"), T, x), lambda x: node(("bin", "or"), F, x)]

    def guarded(op, left, x):
        ll, rl = operand_levels(("bin", op))
        assert level(left) >= ll
        return node(("bin", op), left, x if level(x) >= rl else x)

    for n in (1, 2, 3):
        for op, left, dval in deciders:
            for w in wraps:
                for guarded_edges in ("all", "first"):
                    prog = []
                    for i in range(n):
                        nxt = ("id", (i + 1) % n)
                        body = w(nxt)
                        if level(body) < operand_levels(("bin", op))[1]:
                            continue
                        e = node(("bin", op), left, body) if (guarded_edges == "all" or i == 0) else nxt
                        prog.append((i, "bool", e))
                    if len(prog) != n:
                        continue
                    if dval is not None:
                        prog.append((D, "bool", dval))
                    out.append(("shortcircuit:cycle", prog))
    bads = [("id", -1), node(("un", "not"), ("id", -2)), node(("un", "not"), lit("int", 1)), node(("bin", "and"), lit("int", 1), T),
            node(("bin", "<"), lit("str", "a"), lit("int", 1)), node(("bin", "=="), node(("bin", "+"), lit("int", 1), lit("str", "a")), lit("int", 2)),
            node(("bin", "and"), ("id", -1), T), node(("bin", "in"), lit("int", 1), lit("int", 2))]
    for op, left, dval in deciders + [("and", T, None), ("or", F, None)]:       # the last two: left does NOT decide
        for bad in bads:
            if level(bad) < operand_levels(("bin", op))[1]:
                continue
            prog = [(0, "bool", node(("bin", op), left, bad))]
            if dval is not None:
                prog.append((D, "bool", dval))
            out.append(("shortcircuit:defect", prog))
    return out


def function_body_agreement(binary, defect_progs, impl_by_src, chk, stats, fails):
    """a const initializer that is ACCEPTED must also be accepted as the body expression of a function: check the same
    expression in `def probe() -> bool: return <e>` with the real checker; rejected there but accepted as a const
    (nothing reported, const published) is under-reporting.  (Over-reporting in a dead right operand is the listed
    finding eager-and-or and is not judged here.)"""
    texts = []
    for p in defect_progs:
        n, a, e = p[0]
        lines = ["const %s: bool = %s" % (cname(m), src(x)) for m, _, x in p[1:]]
        lines += ["", "def probe() -> bool:", "    return %s" % src(e), "", "def main() -> None:", "    println(probe())"]
        texts.append("\n".join(lines) + "\n")
    outs = [json.loads(l) for l in vlib.run_harness(binary, ["run", "c06"],
                                                    "\n".join(json.dumps({"src": t, "emit": False}) for t in texts) + "\n").split("\n") if l]
    stats.update({"function_body_pairs": len(texts), "function_body_rejected": 0})
    for p, t, fb in zip(defect_progs, texts, outs):
        as_const = impl_by_src.get(src_prog(p))
        if fb.get("parse") != "ok" or as_const is None or as_const.get("parse") != "ok":
            continue
        chk.count_case("fnbody:" + t)
        if fb["errors"]:
            stats["function_body_rejected"] += 1
            if not as_const["errors"]:
                fails.append({"what": "accepted-as-const-rejected-in-function-body", "program": src_prog(p),
                              "function_body_program": t, "function_body_diagnostics": [m for _, m in fb["errors"]][:3],
                              "const_published": as_const["consts"][0]})


DEEP_CHAIN = 200


def deep_chains(binary, deep, chk, stats, fails):
    """const reference chains deeper than DEEP_CHAIN: eval_const_by_name / eval_const_expr recurse on the machine stack
    (about 35 KB per link in a debug build), so the front end may die with a stack overflow instead of answering.
    Known finding deep-const-chain-stack-overflow; anything but a clean answer or that crash is a failure."""
    stats.update({"deep_chain_programs": len(deep), "deep_chain_crashes": 0})
    known = any(f["id"] == "deep-const-chain-stack-overflow" and f.get("status") == "known" for f in chk.findings)
    for k, p in deep:
        text = json.dumps({"src": src_prog(p), "emit": False}) + "\n"
        rc, out, err = vlib.sh([binary, "run", "c06"], input=text, timeout=600)
        chk.count_case("deep:" + k)
        if rc == 0:
            o = json.loads(out.strip().split("\n")[0])
            if o.get("parse") != "ok" or o["errors"] or any(c["kind"] is None for c in o["consts"]):
                fails.append({"what": "deep-chain-wrong-answer", "program": k, "impl": str(o)[:400]})
            continue
        stats["deep_chain_crashes"] += 1
        if "overflowed its stack" in err and known:
            chk.known("deep-const-chain-stack-overflow", "deep-const-chain-stack-overflow: a chain of %d consts each defined from the next "
                      "kills the compiler (stack overflow, SIGABRT) instead of being evaluated: the const evaluator recurses once per link" % len(p))
        else:
            fails.append({"what": "front-end-crash", "program": "%s: const C0 = C1 + 1 ... const C%d = 1" % (k, len(p) - 1),
                          "rc": rc, "stderr": err[-300:]})


def spec_corpus(binary, stats, fails):
    text = "\n".join(json.dumps({"src": src, "emit": False}) for src, _, _ in SPEC) + "\n"
    outs = [json.loads(l) for l in vlib.run_harness(binary, ["run", "c06"], text).split("\n") if l]
    stats["spec_corpus"] = len(SPEC)
    for (src, ty, err), out in zip(SPEC, outs):
        if out.get("parse") != "ok":
            fails.append({"what": "spec-corpus-parse", "program": src, "impl": out})
            continue
        msgs = [m for _, m in out["errors"]]
        x = out["consts"][0]
        bad = None
        if err is None and msgs:
            bad = "unexpected diagnostics %r" % msgs
        if err is not None and not any(m.startswith(err) for m in msgs):
            bad = "expected a diagnostic starting with %r, got %r" % (err, msgs)
        if ty is None and x["kind"] is not None:
            bad = "nothing should be published, got %r" % x
        if ty not in (None, "any") and x["ty"] != ty:
            bad = "published type %r, expected %r" % (x["ty"], ty)
        if bad:
            fails.append({"what": "spec-corpus", "program": src, "why": bad})


def parse_sx(s, ids):
    """harness S-expression -> tree (names mapped to ids through `ids`)"""
    toks = s.replace("(", " ( ").replace(")", " ) ").split()
    pos = [0]

    def atom(t):
        if t[0] == "i" and t[1:].lstrip("-").isdigit():
            return lit("int", int(t[1:]))
        if t[0] == "f" and t[1:].isdigit():
            return lit("float", int(t[1:]))
        if t in ("b0", "b1"):
            return lit("bool", t == "b1")
        if t.startswith("s["):
            return lit("str", "".join(chr(int(x)) for x in t[2:-1].split(",") if x))
        if t.startswith("y["):
            return lit("bytes", [int(x) for x in t[2:-1].split(",") if x])
        if t.startswith("@"):
            return ("id", ids.setdefault(t[1:], -1000 - len(ids)))
        if t == "_":
            return None
        raise ValueError(t)

    def go():
        t = toks[pos[0]]
        pos[0] += 1
        if t != "(":
            return atom(t)
        head = toks[pos[0]]
        pos[0] += 1
        ch = []
        while toks[pos[0]] != ")":
            ch.append(go())
        pos[0] += 1
        if head in ("neg", "not"):
            return node(("un", head), *ch)
        if head in ("tuple", "list", "set", "dict"):
            return node((head,), *ch)
        if head == "index":
            return node(("index",), *ch)
        if head == "slice":
            return node(("slice",) + tuple(c is not None for c in ch[1:]), *[c for c in ch if c is not None])
        if head in ("paren", "call", "other"):
            return node(("other", "paren"))
        return node(("bin", head.replace("_", " ")), *ch)
    return go()


def repo_corpus(binary, chk, stats, fails):
    """every .incn file of the repository that declares consts: the checker must accept what the repository ships and
    every published value must be the Python value of the initializer"""
    files = []
    for root in ("examples", "tests", "docs", "benchmarks", "crates"):
        for d, _, fs in os.walk(os.path.join(vlib.REPO, root)):
            for f in fs:
                if f.endswith(".incn"):
                    pth = os.path.join(d, f)
                    try:
                        txt = open(pth, encoding="utf-8").read()
                    except (OSError, UnicodeDecodeError):
                        continue
                    if "\nconst " in "\n" + txt or "\npub const " in "\n" + txt:
                        files.append((os.path.relpath(pth, vlib.REPO), txt))
    files.sort()
    stats.update({"repo_corpus_files": len(files), "repo_corpus_consts": 0, "repo_corpus_values_checked": 0})
    if not files:
        return
    text = "\n".join(json.dumps({"src": t, "emit": False}) for _, t in files) + "\n"
    outs = [json.loads(l) for l in vlib.run_harness(binary, ["run", "c06"], text).split("\n") if l]
    for (rel, txt), out in zip(files, outs):
        if out.get("parse") != "ok":
            continue            # fixtures that are not single-file programs (imports of sibling modules, negative tests)
        ids = {c["name"]: i for i, c in enumerate(out["consts"])}
        try:
            prog = [(ids[c["name"]], None, parse_sx(c["tree"], ids)) for c in out["consts"]]
        except (ValueError, IndexError):
            continue
        orc = Oracle(prog)
        for c in out["consts"]:
            stats["repo_corpus_consts"] += 1
            chk.count_case("repo:" + rel + ":" + c["name"])
            pv = orc.value(ids[c["name"]])
            if c["value"] is not None and pv[0] == "val":
                stats["repo_corpus_values_checked"] += 1
                if not same_value(c["value"], pv[1]):
                    fails.append({"what": "value", "program": rel, "const": c["name"], "published": c["value"], "run_time": repr(pv[1])})
            if c["ty"] is not None and pv[0] == "val" and not py_has_type(pv[1], c["ty"]):
                fails.append({"what": "type", "program": rel, "const": c["name"], "published_type": c["ty"], "run_time": repr(pv[1])})


# ----------------------------------------------------------------------------- thorough: real cargo
class BuildGen:
    """programs inside the fragment whose consts rustc accepts as const items: int/float/bool literals, const
    references, unary - / not (on atoms), + - * on numbers, numeric comparisons, and/or, `str` literals and one `+`
    of literals / str consts.  (`/ // % **`, str comparisons, `in`, index, slice and frozen collections either emit
    non-const calls or are rejected by the emitter: C02.)"""

    def __init__(self, rng, n):
        self.rng, self.n = rng, n
        self.types = {}

    def atom(self, ty, k):
        r = self.rng
        cands = [j for j in range(k) if self.types[j] == ty]
        if cands and r.random() < 0.5:
            return ("id", r.choice(cands))
        if ty == "int":
            return lit("int", r.randint(0, 40))
        if ty == "float":
            return lit("float", fbits(r.choice([0.0, 0.5, 1.0, 1.5, 2.0, 2.5, 3.25, 10.0, 100.125, 0.1])))
        if ty == "bool":
            return lit("bool", r.random() < 0.5)
        return lit("str", r.choice([x for x in STR_POOL if "\\" not in x and "\n" not in x]))

    def expr(self, ty, k, depth):
        r = self.rng
        if depth <= 0 or r.random() < 0.3:
            return self.atom(ty, k)
        if ty == "int" or ty == "float":
            if r.random() < 0.2:
                a = self.atom(ty, k)
                return node(("un", "neg"), a)
            op = r.choice(["+", "-", "*"])
            lt = ty if ty == "int" else r.choice(["int", "float"])
            rt = ty if (ty == "int" or lt == "int") else r.choice(["int", "float"])
            l, rr = self.expr(lt, k, depth - 1), self.expr(rt, k, depth - 1)
            ll, rl = operand_levels(("bin", op))
            l = l if level(l) >= ll else self.atom(lt, k)
            rr = rr if level(rr) >= rl else self.atom(rt, k)
            return node(("bin", op), l, rr)
        if ty == "bool":
            x = r.random()
            if x < 0.2:
                return node(("un", "not"), self.atom("bool", k))
            if x < 0.55:
                op = r.choice(["and", "or"])
                l, rr = self.expr("bool", k, depth - 1), self.expr("bool", k, depth - 1)
                ll, rl = operand_levels(("bin", op))
                l = l if level(l) >= ll else self.atom("bool", k)
                rr = rr if level(rr) >= rl else self.atom("bool", k)
                return node(("bin", op), l, rr)
            # same-kind operands without int->float promotion: `x as f64 < y` does not parse as Rust
            # (a C02 defect of the emitter, identical for consts and function bodies)
            op = r.choice(CMP)
            t1 = r.choice(["int", "float"])
            if t1 == "int":
                l, rr = self.expr("int", k, depth - 1), self.expr("int", k, depth - 1)
            else:
                def pure():
                    if r.random() < 0.5:
                        return self.atom("float", k)
                    return node(("bin", r.choice(["+", "-", "*"])), self.atom("float", k), self.atom("float", k))
                l, rr = pure(), pure()
            l = l if level(l) >= L_ADD else self.atom(t1, k)
            rr = rr if level(rr) >= L_ADD else self.atom(t1, k)
            return node(("bin", op), l, rr)
        if r.random() < 0.6:
            return node(("bin", "+"), self.atom("str", k), self.atom("str", k))
        return self.atom("str", k)

    def program(self):
        prog = []
        for k in range(self.n):
            for _ in range(20):
                ty = self.rng.choice(["int", "int", "float", "bool", "str"])
                self.types[k] = ty
                e = self.expr(ty, k, self.rng.choice([1, 2, 3]))
                o = Oracle(prog + [(k, ty, e)])
                v = o.value(k)
                if v[0] == "val" and v[1][1] is not None and not (ty == "int" and abs(v[1][1]) > 10**9) \
                        and not (ty == "float" and abs(v[1][1]) > 1e12):
                    break
            else:
                e = self.atom(ty, 0)
            prog.append((k, ty, e))
        return prog


def build_tier(chk, rng, stats, fails, batches=14, per=28):
    """the same expression as a `const` and inside a function body, built with real cargo, outputs compared"""
    binary = vlib.build_harness("debug")
    root = os.path.join(vlib.BUILD, "c06-proj-%d" % os.getpid())
    target = os.path.join(vlib.BUILD, "gen-target")
    stats.update({"build_batches": 0, "build_failed": 0, "build_pairs_compared": 0})
    try:
        for b in range(batches):
            prog = BuildGen(rng, per).program()
            lines = []
            for n, a, e in prog:
                lines.append("const %s: %s = %s" % (cname(n), src_ty(a), src(e)))
            lines += ["", "def main() -> None:"]
            for n, a, e in prog:
                lines += ["    println(%s)" % cname(n), "    println(%s)" % src(e)]
            text = "\n".join(lines) + "\n"
            d = os.path.join(root, "b%d" % b)
            out = json.loads(vlib.run_harness(binary, ["run", "c06"], json.dumps({"src": text, "project": d, "name": "c06batch"}) + "\n"))
            if out.get("project") != "written":
                fails.append({"what": "buildable-program-rejected", "program": text, "message": out})
                continue
            stats["build_batches"] += 1
            env = {"CARGO_TARGET_DIR": target}
            rc, so, se = vlib.sh(["cargo", "build", "--release", "--offline", "--quiet"], cwd=d, env=env, timeout=1800)
            if rc != 0:
                stats["build_failed"] += 1
                chk.notes.append("build tier: batch %d does not build: %s" % (b, se[-600:]))
                continue
            rc, so, se = vlib.sh([os.path.join(target, "release", "c06batch")], timeout=60)
            outl = so.split("\n")
            orc = Oracle(prog)
            if rc != 0 or len(outl) < 2 * len(prog):
                fails.append({"what": "built-program-failed", "program": text, "rc": rc, "stderr": se[-500:]})
                continue
            for i, (n, a, e) in enumerate(prog):
                kc, kf = outl[2 * i], outl[2 * i + 1]
                stats["build_pairs_compared"] += 1
                chk.count_case("build:" + cname(n) + text)
                pv = orc.value(n)[1]
                want = {"int": lambda: str(pv[1]), "bool": lambda: "true" if pv[1] else "false", "str": lambda: pv[1],
                        "float": lambda: None}[a]()
                okf = a != "float" or (float(kc) == pv[1])
                if kc != kf or (want is not None and kc != want) or not okf:
                    fails.append({"what": "const-differs-from-function-body", "program": text, "const": cname(n),
                                  "as_const": kc, "in_function": kf, "python": repr(pv)})
        if stats["build_batches"] and stats["build_failed"] * 2 > stats["build_batches"]:
            raise vlib.Infra("C06 build tier: more than half of the batches do not build (see notes)")
    finally:
        shutil.rmtree(root, ignore_errors=True)


def replay(path):
    data = json.load(open(path))
    binary = vlib.build_harness("debug")
    for v in data["violations"]:
        d = v["detail"]
        if "program" in d:
            print("--- program\n" + d["program"])
            out = vlib.run_harness(binary, ["run", "c06"], json.dumps({"src": d["program"], "emit": True}) + "\n").strip()
            print("implementation:", out)
            print("recorded:", json.dumps({k: x for k, x in d.items() if k != "program"}, default=str))
        else:
            print(json.dumps(d, indent=1, default=str))
    return 0
