"""C09 — formatting is idempotent and consistent with --check.

proof:   coq/C09/Props.v: token-level idempotence as a corollary of the C08 round trip (Fmt/Roundtrip.v), the writer /
         format_program model (every non-empty output ends in exactly one newline), the format_files model
         (check/diff read-only, fmt writes exactly the changed files, check-after-fmt exits 0).
         coq/C09/PropsLayout.v: CHARACTER-level model of FormatWriter + the statement/declaration level of formatter.rs
         (coq/Fmt/Writer.v) over a skeleton AST with opaque clean atoms: no trailing whitespace, no tab, exactly one final
         newline, indentation = nesting level * indent_width, for ALL programs of the skeleton.
tie:     the Coq format_program model evaluated on the real per-declaration texts must give the real whole-file text;
         the Coq format_files model evaluated on the measured per-file statuses must give the real exit code and the
         set of files the real `format_files` (the function `incan fmt` dispatches to) modified;
         layout tie: real parser -> real AST -> skeleton (atoms printed by the REAL formatter) -> Coq `format w p`
         (vm_compute) == the real Formatter's output, code point for code point, widths 4/2/1/8/0, nesting 0..17.
oracle:  on the implementation: fmt(fmt(x)) == fmt(x), hygiene of every output (final newlines, tabs, trailing blanks
         outside string tokens, located with the real lexer), check_formatted/format_diff consistency, and the CLI
         modes on scratch copies with content hashes and exit codes."""
import hashlib
import json
import os
import shutil
import time

import vlib
from checks import c08


def sha(path):
    return hashlib.sha1(open(path, "rb").read()).hexdigest()


def cli(binary, mode, d):
    out = vlib.run_harness(binary, ["run", "c09", mode, d], "")
    last = [l for l in out.split("\n") if l.startswith("@@C09 ")]
    if not last:
        raise vlib.Infra("c09 runner printed no result line: " + out[-500:])
    p = last[-1].split(" ", 3)
    return p[1], int(p[2]), (p[3] if len(p) > 3 else "")


def status_of(r):
    if r.get("parse") != "ok" or "fmt" in r["whole"]:
        return "Unparseable"
    return "Same" if r["whole"]["src_eq_fmt"] else "Changed"


def coq_files(mode, sts):
    return "render_result (format_files {| check := %s; diff := %s |} [%s])" % (
        "true" if mode in ("check", "checkdiff") else "false", "true" if mode in ("diff", "checkdiff") else "false", "; ".join(sts))


def cli_scenarios(chk, binary, items, known, c08_known, fails, corr_bad):
    """-> number of CLI runs compared with the model"""
    clean, risky = [], []
    for origin, src, r in items:
        if r.get("parse") != "ok" or "fmt" in r["whole"]:
            continue
        cls = set(c for d in r["decls"] for c in d["classes"] if not c.startswith("N:"))
        ok = all(d["reparse"] == "ok" and d.get("equal") and d.get("idem") for d in r["decls"])
        if not cls and ok and r["whole"].get("idem") and len(clean) < 14:
            clean.append((src, r))
        elif any(d["reparse"] != "ok" for d in r["decls"]) and len(risky) < 3:
            risky.append((src, r))
    base = os.path.join(vlib.BUILD, "c09-cli-%d" % os.getpid())
    shutil.rmtree(base, ignore_errors=True)
    runs = []          # (scenario, step, mode, statuses, real (kind, code), written flags)
    try:
        for scen in ("clean", "mixed"):
            d = os.path.join(base, scen)
            os.makedirs(d)
            files = []   # (name, source, status, formatted-or-None)
            for i, (src, r) in enumerate(clean):
                files.append(("c%02d.incn" % i, src, status_of(r), r["whole"].get("text")))
            for i, (src, r) in enumerate(clean[:3]):   # already formatted files
                t = c08.run_decls(binary, [src], text=True)[0]["whole"]["text"]
                files.append(("f%02d.incn" % i, t, "Same", t))
            if scen == "mixed":
                files.append(("u00.incn", "def broken(:\n", "Unparseable", None))
                for i, (src, r) in enumerate(risky):
                    files.append(("r%02d.incn" % i, src, status_of(r), None))
            texts = {}
            res = c08.run_decls(binary, [f[1] for f in files], text=True)
            files = [(n, s, status_of(r), r["whole"].get("text") if r.get("parse") == "ok" else None) for (n, s, _, _), r in zip(files, res)]
            files.sort()
            for n, s, st, t in files:
                open(os.path.join(d, n), "w").write(s)
            cur = {n: s for n, s, _, _ in files}
            sts = {n: st for n, _, st, _ in files}
            fmt_of = {n: t for n, _, _, t in files}
            for step, mode in enumerate(["check", "diff", "checkdiff", "fmt", "check", "fmt"]):
                before = {n: sha(os.path.join(d, n)) for n in cur}
                kind, code, msg = cli(binary, mode, d)
                after = {n: sha(os.path.join(d, n)) for n in cur}
                written = [before[n] != after[n] for n in sorted(cur)]
                order = sorted(cur)
                runs.append((scen, step, mode, [sts[n] for n in order], (kind, code), written))
                # --- property, judged directly
                if mode != "fmt" and any(written):
                    fails.append({"why": "`incan fmt --%s` modified files" % mode, "scenario": scen, "files": [n for n, w in zip(order, written) if w],
                                  "source": cur[[n for n, w in zip(order, written) if w][0]]})
                if kind == "panic":
                    fails.append({"why": "format_files panicked: " + msg, "scenario": scen, "source": ""})
                if mode == "fmt":
                    for n in order:
                        new = open(os.path.join(d, n)).read()
                        want = fmt_of[n] if (sts[n] == "Changed" and fmt_of[n] is not None) else cur[n]
                        if new != want:
                            fails.append({"why": "`incan fmt` left %s with contents other than format_source(old contents)" % n, "scenario": scen,
                                          "source": cur[n], "expected": want, "actual": new})
                        cur[n] = new
                    # statuses of the new contents
                    res2 = c08.run_decls(binary, [cur[n] for n in order], text=True)
                    for n, r2 in zip(order, res2):
                        sts[n] = status_of(r2)
                        fmt_of[n] = r2["whole"].get("text") if r2.get("parse") == "ok" else None
                if mode == "check" and step == 4:
                    # immediately after `incan fmt`: must exit 0; a failure is excused only by files whose formatted text is not re-parsable (listed)
                    bad = [n for n in order if sts[n] != "Same" and not n.startswith("u")]
                    if scen == "clean" and (kind != "ok" or code != 0):
                        fails.append({"why": "`incan fmt --check` right after `incan fmt` exits %s %d on a directory of parseable files" % (kind, code),
                                      "scenario": scen, "source": cur[order[0]], "not_clean": bad})
                    if scen == "mixed" and bad and "fmt-not-reparsable" not in known:
                        fails.append({"why": "`--check` after `fmt` fails for %s" % bad, "scenario": scen, "source": cur[bad[0]]})
    finally:
        shutil.rmtree(base, ignore_errors=True)
    # --- tie with the Coq model of format_files
    req = "From Coq Require Import ZArith List.\nImport ListNotations.\nFrom Verif Require Import C09.Model.\nOpen Scope Z_scope."
    got = vlib.coq_eval(req, "list Z", "fun x => x", [coq_files(m, s) for _, _, m, s, _, _ in runs], tag="c09cli")
    for (scen, step, mode, sts, (kind, code), written), g in zip(runs, got):
        chk.count_case(("cli", scen, step, mode), nontrivial=True)
        want = [0 if kind == "ok" else 1] + [1 if w else 0 for w in written]
        real_code = code if kind != "ok" else 0
        if list(g) != [real_code] + [1 if w else 0 for w in written]:
            corr_bad.append({"why": "format_files model and implementation disagree", "scenario": scen, "step": step, "mode": mode, "statuses": sts,
                             "model": list(g), "impl": [real_code] + [1 if w else 0 for w in written]})
    return len(runs)


def program_tie(chk, binary, items, corr_bad):
    """Coq format_program/writer model on the real per-declaration texts vs the real whole-file text."""
    cases = []
    for origin, src, r in items:
        if r.get("parse") != "ok" or "fmt" in r["whole"] or not (1 <= r["n"] <= 4):
            continue
        cases.append(src)
        if len(cases) >= (40 if chk.tier == "quick" else 300):
            break
    res = c08.run_decls(binary, cases, text=True)
    terms, wants = [], []
    for src, r in zip(cases, res):
        if len(r["whole"]["text"]) > 700 or any(ord(c) > 0x10FFFF for c in r["whole"]["text"]):
            continue
        ds = []
        for d in r["decls"]:
            t = d["text"]
            body = t[:-1] if t.endswith("\n") else t          # the one-declaration program = declaration + final newline
            cmds = []
            for line in body.split("\n")[:-1] if body.endswith("\n") else body.split("\n"):
                cmds.append("W %s; NL" % vlib.zlist([ord(c) for c in line]) if line else "NL")
            cmds += ["NL"] * d["trail"]      # the blank line a trailing `match` statement leaves (trimmed only at end of file)
            ds.append("{| d_cmds := [%s]; d_doc := %s |}" % ("; ".join(cmds), "true" if d["kind"] == "Docstring" else "false"))
        terms.append("fmt_text [%s]" % "; ".join(ds))
        wants.append([ord(c) for c in r["whole"]["text"]])
    req = "From Coq Require Import ZArith List.\nImport ListNotations.\nFrom Verif Require Import C09.Model.\nOpen Scope Z_scope."
    got = vlib.coq_eval(req, "list Z", "fun x => x", terms, shard=10, tag="c09prog")
    for t, w, g in zip(terms, wants, got):
        chk.count_case(("prog", hashlib.sha1(t.encode()).hexdigest()), nontrivial=True)
        if list(g) != w:
            corr_bad.append({"why": "format_program model (blank-line policy + final newline) and format_source disagree",
                             "model_tail": list(g)[-12:], "impl_tail": w[-12:], "n_model": len(g), "n_impl": len(w)})
    return len(terms)


def indent_tie(chk, binary, corr_bad):
    """Coq writer model with indent()/dedent() commands vs the real formatter on deeply nested blocks (default width)."""
    depths = [1, 2, 15, 16, 17, 18, 31, 32, 33, 64, 65, 100]
    srcs = [c08.nest_blocks(d, ["if"]) for d in depths]
    res = c08.run_decls(binary, srcs, text=True)
    terms, wants = [], []
    for d, r in zip(depths, res):
        if r.get("parse") != "ok" or "text" not in r["whole"]:
            raise vlib.Infra("indent tie: nested source does not format: %s" % (r.get("parse"),))
        want = r["whole"]["text"]
        w = lambda t: "W %s; NL" % vlib.zlist([ord(c) for c in t])
        cmds = [w("def f(x: int, xs: List[int]) -> int:"), "IN"]
        for i in range(d):
            cmds += [w("if x > %d:" % i), "IN"]
        cmds += [w("x = x + 1")] + ["DE"] * d + [w("return x"), "DE"]
        terms.append("fmt_text [{| d_cmds := [%s]; d_doc := false |}]" % "; ".join(cmds))
        wants.append([ord(c) for c in want])
    req = "From Coq Require Import ZArith List.\nImport ListNotations.\nFrom Verif Require Import C09.Model.\nOpen Scope Z_scope."
    got = vlib.coq_eval(req, "list Z", "fun x => x", terms, shard=4, tag="c09indent")
    for d, src, w_, g in zip(depths, srcs, wants, got):
        chk.count_case(("indent-tie", d), nontrivial=True)
        if list(g) != w_:
            m = "".join(chr(c) for c in g).split("\n")
            r_ = "".join(chr(c) for c in w_).split("\n")
            first = next((i for i, (a, b) in enumerate(zip(m, r_)) if a != b), min(len(m), len(r_)))
            corr_bad.append({"why": "writer model (level n = n*4 spaces) and the formatter disagree at block depth %d" % d, "source": src,
                             "line": first + 1, "model_line": m[first] if first < len(m) else None, "impl_line": r_[first] if first < len(r_) else None})
    return len(terms)


# ------------------------------------------------------------------------------------------ layout tie (Fmt/Writer.v)
LAYOUT_REQ = ("From Coq Require Import ZArith List String.\nImport ListNotations.\n"
              "From Verif Require Import Fmt.Writer C09.Layout.\nOpen Scope string_scope.\nOpen Scope Z_scope.")


class Arms:
    """per-arm hit counts of the model (the skeleton term handed to Coq decides which arm of fmt_* runs)"""

    def __init__(self):
        self.h = {}

    def hit(self, name):
        self.h[name] = self.h.get(name, 0) + 1


def ztext(s):
    if s == "":
        return "[]"
    if all(32 <= ord(c) < 127 for c in s):
        return '(T "%s")' % s.replace('"', '""')
    return vlib.zlist([ord(c) for c in s])


def zlist_of(items):
    return "[" + "; ".join(items) + "]"


def zopt(f, o):
    return "None" if o is None else "(Some %s)" % f(o)


def zbool(b):
    return "true" if b else "false"


class Sk:
    """JSON skeleton (harness c09 layout) -> Gallina term of Fmt/Writer.v, counting model arms"""

    def __init__(self, arms):
        self.a = arms

    def expr(self, parts):
        r = "XNil"
        if not parts:
            self.a.hit("fmt_expr/XNil (empty expression)")
        for i in range(len(parts) - 1, -1, -1):
            p = parts[i]
            if p[0] == "t":
                self.a.hit("fmt_expr/XText")
                if i > 0 and parts[i - 1][0] != "t":
                    self.a.hit("fmt_expr/XText after a block expression (continuation)")
                r = "(XText %s %s)" % (ztext(p[1]), r)
            elif p[0] == "m":
                self.a.hit("fmt_expr/XMatch")
                if not p[2]:
                    self.a.hit("fmt_arms/ANil (match without arms)")
                r = "(XMatch %s %s %s)" % (self.expr(p[1]), self.arms(p[2]), r)
            else:
                if p[3] is None:
                    self.a.hit("fmt_expr/XIf")
                    r = "(XIf %s %s %s)" % (self.expr(p[1]), self.block(p[2], "if-expr then"), r)
                else:
                    self.a.hit("fmt_expr/XIfElse")
                    r = "(XIfElse %s %s %s %s)" % (self.expr(p[1]), self.block(p[2], "if-expr then"), self.block(p[3], "if-expr else"), r)
        return r

    def arms(self, arms):
        r = "ANil"
        for a in reversed(arms):
            r = "(ACons %s %s)" % (self.arm(a), r)
        return r

    def arm(self, a):
        k = a[0]
        if k == "ge":
            self.a.hit("fmt_arm/AGuardExpr")
            return "(AGuardExpr %s %s %s)" % (ztext(a[1]), self.expr(a[2]), self.expr(a[3]))
        if k == "gb":
            self.a.hit("fmt_arm/AGuardBlock")
            return "(AGuardBlock %s %s %s)" % (ztext(a[1]), self.expr(a[2]), self.block(a[3], "guarded arm"))
        if k == "e":
            self.a.hit("fmt_arm/AExpr")
            return "(AExpr %s %s)" % (ztext(a[1]), self.expr(a[2]))
        self.a.hit("fmt_arm/ABlock")
        if not a[2]:
            self.a.hit("fmt_arm/ABlock with empty body")
        return "(ABlock %s %s)" % (ztext(a[1]), self.block(a[2], None))

    def block(self, b, pass_site):
        if pass_site is not None:
            self.a.hit("pass_if_empty/%s" % ("writes pass" if not b else "non-empty body"))
        r = "BNil"
        for s in reversed(b):
            r = "(BCons %s %s)" % (self.stmt(s), r)
        return r

    def binding(self, b):
        self.a.hit("fmt_binding/" + b)
        return {"inferred": "BInferred", "let": "BLet", "mut": "BMutable", "reassign": "BReassign"}[b]

    def texts(self, xs):
        return zlist_of([ztext(x) for x in xs])

    def stmt(self, s):
        k = s[0]
        if k == "expr":
            self.a.hit("fmt_stmt/SExpr")
            return "(SExpr %s)" % self.expr(s[1])
        if k == "assign":
            self.a.hit("fmt_stmt/SAssign")
            self.a.hit("fmt_stmt/SAssign ty:%s" % ("Some" if s[3] is not None else "None"))
            return "(SAssign %s %s %s %s)" % (self.binding(s[1]), ztext(s[2]), zopt(ztext, s[3]), self.expr(s[4]))
        if k == "fassign":
            self.a.hit("fmt_stmt/SFieldAssign")
            return "(SFieldAssign %s %s %s)" % (self.expr(s[1]), ztext(s[2]), self.expr(s[3]))
        if k == "iassign":
            self.a.hit("fmt_stmt/SIndexAssign")
            return "(SIndexAssign %s %s %s)" % (self.expr(s[1]), self.expr(s[2]), self.expr(s[3]))
        if k == "compound":
            self.a.hit("fmt_stmt/SCompound")
            self.a.hit("cop_text/" + s[2])
            return "(SCompound %s C%s %s)" % (ztext(s[1]), s[2], self.expr(s[3]))
        if k == "ret0":
            self.a.hit("fmt_stmt/SReturn0")
            return "SReturn0"
        if k == "ret":
            self.a.hit("fmt_stmt/SReturn")
            return "(SReturn %s)" % self.expr(s[1])
        if k == "if":
            self.a.hit("fmt_stmt/SIf")
            el = "LNil"
            for c, b in reversed(s[3]):
                self.a.hit("fmt_elifs/LCons")
                el = "(LCons %s %s %s)" % (self.expr(c), self.block(b, "elif"), el)
            self.a.hit("fmt_oblock/" + ("ONone" if s[4] is None else "OSome"))
            e = "ONone" if s[4] is None else "(OSome %s)" % self.block(s[4], "else")
            return "(SIf %s %s %s %s)" % (self.expr(s[1]), self.block(s[2], "if"), el, e)
        if k == "while":
            self.a.hit("fmt_stmt/SWhile")
            return "(SWhile %s %s)" % (self.expr(s[1]), self.block(s[2], "while"))
        if k == "for":
            self.a.hit("fmt_stmt/SFor")
            return "(SFor %s %s %s)" % (ztext(s[1]), self.expr(s[2]), self.block(s[3], "for"))
        if k in ("pass", "break", "continue"):
            self.a.hit("fmt_stmt/S" + k.capitalize())
            return "S" + k.capitalize()
        if k == "unpack":
            self.a.hit("fmt_stmt/STupleUnpack")
            return "(STupleUnpack %s %s %s)" % (self.binding(s[1]), self.texts(s[2]), self.expr(s[3]))
        if k == "tassign":
            self.a.hit("fmt_stmt/STupleAssign")
            es = "ENil"
            for e in reversed(s[1]):
                es = "(ECons %s %s)" % (self.expr(e), es)
            return "(STupleAssign %s %s)" % (es, self.expr(s[2]))
        if k == "chained":
            self.a.hit("fmt_stmt/SChained")
            return "(SChained %s %s %s)" % (self.binding(s[1]), self.texts(s[2]), self.expr(s[3]))
        raise vlib.Infra("layout: unknown statement kind %r" % (k,))

    def decorators(self, ds):
        out = []
        for name, args in ds:
            self.a.hit("fmt_decorator/args:%s" % ("[]" if not args else "[..]"))
            av = []
            for a in args:
                if a[0] == "pos":
                    self.a.hit("fmt_darg/DPos")
                    av.append("(DPos %s)" % self.expr(a[1]))
                elif a[0] == "nty":
                    self.a.hit("fmt_darg/DNamedTy")
                    av.append("(DNamedTy %s %s)" % (ztext(a[1]), ztext(a[2])))
                else:
                    self.a.hit("fmt_darg/DNamedExpr")
                    av.append("(DNamedExpr %s %s)" % (ztext(a[1]), self.expr(a[2])))
            out.append("{| dec_name := %s; dec_args := %s |}" % (ztext(name), zlist_of(av)))
        return zlist_of(out)

    def params(self, ps):
        out = []
        for m, name, ty, d in ps:
            self.a.hit("fmt_param/mut:%s default:%s" % (zbool(m), "Some" if d is not None else "None"))
            out.append("{| p_mut := %s; p_name := %s; p_ty := %s; p_default := %s |}" % (zbool(m), ztext(name), ztext(ty), zopt(self.expr, d)))
        return zlist_of(out)

    def fields(self, fs):
        out = []
        for pub, name, ty, d in fs:
            self.a.hit("fmt_field/pub:%s default:%s" % (zbool(pub), "Some" if d is not None else "None"))
            out.append("{| f_pub := %s; f_name := %s; f_ty := %s; f_default := %s |}" % (zbool(pub), ztext(name), ztext(ty), zopt(self.expr, d)))
        return zlist_of(out)

    def body(self, b, site):
        self.a.hit("fmt_body/%s: %s" % (site, "writes pass" if not b else "statements"))
        return self.block(b, None)

    def methods(self, ms, site, blank_first):
        out = []
        for i, (decs, is_async, name, recv, params, ret, body) in enumerate(ms):
            self.a.hit("fmt_methods/%s blank line before: %s" % (site, zbool(blank_first or i > 0)))
            self.a.hit("fmt_method/recv:%s" % recv)
            self.a.hit("fmt_method/async:%s" % zbool(is_async))
            self.a.hit("fmt_method/comma after receiver:%s" % zbool(recv != "none" and bool(params)))
            self.a.hit("fmt_method/body:%s" % ("None (: ...)" if body is None else "Some"))
            b = "None" if body is None else "(Some %s)" % self.body(body, "method")
            out.append("{| m_decs := %s; m_async := %s; m_name := %s; m_recv := %s; m_params := %s; m_ret := %s; m_body := %s |}" % (
                self.decorators(decs), zbool(is_async), ztext(name), {"none": "RNone", "imm": "RImm", "mut": "RMut"}[recv],
                self.params(params), ztext(ret), b))
        return zlist_of(out)

    def ipath(self, p):
        ab, lv, segs = p
        self.a.hit("fmt_ipath/%s segments:%s" % ("crate" if ab else ("super x%d" % min(lv, 2) if lv else "plain"), "[]" if not segs else "[..]"))
        return "{| ip_abs := %s; ip_parents := %d; ip_segs := %s |}" % (zbool(ab), lv, self.texts(segs))

    def items(self, items):
        if not items:
            self.a.hit("fmt_import/items:[] (not producible by the parser)")
        out = []
        for n, al in items:
            self.a.hit("fmt_iitem/alias:%s" % ("Some" if al is not None else "None"))
            out.append("{| ii_name := %s; ii_alias := %s |}" % (ztext(n), zopt(ztext, al)))
        return zlist_of(out)

    def tps(self, tps, site):
        self.a.hit("fmt_type_params/%s" % ("[]" if not tps else "[..]"))
        return self.texts(tps)

    def decl(self, d):
        k = d[0]
        if k == "import":
            kind = d[1]
            self.a.hit("fmt_import/" + kind[0])
            self.a.hit("fmt_alias/%s" % ("Some" if d[2] is not None else "None"))
            if kind[0] == "module":
                kk = "(IModule %s)" % self.ipath(kind[1])
            elif kind[0] == "from":
                kk = "(IFrom %s %s)" % (self.ipath(kind[1]), self.items(kind[2]))
            elif kind[0] == "python":
                kk = "(IPython %s)" % ztext(kind[1])
            elif kind[0] == "rustcrate":
                self.a.hit("fmt_import/rustcrate path:%s" % ("[]" if not kind[2] else "[..]"))
                kk = "(IRustCrate %s %s)" % (ztext(kind[1]), self.texts(kind[2]))
            else:
                kk = "(IRustFrom %s %s %s)" % (ztext(kind[1]), self.texts(kind[2]), self.items(kind[3]))
            return "(DImport %s %s)" % (kk, zopt(ztext, d[2]))
        if k == "const":
            self.a.hit("fmt_decl/DConst")
            self.a.hit("fmt_decl/DConst ty:%s" % ("Some" if d[3] is not None else "None"))
            self.a.hit("fmt_vis/%s" % zbool(d[1]))
            return "(DConst %s %s %s %s)" % (zbool(d[1]), ztext(d[2]), zopt(ztext, d[3]), self.expr(d[4]))
        if k in ("model", "class"):
            if k == "model":
                _, pub, decs, name, tps, traits, fields, methods = d
                ext = None
            else:
                _, pub, decs, name, tps, ext, traits, fields, methods = d
                self.a.hit("fmt_decl/DClass extends:%s" % ("Some" if ext is not None else "None"))
            self.a.hit("fmt_decl/D" + k.capitalize())
            self.a.hit("fmt_vis/%s" % zbool(pub))
            self.a.hit("fmt_traits/%s" % ("[]" if not traits else "[..]"))
            self.a.hit("fmt_decl/D%s %s" % (k.capitalize(), "writes pass (no fields, no methods: not producible by the parser)" if not fields and not methods else
                                            "fields:%s methods:%s" % ("[]" if not fields else "[..]", "[]" if not methods else "[..]")))
            head = "%s %s %s %s" % (zbool(pub), self.decorators(decs), ztext(name), self.tps(tps, k))
            if k == "class":
                head += " " + zopt(ztext, ext)
            return "(D%s %s %s %s %s)" % (k.capitalize(), head, self.texts(traits), self.fields(fields), self.methods(methods, k, bool(fields)))
        if k == "trait":
            _, pub, decs, name, tps, methods = d
            self.a.hit("fmt_decl/DTrait")
            self.a.hit("fmt_decl/DTrait %s" % ("writes pass" if not methods else "methods"))
            self.a.hit("fmt_vis/%s" % zbool(pub))
            return "(DTrait %s %s %s %s %s)" % (zbool(pub), self.decorators(decs), ztext(name), self.tps(tps, k), self.methods(methods, k, False))
        if k == "newtype":
            _, pub, name, under, methods = d
            self.a.hit("fmt_decl/DNewtype")
            self.a.hit("fmt_decl/DNewtype methods:%s" % ("[]" if not methods else "[..]"))
            self.a.hit("fmt_vis/%s" % zbool(pub))
            return "(DNewtype %s %s %s %s)" % (zbool(pub), ztext(name), ztext(under), self.methods(methods, k, True))
        if k == "enum":
            _, pub, name, tps, variants = d
            self.a.hit("fmt_decl/DEnum")
            self.a.hit("fmt_decl/DEnum %s" % ("writes pass (not producible by the parser)" if not variants else "variants"))
            self.a.hit("fmt_vis/%s" % zbool(pub))
            vs = []
            for vn, vf in variants:
                self.a.hit("fmt_variant/fields:%s" % ("[]" if not vf else "[..]"))
                vs.append("{| v_name := %s; v_fields := %s |}" % (ztext(vn), self.texts(vf)))
            return "(DEnum %s %s %s %s)" % (zbool(pub), ztext(name), self.tps(tps, k), zlist_of(vs))
        if k == "function":
            _, pub, decs, is_async, name, tps, params, ret, body = d
            self.a.hit("fmt_decl/DFunction")
            self.a.hit("fmt_decl/DFunction async:%s" % zbool(is_async))
            self.a.hit("fmt_vis/%s" % zbool(pub))
            return "(DFunction %s %s %s %s %s %s %s %s)" % (zbool(pub), self.decorators(decs), zbool(is_async), ztext(name), self.tps(tps, k),
                                                         self.params(params), ztext(ret), self.body(body, "function"))
        if k == "docstring":
            t = d[1]
            self.a.hit("fmt_docstring/" + ("empty" if t == "" else "multi-line" if "\n" in t else "single line ending in a quote" if t.endswith('"') else "single line"))
            return "(DDocstring %s)" % ztext(t)
        raise vlib.Infra("layout: unknown declaration kind %r" % (k,))

    def program(self, decls):
        prev = None
        for d in decls:
            self.a.hit("fmt_decls/" + ("first declaration" if prev is None else "newline() after a docstring" if prev == "docstring" else "blank_lines(2)"))
            prev = d[0]
        if not decls:
            self.a.hit("fmt_decls/empty program")
        return zlist_of([self.decl(d) for d in decls])


# every arm / sub-branch of the model; the stream must reach each of them (else the generator has a gap: Infra)
EXPECTED_ARMS = """fmt_expr/XText|fmt_expr/XText after a block expression (continuation)|fmt_expr/XMatch|fmt_expr/XIf|fmt_expr/XIfElse|fmt_arms/ANil (match without arms)
fmt_arm/AGuardExpr|fmt_arm/AGuardBlock|fmt_arm/AExpr|fmt_arm/ABlock|fmt_arm/ABlock with empty body
pass_if_empty/writes pass|pass_if_empty/non-empty body|fmt_binding/inferred|fmt_binding/let|fmt_binding/mut|fmt_binding/reassign
fmt_stmt/SExpr|fmt_stmt/SAssign|fmt_stmt/SAssign ty:Some|fmt_stmt/SAssign ty:None|fmt_stmt/SFieldAssign|fmt_stmt/SIndexAssign|fmt_stmt/SCompound
cop_text/Add|cop_text/Sub|cop_text/Mul|cop_text/Div|cop_text/FloorDiv|cop_text/Mod
fmt_stmt/SReturn0|fmt_stmt/SReturn|fmt_stmt/SIf|fmt_elifs/LCons|fmt_oblock/ONone|fmt_oblock/OSome|fmt_stmt/SWhile|fmt_stmt/SFor
fmt_stmt/SPass|fmt_stmt/SBreak|fmt_stmt/SContinue|fmt_stmt/STupleUnpack|fmt_stmt/STupleAssign|fmt_stmt/SChained
fmt_decorator/args:[]|fmt_decorator/args:[..]|fmt_darg/DPos|fmt_darg/DNamedTy|fmt_darg/DNamedExpr
fmt_param/mut:false default:None|fmt_param/mut:true default:None|fmt_param/mut:false default:Some
fmt_field/pub:false default:None|fmt_field/pub:true default:None|fmt_field/pub:false default:Some
fmt_body/function: writes pass|fmt_body/function: statements|fmt_body/method: writes pass|fmt_body/method: statements
fmt_methods/model blank line before: true|fmt_methods/class blank line before: false|fmt_methods/class blank line before: true
fmt_methods/trait blank line before: false|fmt_methods/trait blank line before: true|fmt_methods/newtype blank line before: true
fmt_method/recv:none|fmt_method/recv:imm|fmt_method/recv:mut|fmt_method/async:true|fmt_method/async:false
fmt_method/comma after receiver:true|fmt_method/comma after receiver:false|fmt_method/body:None (: ...)|fmt_method/body:Some
fmt_ipath/crate segments:[..]|fmt_ipath/crate segments:[]|fmt_ipath/plain segments:[..]|fmt_ipath/plain segments:[]|fmt_ipath/super x1 segments:[..]|fmt_ipath/super x2 segments:[..]
fmt_import/items:[] (not producible by the parser)|fmt_iitem/alias:Some|fmt_iitem/alias:None|fmt_type_params/[]|fmt_type_params/[..]
fmt_import/module|fmt_import/from|fmt_import/python|fmt_import/rustcrate|fmt_import/rustfrom|fmt_import/rustcrate path:[]|fmt_import/rustcrate path:[..]
fmt_alias/Some|fmt_alias/None|fmt_decl/DConst|fmt_decl/DConst ty:Some|fmt_decl/DConst ty:None|fmt_vis/true|fmt_vis/false
fmt_decl/DModel|fmt_decl/DClass|fmt_decl/DClass extends:Some|fmt_decl/DClass extends:None|fmt_traits/[]|fmt_traits/[..]
fmt_decl/DClass writes pass (no fields, no methods: not producible by the parser)|fmt_decl/DModel writes pass (no fields, no methods: not producible by the parser)
fmt_decl/DClass fields:[..] methods:[..]|fmt_decl/DClass fields:[] methods:[..]|fmt_decl/DModel fields:[..] methods:[]
fmt_decl/DTrait|fmt_decl/DTrait writes pass|fmt_decl/DTrait methods|fmt_decl/DNewtype|fmt_decl/DNewtype methods:[]|fmt_decl/DNewtype methods:[..]
fmt_decl/DEnum|fmt_decl/DEnum writes pass (not producible by the parser)|fmt_decl/DEnum variants|fmt_variant/fields:[]|fmt_variant/fields:[..]
fmt_decl/DFunction|fmt_decl/DFunction async:true|fmt_decl/DFunction async:false
fmt_docstring/empty|fmt_docstring/multi-line|fmt_docstring/single line|fmt_docstring/single line ending in a quote
fmt_decls/first declaration|fmt_decls/newline() after a docstring|fmt_decls/blank_lines(2)|fmt_decls/empty program
format/trim removes blank lines (the last declaration ends in a block expression)|format/nothing to trim""".replace("\n", "|").split("|")

LAYOUT_HAND = [
    # (name, source): between them these reach every arm that source text can reach
    ("stmts", """def f(a: int, mut b: int = 1, c: str = "x") -> int:
    x = 1
    let y: int = 2
    mut z = x + y
    self.x = 1
    xs[0] = 2
    z += 1
    z -= 1
    z *= 2
    z /= 2
    z //= 2
    z %= 2
    if x > 0:
        return
    elif x < 0:
        return x
    elif x == 5:
        pass
    else:
        break
    while x:
        continue
    for i in 0..3:
        f(i)
    a, b = t
    let p, q = t
    xs[0], ys.z = t
    m = n = 3
    mut u = v = 4
    yield
    "string statement"
    return x
"""),
    ("match", """def g(n: int) -> int:
    match n:
        0 => 1
        case 1: return 2
        case k if k > 0: return k
        case j if j < 0:
            x = j
            return x
        (a, b) =>
            return a
        _ => 0
    x = match n:
        Some(v) => v
        _ => 0
    return match n:
        1 => 2
        _ => match n:
            3 => 4
            _ => 5
"""),
    ("guardexpr", "def g(n: int) -> int:\n    match n:\n        case k if k > 0: k\n        _ => 0\n"),
    ("ifexpr", """def h(a: int) -> int:
    x = if a:
        1
    else:
        2
    y = if a:
        f()
    return x
"""),
    ("operand", "def f() -> None:\n    match a:\n        b => 1\n    -1\n    x = 1 + match c:\n        d => 2\n    match e:\n        g => 3\n    .foo()\n"),
    ("decls", '''"""Module doc."""
import a::b as c
import crate::cfg
import super::x
import super::super::y::z
from ..x import y as z, w
from crate::m import k
import python "os.path" as p
import python "os"
import rust::serde_json
import rust::serde_json::Value as V
from rust::std::time import Instant, Duration as D
pub const MAX: int = 10
const NAME = "n"

@derive(Debug, Clone)
@route("/x", body: List[int], k=1)
@fixture
pub async def run[T, E](a: T) -> Result[T, E]:
    ...

def empty() -> None:
    pass

model User[T] with Debug, Clone:
    pub id: int
    name: str = "x"

    def get(self) -> int:
        return self.id

    async def put(mut self, v: int, w: int) -> None:
        self.id = v

model Plain:
    x: int

class Base:
    def only(self) -> int:
        return 1

    def stat() -> int:
        ...

pub class C[K, V] extends Base with T1:
    x: int

    @validate
    def m(self) -> int:
        return 1

trait Show:
    def show(self) -> str: ...

    def dflt(self) -> str:
        return "x"

trait Empty:
    pass

type UserId = newtype int
pub type Email = newtype str:
    def get(self) -> str:
        return self.0

    def other(self) -> int:
        return 1

enum Color:
    Red
    Rgb(int, int, int)

pub enum Opt[T]:
    Nothing
    Just(T)
'''),
    ("docs", '""""""\nconst A: int = 1\n'),
    ("docm", '"""\nMulti-line\n\n  indented text\nlast\n"""\nconst A: int = 1\n'),
    ("docq", '"ends with quote\\""\ndef f() -> None:\n    pass\n'),
    ("trail", "def f(x: int) -> None:\n    match x:\n        case 0:\n            match x:\n                case 1:\n                    pass\nconst AFTER: int = 1\n"),
    ("trail2", "def f(x: int) -> None:\n    match x:\n        case 0:\n            match x:\n                case 1:\n                    pass\n"),
    ("empty", ""),
    ("comment-only", "# nothing\n"),
]
LAYOUT_TWEAKS = [
    # (tweak list, source name): AST shapes the parser never produces — the model's remaining arms, and the replays of
    # the AST-only refutation witnesses (a line that ends in a space: `import ` with an empty path, `from x import `)
    (["empty_class"], "decls"), (["empty_enum"], "decls"), (["reassign"], "stmts"), (["empty_import_items"], "decls"),
    (["empty_import_path"], "decls"), (["crate_only_path"], "decls"), (["empty_arms"], "match"), (["empty_arm_block"], "match"),
    (["empty_bodies"], "stmts"), (["empty_fn_bodies"], "decls"), (["empty_names"], "stmts"), (["empty_if_expr_bodies"], "ifexpr"),
    (["guard_expr_body"], "guardexpr"),
]


def layout_sources(chk):
    """-> list of (origin, source, indent_width, tweaks)"""
    out = []
    hand = dict(LAYOUT_HAND)
    for name, src in LAYOUT_HAND:
        for w in (4, 2):
            out.append(("hand:%s:w%d" % (name, w), src, w, []))
    for w in (0, 1, 8):
        out.append(("hand:stmts:w%d" % w, hand["stmts"], w, []))
        out.append(("hand:match:w%d" % w, hand["match"], w, []))
    for tw, name in LAYOUT_TWEAKS:
        for w in (4, 2):
            out.append(("tweak:%s:%s:w%d" % ("+".join(tw), name, w), hand[name], w, tw))
    # nesting depths 0, 1, 2, 16, 17 (more in the thorough tier) x block kinds x widths
    mixes = [["if"], ["for", "if", "while"], ["match"], ["if", "match", "else", "for", "elif", "while"]]
    depths = [0, 1, 2, 16, 17] + ([8, 9, 32, 33] if chk.tier != "quick" else [])
    for d in depths:
        for mi, mix in enumerate(mixes):
            for w in (4, 2):
                out.append(("nest:%d:%d:w%d" % (d, mi, w), c08.nest_blocks(d, mix), w, []))
        for w in (1, 8):
            out.append(("nest:%d:1:w%d" % (d, w), c08.nest_blocks(d, mixes[1]), w, []))
    # generated programs (the C08/C09 generator) and declaration-heavy ones
    n_gen = 80 if chk.tier == "quick" else 1500
    for i in range(n_gen):
        src, _ = c08.program(chk.rng, chk.rng.randrange(1, 5))
        out.append(("gen:%d" % i, src, (4, 2)[i % 2], []))
    kinds = ["model", "class", "trait", "newtype", "enum", "function", "function", "import", "const", "docstring"]
    for i in range(60 if chk.tier == "quick" else 1200):
        g = c08.Gen(chk.rng)
        ds = ["\n".join(g.decl(chk.rng.choice(kinds), ("fmt-newtype-methods",))) for _ in range(chk.rng.randrange(1, 4))]
        out.append(("gendecl:%d" % i, "\n".join(ds) + "\n", (4, 2)[i % 2], []))
    # statement-heavy bodies with block-bodied expressions in value position
    for i in range(40 if chk.tier == "quick" else 600):
        g = c08.Gen(chk.rng)
        body = g.block(3, 4, tuple(c08.FIXED), n=chk.rng.randrange(2, 6))
        out.append(("genstmt:%d" % i, "def f(x: int) -> int:\n" + "\n".join(body) + "\n", (4, 2)[i % 2], []))
    # corpus files (small ones)
    files = [p for p in c08.corpus_files() if os.path.getsize(p) < 3000]
    for p in files[:(20 if chk.tier == "quick" else 200)]:
        try:
            out.append(("file:" + os.path.basename(p), open(p).read(), 4, []))
        except (OSError, UnicodeDecodeError):
            pass
    return out


def layout_oracle(r, width, prog):
    """hygiene of the REAL output, judged without the model -> list of reasons"""
    why = []
    h = r["hyg"]
    text = r["text"]
    if prog and h["final_newlines"] != 1:
        why.append("output ends in %d newlines (exactly one required)" % h["final_newlines"])
    if not prog and text != "":
        why.append("the empty program is printed as %r" % text[:40])
    if h["lexed"]:
        if h["tabs"]:
            why.append("tab outside string contents: %r" % h["bad_line"])
        if h["trailing"]:
            why.append("%d line(s) with trailing whitespace outside strings: %r" % (h["trailing"], h["bad_line"]))
    else:
        # the text does not lex (block continuation class): no string mask available
        for line in text.split("\n"):
            if line.endswith((" ", "\t", "\r")) and '"' not in line and "'" not in line:
                why.append("line with trailing whitespace: %r" % line)
                break
            if "\t" in line and '"' not in line and "'" not in line:
                why.append("tab: %r" % line)
                break
    return why


def _raw_trailing(prog):
    """does the last declaration end in a block-bodied expression (the raw output then ends in blank lines)?"""
    def tail_e(parts):
        return bool(parts) and parts[-1][0] in ("m", "i")

    def tail_b(b):
        if not b:
            return False
        s = b[-1]
        k = s[0]
        if k in ("expr", "ret"):
            return tail_e(s[1])
        if k == "assign":
            return tail_e(s[4])
        if k in ("compound", "unpack", "chained", "fassign", "iassign"):
            return tail_e(s[3])
        if k == "tassign":
            return tail_e(s[2])
        if k == "if":
            return tail_b(s[4]) if s[4] is not None else (tail_b(s[3][-1][1]) if s[3] else tail_b(s[2]))
        if k == "while":
            return tail_b(s[2])
        if k == "for":
            return tail_b(s[3])
        return False
    if not prog:
        return False
    d = prog[-1]
    if d[0] == "function":
        return tail_b(d[8])
    if d[0] == "const":
        return tail_e(d[4])
    if d[0] in ("model", "class", "trait", "newtype"):
        ms = d[-1]
        return bool(ms) and ms[-1][6] is not None and tail_b(ms[-1][6])
    return False


def layout_tie(chk, binary, fails, corr_bad):
    """real parser -> real AST -> skeleton (atoms printed by the real formatter) -> Coq `format` == real Formatter"""
    t_start = time.time()
    srcs = layout_sources(chk)
    inp = "".join(json.dumps({"src": s, "indent_width": w, "tweaks": tw}) + "\n" for _, s, w, tw in srcs)
    out = vlib.run_harness(binary, ["run", "c09", "layout"], inp, timeout=1800)
    res = [json.loads(l) for l in out.split("\n") if l]
    if len(res) != len(srcs):
        raise vlib.Infra("c09 layout harness returned %d lines for %d sources" % (len(res), len(srcs)))
    arms = Arms()
    cases, skipped = [], {}
    limit = 6000 if chk.tier == "quick" else 20000
    for (origin, src, w, tw), r in zip(srcs, res):
        if "panic" in r:
            fails.append({"origin": origin, "source": src, "why": "the formatter panicked: " + r["panic"], "indent_width": w})
            continue
        if r.get("parse") != "ok":
            if origin.startswith(("hand:", "tweak:", "nest:")):
                raise vlib.Infra("layout: fixed source %s does not parse: %s" % (origin, r.get("parse")))
            skipped["does not parse"] = skipped.get("does not parse", 0) + 1
            chk.count_case(("layout", origin, "noparse"), nontrivial=False)
            continue
        if len(r["text"]) > limit:
            skipped["output longer than %d" % limit] = skipped.get("output longer than %d" % limit, 0) + 1
            continue
        sub = Arms()
        term = Sk(sub).program(r["prog"])
        cases.append((origin, src, w, tw, r, "(%d%%nat, %s)" % (w, term), sub))
    # one coqc costs ~1 s to start and ~0.1 s per case; on an overloaded machine parallel shards only slow each other down
    busy = os.getloadavg()[0] > 1.5 * (os.cpu_count() or 1)
    nsh = 1 if busy else (6 if chk.tier == "quick" else 16)
    got = vlib.coq_eval(LAYOUT_REQ, "nat * program", "fun c => run_layout (fst c) (snd c)", [c[5] for c in cases],
                        shard=max(8, (len(cases) + nsh - 1) // nsh), tag="c09layout")
    n_wf = n_nc = n_ast_only = 0
    outside = {}
    depth_hist = {}
    for (origin, src, w, tw, r, _, sub), g in zip(cases, got):
        m_text = "".join(chr(c) for c in g[0])
        wf, nc, lvl = g[1]
        real = r["text"]
        for k, v in sub.h.items():
            arms.h[k] = arms.h.get(k, 0) + v
        arms.hit("format/" + ("trim removes blank lines (the last declaration ends in a block expression)" if _raw_trailing(r["prog"]) else "nothing to trim"))
        chk.count_case(("layout", origin, w), nontrivial=bool(r["prog"]))
        n_wf += wf
        n_nc += nc
        mx = max([(len(l) - len(l.lstrip(" "))) // w for l in real.split("\n") if l.strip()] or [0]) if w else 0
        depth_hist[min(mx, 40)] = depth_hist.get(min(mx, 40), 0) + 1
        why = layout_oracle(r, w, r["prog"])
        # indentation is a multiple of the width (no continuation, no multi-line docstring): judged on the real text alone
        if w > 1 and nc and not any(d[0] == "docstring" and "\n" in d[1] for d in r["prog"]):
            bad = [l for l in real.split("\n") if l.strip() and (len(l) - len(l.lstrip(" "))) % w]
            if bad:
                why.append("indentation of %r is not a multiple of indent_width %d" % (bad[0], w))
        if why:
            if tw:
                # AST shapes the parser never produces: outside the property's quantifier; recorded, and the model must agree
                n_ast_only += 1
                chk.coverage.setdefault("ast_only_refutations_replayed", {})["+".join(tw)] = why[0][:160]
            else:
                fails.append({"origin": origin, "source": src, "indent_width": w, "why": "; ".join(why), "formatted": real[:2000],
                              "model_agrees": m_text == real, "model_hypotheses_hold": bool(wf)})
        if not wf and not tw:
            outside[origin.split(":")[0]] = outside.get(origin.split(":")[0], 0) + 1
        if wf and why and m_text == real:
            corr_bad.append({"why": "the model's hypotheses hold and its output equals the real one, but the oracle rejects the text: theorem and oracle disagree",
                             "source": src, "reasons": why})
        if r["problems"]:
            corr_bad.append({"why": "an atom could not be cut out of the real formatter's wrapper output", "source": src, "indent_width": w, "problems": r["problems"][:3]})
        if m_text != real:
            ml, rl = m_text.split("\n"), real.split("\n")
            first = next((i for i, (a, b) in enumerate(zip(ml, rl)) if a != b), min(len(ml), len(rl)))
            corr_bad.append({"why": "layout model (Fmt/Writer.v format) and the real Formatter disagree", "origin": origin, "source": src, "indent_width": w, "tweaks": tw,
                             "line": first + 1, "model_line": ml[first] if first < len(ml) else None, "impl_line": rl[first] if first < len(rl) else None})
        if lvl != 0:
            corr_bad.append({"why": "model ends with indent level %d" % lvl, "source": src})
    chk.coverage["model_arm_hits"] = dict(sorted(arms.h.items()))
    zero = [a for a in EXPECTED_ARMS if not arms.h.get(a)]
    chk.coverage["layout_tie"] = {"cases": len(cases), "hypotheses_hold (wf_program)": n_wf, "no block continuation (nc_program)": n_nc,
                                  "ast_only_cases_with_a_hygiene_violation": n_ast_only, "source_cases_outside_the_hypotheses": outside,
                                  "skipped": skipped, "deepest_indent_level_histogram": dict(sorted(depth_hist.items())),
                                  "wall_s": round(time.time() - t_start, 1)}
    if zero:
        raise vlib.Infra("generator gap: layout-model arms never reached by the correspondence stream: %s" % zero)
    return len(cases)


def witness_fails_c09(known, c08_known):
    def judge(f, r):
        for d in r["decls"]:
            out, hits = c08.judge_c09(d, known, c08_known)
            if f["id"] in hits:
                return True
        return False
    return judge


def run(chk):
    chk.trusted = [
        "Coq 8.16.1 kernel; no axioms (19 theorems closed under the global context: 9 in Props.v, 10 in PropsLayout.v)",
        "hand-written models: coq/Fmt (see C08) for idempotence; coq/C09/Model.v for FormatWriter + format_program and for format_files; "
        "coq/Fmt/Writer.v (character-level FormatWriter + statement/declaration level of formatter.rs over a skeleton AST), tied on every run",
        "vharness c08/c09 adapters (c09 calls incan::cli::commands::format_files in-process: the function `incan fmt` dispatches to; clap's flag parsing is not exercised; "
        "c09 layout converts the real AST to the skeleton field by field, cuts atom texts out of the real formatter's output of one-declaration wrapper programs, "
        "and repeats `doc.trim()` + the two replace() calls of format_docstring), the real lexer (to decide which characters are inside string tokens), this script",
    ]
    chk.assumptions = [
        "idempotence is proved at token level for the C08 expression core only; for everything else it is checked on the implementation",
        "hygiene (no trailing whitespace, no tab, one final newline, indentation = nesting level * width) is a Coq theorem for every program of the statement/declaration "
        "skeleton whose atoms are clean (wf_program); that the real formatter's expression / type / pattern texts ARE clean is established by the C08 expression model for its "
        "core and checked on every layout-tie case (the model evaluates wf_program on the real atoms)",
        "expression-level writes are opaque in the layout model: format_expr arms other than Match/If, format_type, format_pattern, format_literal, escape_string are "
        "covered by the C08 token-level model and the implementation oracle, not by PropsLayout.v",
        "ends_line (every format_declaration arm finishes with newline() then only dedent()s) is a hypothesis of the older C09_ends_with_one_newline; "
        "C09_layout_ends_with_one_newline needs no such hypothesis",
    ]
    known = c08.load_findings(chk, "C09", c08.PROPOSED_C09)
    c08f = vlib.known_findings("C08")
    c08_known = {f["id"] for f in c08f if f.get("status") == "known"}
    res = chk.proof_stage("C09", allow_axioms=(), extra_props=[("PropsLayout", ())])
    binary = vlib.build_harness("debug")
    items, used = c08.gather(chk, binary)
    fails, corr_bad, hits, dist = [], [], set(), {}
    for origin, src, r in items:
        if "panic" in r:
            fails.append({"origin": origin, "source": src, "why": "panic: " + r["panic"]})
            continue
        if r.get("parse") != "ok":
            chk.count_case((origin, "noparse"), nontrivial=False)
            continue
        all_clean = True
        for i, d in enumerate(r["decls"]):
            out, h = c08.judge_c09(d, known, c08_known)
            hits |= h
            nonrep, _ = c08.classes_of(d)
            all_clean = all_clean and not nonrep and d["reparse"] == "ok"
            key = "trail=%d arms=%d ifs=%d %s" % (d["trail"], d["block_arms"], d["if_exprs"], "reparse-ok" if d["reparse"] == "ok" else "not-reparsable")
            dist[key] = dist.get(key, 0) + 1
            chk.count_case((hashlib.sha1(src.encode()).hexdigest(), i), nontrivial=d["reparse"] == "ok")
            for why in out:
                fails.append({"origin": origin, "decl_index": i, "source": src, "formatted_decl": d.get("text"), "why": why, "classes": d["classes"]})
        w = r["whole"]
        if "fmt" in w:
            continue
        if not w.get("compositional"):
            corr_bad.append({"why": "format_program is not `declarations joined by the blank-line policy + newline`", "source": src})
        if w["check_formatted_src"] != w["src_eq_fmt"] or w["diff_is_none"] != w["src_eq_fmt"]:
            fails.append({"origin": origin, "source": src, "why": "check_formatted/format_diff disagree with `source == format_source(source)`: %s" % w})
        if all_clean:
            if w.get("idem") is not True or w.get("check_formatted_out") is not True:
                fails.append({"origin": origin, "source": src, "why": "fmt(fmt(x)) != fmt(x) on a file whose declarations all round-trip: %s" % (w.get("idem_diff") or w.get("refmt"),)})
        elif "refmt" in w or w.get("idem") is False:
            if "fmt-not-reparsable" in known:
                hits.add("fmt-not-reparsable")
            else:
                fails.append({"origin": origin, "source": src, "why": "fmt(fmt(x)) fails or differs"})
    n_cli = cli_scenarios(chk, binary, items, known, c08_known, fails, corr_bad)
    n_prog = program_tie(chk, binary, items, corr_bad)
    n_prog += indent_tie(chk, binary, corr_bad)
    n_prog += layout_tie(chk, binary, fails, corr_bad)
    chk.coverage["rule"] = ("one evaluation per top-level declaration of every corpus file and generated program (idempotence + hygiene), one per CLI run "
                            "(6 runs x 2 directories), one per program-tie case; non-trivial = the formatted text re-parses")
    chk.coverage["distribution"] = dict(sorted(dist.items(), key=lambda kv: -kv[1])[:40])
    chk.coverage["traces_validated_against_impl"] = n_cli + n_prog
    chk.coverage["cli_runs"] = n_cli
    chk.coverage["correspondence_mismatches"] = len(corr_bad)
    for o, s, r in items[-2:]:
        chk.sample(s[:300])
    c08.replay_known(chk, binary, witness_fails_c09(known, c08_known))
    fails.sort(key=lambda f: len(f.get("formatted_decl") or f.get("source") or ""))      # smallest failing input first
    for f in fails[:15]:
        chk.violation("failing-input", f)
    if not fails:
        if corr_bad:
            chk.violation("correspondence-broken", {"theorem_or_tie": "C09/Model.v (format_program / format_files) vs implementation", "cases": corr_bad[:8]}, no_input=True)
        if not res["proofs_ok"] or not res["tie_ok"]:
            chk.violation("proof-broken", {"theorem_or_tie": res["broken"]}, no_input=True)


def replay(path):
    data = json.load(open(path))
    lay = [v["detail"] for v in data["violations"] if "indent_width" in v["detail"] or any("indent_width" in c for c in v["detail"].get("cases", []) if isinstance(c, dict))]
    if lay:
        binary = vlib.build_harness("debug")
        cases = []
        for d in lay:
            cases += [d] if "source" in d else [c for c in d.get("cases", []) if isinstance(c, dict) and "source" in c]
        for c in cases:
            req = {"src": c["source"], "indent_width": c.get("indent_width", 4), "tweaks": c.get("tweaks", [])}
            r = json.loads(vlib.run_harness(binary, ["run", "c09", "layout"], json.dumps(req) + "\n").split("\n")[0])
            print("---- source (indent_width=%s tweaks=%s)\n%s" % (req["indent_width"], req["tweaks"], c["source"]))
            if r.get("parse") != "ok":
                print("does not parse:", r.get("parse"))
                continue
            print("---- formatted by the real Formatter\n" + r["text"])
            print("hygiene:", r["hyg"], "| why:", c.get("why"))
            if "model_line" in c:
                print("first differing line %s: model %r / implementation %r" % (c.get("line"), c.get("model_line"), c.get("impl_line")))
            g = vlib.coq_eval(LAYOUT_REQ, "nat * program", "fun c => run_layout (fst c) (snd c)",
                              ["(%d%%nat, %s)" % (req["indent_width"], Sk(Arms()).program(r["prog"]))], tag="c09replay")[0]
            m = "".join(chr(x) for x in g[0])
            print("---- Coq model `format` %s the real output (wf_program=%s, nc_program=%s)" % ("EQUALS" if m == r["text"] else "DIFFERS from", g[1][0], g[1][1]))
            if m != r["text"]:
                print(m)
        rest = [v for v in data["violations"] if v["detail"] not in lay]
        if not rest:
            return 0
    return c08.replay(path)
