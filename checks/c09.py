"""C09 — formatting is idempotent and consistent with --check.

proof:   coq/C09/Props.v: token-level idempotence as a corollary of the C08 round trip (Fmt/Roundtrip.v), the writer /
         format_program model (every non-empty output ends in exactly one newline), the format_files model
         (check/diff read-only, fmt writes exactly the changed files, check-after-fmt exits 0).
tie:     the Coq format_program model evaluated on the real per-declaration texts must give the real whole-file text;
         the Coq format_files model evaluated on the measured per-file statuses must give the real exit code and the
         set of files the real `format_files` (the function `incan fmt` dispatches to) modified.
oracle:  on the implementation: fmt(fmt(x)) == fmt(x), hygiene of every output (final newlines, tabs, trailing blanks
         outside string tokens, located with the real lexer), check_formatted/format_diff consistency, and the CLI
         modes on scratch copies with content hashes and exit codes."""
import hashlib
import json
import os
import shutil

import vlib
from checks import c08


def sha(path):
    return hashlib.sha1(open(path, "rb").read()).hexdigest()


def cli(binary, mode, d):
    out = vlib.run_harness(binary, ["run", "c09", mode, d], "")
    last = [l for l in out.split("\n") if l.startswith("@@C09 ")]
    if not last:
        raise vlib.Infra("c09 runner printed no result line: " + out[-500:])
    p = last[-1].split(" ", 3)
    return p[1], int(p[2]), (p[3] if len(p) > 3 else "")


def status_of(r):
    if r.get("parse") != "ok" or "fmt" in r["whole"]:
        return "Unparseable"
    return "Same" if r["whole"]["src_eq_fmt"] else "Changed"


def coq_files(mode, sts):
    return "render_result (format_files {| check := %s; diff := %s |} [%s])" % (
        "true" if mode in ("check", "checkdiff") else "false", "true" if mode in ("diff", "checkdiff") else "false", "; ".join(sts))


def cli_scenarios(chk, binary, items, known, c08_known, fails, corr_bad):
    """-> number of CLI runs compared with the model"""
    clean, risky = [], []
    for origin, src, r in items:
        if r.get("parse") != "ok" or "fmt" in r["whole"]:
            continue
        cls = set(c for d in r["decls"] for c in d["classes"] if not c.startswith("N:"))
        ok = all(d["reparse"] == "ok" and d.get("equal") and d.get("idem") for d in r["decls"])
        if not cls and ok and r["whole"].get("idem") and len(clean) < 14:
            clean.append((src, r))
        elif any(d["reparse"] != "ok" for d in r["decls"]) and len(risky) < 3:
            risky.append((src, r))
    base = os.path.join(vlib.BUILD, "c09-cli-%d" % os.getpid())
    shutil.rmtree(base, ignore_errors=True)
    runs = []          # (scenario, step, mode, statuses, real (kind, code), written flags)
    try:
        for scen in ("clean", "mixed"):
            d = os.path.join(base, scen)
            os.makedirs(d)
            files = []   # (name, source, status, formatted-or-None)
            for i, (src, r) in enumerate(clean):
                files.append(("c%02d.incn" % i, src, status_of(r), r["whole"].get("text")))
            for i, (src, r) in enumerate(clean[:3]):   # already formatted files
                t = c08.run_decls(binary, [src], text=True)[0]["whole"]["text"]
                files.append(("f%02d.incn" % i, t, "Same", t))
            if scen == "mixed":
                files.append(("u00.incn", "def broken(:\n", "Unparseable", None))
                for i, (src, r) in enumerate(risky):
                    files.append(("r%02d.incn" % i, src, status_of(r), None))
            texts = {}
            res = c08.run_decls(binary, [f[1] for f in files], text=True)
            files = [(n, s, status_of(r), r["whole"].get("text") if r.get("parse") == "ok" else None) for (n, s, _, _), r in zip(files, res)]
            files.sort()
            for n, s, st, t in files:
                open(os.path.join(d, n), "w").write(s)
            cur = {n: s for n, s, _, _ in files}
            sts = {n: st for n, _, st, _ in files}
            fmt_of = {n: t for n, _, _, t in files}
            for step, mode in enumerate(["check", "diff", "checkdiff", "fmt", "check", "fmt"]):
                before = {n: sha(os.path.join(d, n)) for n in cur}
                kind, code, msg = cli(binary, mode, d)
                after = {n: sha(os.path.join(d, n)) for n in cur}
                written = [before[n] != after[n] for n in sorted(cur)]
                order = sorted(cur)
                runs.append((scen, step, mode, [sts[n] for n in order], (kind, code), written))
                # --- property, judged directly
                if mode != "fmt" and any(written):
                    fails.append({"why": "`incan fmt --%s` modified files" % mode, "scenario": scen, "files": [n for n, w in zip(order, written) if w],
                                  "source": cur[[n for n, w in zip(order, written) if w][0]]})
                if kind == "panic":
                    fails.append({"why": "format_files panicked: " + msg, "scenario": scen, "source": ""})
                if mode == "fmt":
                    for n in order:
                        new = open(os.path.join(d, n)).read()
                        want = fmt_of[n] if (sts[n] == "Changed" and fmt_of[n] is not None) else cur[n]
                        if new != want:
                            fails.append({"why": "`incan fmt` left %s with contents other than format_source(old contents)" % n, "scenario": scen,
                                          "source": cur[n], "expected": want, "actual": new})
                        cur[n] = new
                    # statuses of the new contents
                    res2 = c08.run_decls(binary, [cur[n] for n in order], text=True)
                    for n, r2 in zip(order, res2):
                        sts[n] = status_of(r2)
                        fmt_of[n] = r2["whole"].get("text") if r2.get("parse") == "ok" else None
                if mode == "check" and step == 4:
                    # immediately after `incan fmt`: must exit 0; a failure is excused only by files whose formatted text is not re-parsable (listed)
                    bad = [n for n in order if sts[n] != "Same" and not n.startswith("u")]
                    if scen == "clean" and (kind != "ok" or code != 0):
                        fails.append({"why": "`incan fmt --check` right after `incan fmt` exits %s %d on a directory of parseable files" % (kind, code),
                                      "scenario": scen, "source": cur[order[0]], "not_clean": bad})
                    if scen == "mixed" and bad and "fmt-not-reparsable" not in known:
                        fails.append({"why": "`--check` after `fmt` fails for %s" % bad, "scenario": scen, "source": cur[bad[0]]})
    finally:
        shutil.rmtree(base, ignore_errors=True)
    # --- tie with the Coq model of format_files
    req = "From Coq Require Import ZArith List.\nImport ListNotations.\nFrom Verif Require Import C09.Model.\nOpen Scope Z_scope."
    got = vlib.coq_eval(req, "list Z", "fun x => x", [coq_files(m, s) for _, _, m, s, _, _ in runs], tag="c09cli")
    for (scen, step, mode, sts, (kind, code), written), g in zip(runs, got):
        chk.count_case(("cli", scen, step, mode), nontrivial=True)
        want = [0 if kind == "ok" else 1] + [1 if w else 0 for w in written]
        real_code = code if kind != "ok" else 0
        if list(g) != [real_code] + [1 if w else 0 for w in written]:
            corr_bad.append({"why": "format_files model and implementation disagree", "scenario": scen, "step": step, "mode": mode, "statuses": sts,
                             "model": list(g), "impl": [real_code] + [1 if w else 0 for w in written]})
    return len(runs)


def program_tie(chk, binary, items, corr_bad):
    """Coq format_program/writer model on the real per-declaration texts vs the real whole-file text."""
    cases = []
    for origin, src, r in items:
        if r.get("parse") != "ok" or "fmt" in r["whole"] or not (1 <= r["n"] <= 4):
            continue
        cases.append(src)
        if len(cases) >= (40 if chk.tier == "quick" else 300):
            break
    res = c08.run_decls(binary, cases, text=True)
    terms, wants = [], []
    for src, r in zip(cases, res):
        if len(r["whole"]["text"]) > 700 or any(ord(c) > 0x10FFFF for c in r["whole"]["text"]):
            continue
        ds = []
        for d in r["decls"]:
            t = d["text"]
            body = t[:-1] if t.endswith("\n") else t          # the one-declaration program = declaration + final newline
            cmds = []
            for line in body.split("\n")[:-1] if body.endswith("\n") else body.split("\n"):
                cmds.append("W %s; NL" % vlib.zlist([ord(c) for c in line]) if line else "NL")
            cmds += ["NL"] * d["trail"]      # the blank line a trailing `match` statement leaves (trimmed only at end of file)
            ds.append("{| d_cmds := [%s]; d_doc := %s |}" % ("; ".join(cmds), "true" if d["kind"] == "Docstring" else "false"))
        terms.append("fmt_text [%s]" % "; ".join(ds))
        wants.append([ord(c) for c in r["whole"]["text"]])
    req = "From Coq Require Import ZArith List.\nImport ListNotations.\nFrom Verif Require Import C09.Model.\nOpen Scope Z_scope."
    got = vlib.coq_eval(req, "list Z", "fun x => x", terms, shard=10, tag="c09prog")
    for t, w, g in zip(terms, wants, got):
        chk.count_case(("prog", hashlib.sha1(t.encode()).hexdigest()), nontrivial=True)
        if list(g) != w:
            corr_bad.append({"why": "format_program model (blank-line policy + final newline) and format_source disagree",
                             "model_tail": list(g)[-12:], "impl_tail": w[-12:], "n_model": len(g), "n_impl": len(w)})
    return len(terms)


def indent_tie(chk, binary, corr_bad):
    """Coq writer model with indent()/dedent() commands vs the real formatter on deeply nested blocks (default width)."""
    depths = [1, 2, 15, 16, 17, 18, 31, 32, 33, 64, 65, 100]
    srcs = [c08.nest_blocks(d, ["if"]) for d in depths]
    res = c08.run_decls(binary, srcs, text=True)
    terms, wants = [], []
    for d, r in zip(depths, res):
        if r.get("parse") != "ok" or "text" not in r["whole"]:
            raise vlib.Infra("indent tie: nested source does not format: %s" % (r.get("parse"),))
        want = r["whole"]["text"]
        w = lambda t: "W %s; NL" % vlib.zlist([ord(c) for c in t])
        cmds = [w("def f(x: int, xs: List[int]) -> int:"), "IN"]
        for i in range(d):
            cmds += [w("if x > %d:" % i), "IN"]
        cmds += [w("x = x + 1")] + ["DE"] * d + [w("return x"), "DE"]
        terms.append("fmt_text [{| d_cmds := [%s]; d_doc := false |}]" % "; ".join(cmds))
        wants.append([ord(c) for c in want])
    req = "From Coq Require Import ZArith List.\nImport ListNotations.\nFrom Verif Require Import C09.Model.\nOpen Scope Z_scope."
    got = vlib.coq_eval(req, "list Z", "fun x => x", terms, shard=4, tag="c09indent")
    for d, src, w_, g in zip(depths, srcs, wants, got):
        chk.count_case(("indent-tie", d), nontrivial=True)
        if list(g) != w_:
            m = "".join(chr(c) for c in g).split("\n")
            r_ = "".join(chr(c) for c in w_).split("\n")
            first = next((i for i, (a, b) in enumerate(zip(m, r_)) if a != b), min(len(m), len(r_)))
            corr_bad.append({"why": "writer model (level n = n*4 spaces) and the formatter disagree at block depth %d" % d, "source": src,
                             "line": first + 1, "model_line": m[first] if first < len(m) else None, "impl_line": r_[first] if first < len(r_) else None})
    return len(terms)


def witness_fails_c09(known, c08_known):
    def judge(f, r):
        for d in r["decls"]:
            out, hits = c08.judge_c09(d, known, c08_known)
            if f["id"] in hits:
                return True
        return False
    return judge


def run(chk):
    chk.trusted = [
        "Coq 8.16.1 kernel; no axioms (7 theorems closed under the global context)",
        "hand-written models: coq/Fmt (see C08) for idempotence; coq/C09/Model.v for FormatWriter + format_program and for format_files, tied on every run",
        "vharness c08/c09 adapters (c09 calls incan::cli::commands::format_files in-process: the function `incan fmt` dispatches to; clap's flag parsing is not exercised), "
        "the real lexer (to decide which characters are inside string tokens), this script",
    ]
    chk.assumptions = [
        "idempotence is proved at token level for the C08 expression core only; for everything else it is checked on the implementation",
        "no_trailing_ws is NOT a Coq theorem: it is checked on the implementation (one listed class left: `if ` of an if-expression)",
        "ends_line (every format_declaration arm finishes with newline() then only dedent()s) is a hypothesis of C09_ends_with_one_newline, read off formatter.rs and exercised by the program tie",
    ]
    known = c08.load_findings(chk, "C09", c08.PROPOSED_C09)
    c08f = vlib.known_findings("C08")
    c08_known = {f["id"] for f in c08f if f.get("status") == "known"}
    res = chk.proof_stage("C09", allow_axioms=())
    binary = vlib.build_harness("debug")
    items, used = c08.gather(chk, binary)
    fails, corr_bad, hits, dist = [], [], set(), {}
    for origin, src, r in items:
        if "panic" in r:
            fails.append({"origin": origin, "source": src, "why": "panic: " + r["panic"]})
            continue
        if r.get("parse") != "ok":
            chk.count_case((origin, "noparse"), nontrivial=False)
            continue
        all_clean = True
        for i, d in enumerate(r["decls"]):
            out, h = c08.judge_c09(d, known, c08_known)
            hits |= h
            nonrep, _ = c08.classes_of(d)
            all_clean = all_clean and not nonrep and d["reparse"] == "ok"
            key = "trail=%d arms=%d ifs=%d %s" % (d["trail"], d["block_arms"], d["if_exprs"], "reparse-ok" if d["reparse"] == "ok" else "not-reparsable")
            dist[key] = dist.get(key, 0) + 1
            chk.count_case((hashlib.sha1(src.encode()).hexdigest(), i), nontrivial=d["reparse"] == "ok")
            for why in out:
                fails.append({"origin": origin, "decl_index": i, "source": src, "formatted_decl": d.get("text"), "why": why, "classes": d["classes"]})
        w = r["whole"]
        if "fmt" in w:
            continue
        if not w.get("compositional"):
            corr_bad.append({"why": "format_program is not `declarations joined by the blank-line policy + newline`", "source": src})
        if w["check_formatted_src"] != w["src_eq_fmt"] or w["diff_is_none"] != w["src_eq_fmt"]:
            fails.append({"origin": origin, "source": src, "why": "check_formatted/format_diff disagree with `source == format_source(source)`: %s" % w})
        if all_clean:
            if w.get("idem") is not True or w.get("check_formatted_out") is not True:
                fails.append({"origin": origin, "source": src, "why": "fmt(fmt(x)) != fmt(x) on a file whose declarations all round-trip: %s" % (w.get("idem_diff") or w.get("refmt"),)})
        elif "refmt" in w or w.get("idem") is False:
            if "fmt-not-reparsable" in known:
                hits.add("fmt-not-reparsable")
            else:
                fails.append({"origin": origin, "source": src, "why": "fmt(fmt(x)) fails or differs"})
    n_cli = cli_scenarios(chk, binary, items, known, c08_known, fails, corr_bad)
    n_prog = program_tie(chk, binary, items, corr_bad)
    n_prog += indent_tie(chk, binary, corr_bad)
    chk.coverage["rule"] = ("one evaluation per top-level declaration of every corpus file and generated program (idempotence + hygiene), one per CLI run "
                            "(6 runs x 2 directories), one per program-tie case; non-trivial = the formatted text re-parses")
    chk.coverage["distribution"] = dict(sorted(dist.items(), key=lambda kv: -kv[1])[:40])
    chk.coverage["traces_validated_against_impl"] = n_cli + n_prog
    chk.coverage["cli_runs"] = n_cli
    chk.coverage["correspondence_mismatches"] = len(corr_bad)
    for o, s, r in items[-2:]:
        chk.sample(s[:300])
    c08.replay_known(chk, binary, witness_fails_c09(known, c08_known))
    fails.sort(key=lambda f: len(f.get("formatted_decl") or f.get("source") or ""))      # smallest failing input first
    for f in fails[:15]:
        chk.violation("failing-input", f)
    if not fails:
        if corr_bad:
            chk.violation("correspondence-broken", {"theorem_or_tie": "C09/Model.v (format_program / format_files) vs implementation", "cases": corr_bad[:8]}, no_input=True)
        if not res["proofs_ok"] or not res["tie_ok"]:
            chk.violation("proof-broken", {"theorem_or_tie": res["broken"]}, no_input=True)


def replay(path):
    return c08.replay(path)
