"""C14 — imports resolve the same everywhere and respect visibility.

proof:   coq/C14/Props.v over the hand model coq/C14/Model.v (three resolvers + spec over an abstract
         finite file system, the four work-list / recursive collectors with explicit fuel, the
         visibility rules of check_with_imports).
tie:     correspondence: directory trees are written under /verif/build/c14-<pid>/, the REAL
         collect_modules / resolve_import_path / ModuleResolver / ModuleCollector / in-process LSP /
         type checker run on them through `vharness run c14`, the model runs inside coqc
         (vm_compute) on the same trees, results are compared file by file.
oracle:  the real resolvers against each other (CLI vs LSP rule vs ModuleResolver) on every import;
         the real type check against the generator's ground truth (is the referenced item `pub`?);
         cycles / missing modules must end with a diagnostic, in bounded time, without a crash."""
import json
import os
import re
import resource
import shutil
import subprocess
import time

import vlib

LEVEL = "proof"

NAMES = {"src": 1, "mod": 2, "__init__": 3, "std": 4, "main": 5}
_next = [10]


def code(name):
    if name not in NAMES:
        NAMES[name] = _next[0]
        _next[0] += 1
    return NAMES[name]


def zl(xs):
    return "[" + "; ".join(str(x) for x in xs) + "]"


def cb(b):
    return "true" if b else "false"


# ----------------------------------------------------------------------------- trees on disk

class Tree:
    """A directory tree under <scratch>/<name>. files: relpath -> text. Every source file starts with
    `# F <relpath>`. dirs: extra (possibly empty) directories; cargo: dirs with a Cargo.toml."""

    def __init__(self, scratch, name):
        self.name = name
        self.root = os.path.join(scratch, name)
        self.files = {}
        self.dirs = set()
        self.cargo = set()
        self.imports = {}  # relpath -> list of import records (kind, abs, levels, segs)

    def add(self, relpath, body="", imports_text=()):
        text = "# F %s\n" % relpath
        for t in imports_text:
            text += t + "\n"
        text += body
        self.files[relpath] = text

    def write(self):
        os.makedirs(self.root, exist_ok=True)
        for d in sorted(self.dirs):
            os.makedirs(os.path.join(self.root, d), exist_ok=True)
        for d in sorted(self.cargo):
            os.makedirs(os.path.join(self.root, d), exist_ok=True)
            open(os.path.join(self.root, d, "Cargo.toml"), "w").write("[package]\nname = \"x\"\n")
        for rp, text in self.files.items():
            p = os.path.join(self.root, rp)
            os.makedirs(os.path.dirname(p), exist_ok=True)
            open(p, "w").write(text)

    # --- model side
    def absdir(self, reldir):
        """model directory (list of name codes) of <root>/<reldir>; components of the scratch root
        live in their own name space ("/x") so they never collide with generated names"""
        return [code("/" + c) for c in self.root.split("/") if c] + [code(c) for c in reldir.split("/") if c and c != "."]

    def mpath(self, relpath):
        d, f = os.path.split(relpath)
        stem, e = f.rsplit(".", 1)
        return "(P %s %d %s)" % (zl(self.absdir(d)), code(stem), "Incn" if e == "incn" else "Incan")

    def rendered(self, relpath):
        d, f = os.path.split(relpath)
        stem, e = f.rsplit(".", 1)
        return [0 if e == "incn" else 1, code(stem)] + self.absdir(d)

    def fs_term(self):
        ents = ["File %s" % self.mpath(rp) for rp in sorted(self.files)]
        ents += ["Cargo %s" % zl(self.absdir(d)) for d in sorted(self.cargo)]
        ents += ["Dir %s" % zl(self.absdir(d)) for d in sorted(self.dirs)]
        return "[" + "; ".join(ents) + "]"


def imp_term(rec):
    k, ab, lv, segs = rec
    return "(I %s %s %d %s)" % ("KModule" if k == "M" else "KFrom", cb(ab), lv, zl([code(s) for s in segs]))


def import_text(rng, k, ab, lv, segs, item="zz", alias=None, style=None):
    """One of the equivalent spellings of an import record."""
    style = style if style is not None else rng.randrange(4)
    sep = "::" if style & 1 else "."
    pre = ""
    if ab:
        pre = "crate" + sep
    elif lv:
        if k == "F" and lv == 1 and style & 2:
            pre = ".."
        elif k == "F" and lv == 2 and style & 2:
            pre = "..super" + sep  # `..` then `super`: one level each
        else:
            pre = ("super" + sep) * lv
    body = pre + sep.join(segs)
    if k == "M":
        return "import " + body + (" as " + alias if alias else "")
    return "from " + body + " import " + item


# ----------------------------------------------------------------------------- harness I/O

def _limits():
    resource.setrlimit(resource.RLIMIT_AS, (6 << 30, 6 << 30))


def run_c14(binary, root, lines, timeout):
    """Run one batch. Returns (list of result lines or None, status) where status is 'ok',
    'timeout' or 'crash:<rc>'."""
    try:
        p = subprocess.run([binary, "run", "c14", root], input="\n".join(lines) + "\n", capture_output=True,
                           text=True, timeout=timeout, preexec_fn=_limits)
    except subprocess.TimeoutExpired:
        return None, "timeout"
    if p.returncode != 0:
        return None, "crash:%d %s" % (p.returncode, p.stderr[-300:])
    out = [l for l in p.stdout.split("\n") if l]
    if len(out) != len(lines):
        return None, "crash:short output (%d of %d lines) %s" % (len(out), len(lines), p.stderr[-300:])
    return out, "ok"


def run_lines(chk, binary, root, lines, per_case_timeout=30):
    """Batch run with isolation of hangs/crashes: a batch that hangs or dies is re-run line by line;
    the culprit lines get the result 'HANG' / 'DIED ...' (a property violation for C14, not infra)."""
    if not lines:
        return []
    out, st = run_c14(binary, root, lines, timeout=120 + len(lines) * 0.5)
    if out is not None:
        return out
    res = []
    bad = 0
    for l in lines:
        o, st = run_c14(binary, root, [l], timeout=per_case_timeout)
        if o is None:
            bad += 1
            res.append("HANG" if st == "timeout" else "DIED " + st)
            if bad > 25:
                raise vlib.Infra("c14 harness fails on more than 25 single cases: " + st)
        else:
            res.append(o[0])
    return res


def parse_path_result(tree, s):
    """`S rel/path.incn` | `N` -> rendered model value."""
    if s == "N":
        return []
    assert s.startswith("S "), s
    rp = s[2:]
    pre = tree.name + "/"
    if not rp.startswith(pre):
        return ["outside", rp]
    return [1] + tree.rendered(rp[len(pre):])


def parse_modules(tree, s):
    """`OK name,seg.seg,id;...` -> (0, [(rendered path, [segs])]) ; `ERR ...` -> ('err', text)"""
    if not s.startswith("OK"):
        return ("err", s)
    mods = []
    body = s[3:]
    for m in [x for x in body.split(";") if x]:
        name, segs, fid = m.split(",")
        segl = [x for x in segs.split(".") if x]
        if name != "_".join(segl):
            return ("err", "module name %r is not the join of %r" % (name, segl))
        mods.append((tree.rendered(fid) if fid in tree.files else ["?", fid], [code(x) for x in segl]))
    return (0, mods)


# ----------------------------------------------------------------------------- part A: single imports

SEGN = ["a", "b", "c"]


def gen_tree_A(rng, scratch, k):
    t = Tree(scratch, "t%d" % k)
    dirs = [""]
    for d1 in SEGN + ["src"]:
        if rng.random() < 0.55:
            dirs.append(d1)
            for d2 in SEGN:
                if rng.random() < 0.4:
                    dirs.append(d1 + "/" + d2)
                    for d3 in SEGN[:2]:
                        if rng.random() < 0.3:
                            dirs.append(d1 + "/" + d2 + "/" + d3)
    for d in dirs:
        for stem in SEGN + ["mod", "__init__", "main"]:
            for e in ("incn", "incan"):
                pr = {"mod": 0.3, "__init__": 0.15, "main": 0.1}.get(stem, 0.3) * (0.5 if e == "incan" else 1.0)
                if rng.random() < pr:
                    t.add(os.path.join(d, stem + "." + e), "pub def zz() -> int:\n    return 1\n")
    for d in dirs:
        if rng.random() < 0.12:
            t.cargo.add(d)
        if rng.random() < 0.25:
            t.dirs.add(d)
    return t, dirs


def gen_import(rng):
    k = rng.choice("MF")
    r = rng.random()
    ab = r < 0.15
    lv = 0 if ab or r < 0.6 else rng.choice([1, 1, 2, 3])
    n = rng.choice([1, 1, 2, 2, 3])
    segs = [rng.choice(SEGN + (["mod"] if rng.random() < 0.1 else []) + (["main"] if rng.random() < 0.05 else [])) for _ in range(n)]
    if rng.random() < 0.03:
        segs[0] = "std"
    return (k, ab, lv, segs)


def part_A(chk, binary, scratch, res_broken):
    rng = chk.rng
    n_trees = 24 if chk.tier == "quick" else 200
    per_tree = 40 if chk.tier == "quick" else 60
    trees, cases = [], []
    for k in range(n_trees):
        t, dirs = gen_tree_A(rng, scratch, k)
        trees.append(t)
        for j in range(per_tree):
            rec = gen_import(rng)
            edir = rng.choice(dirs)
            nested = None
            if rng.random() < 0.3:
                # the import stands in a file of another directory that the entry imports
                below = [d for d in dirs if d != edir and (edir == "" or d.startswith(edir + "/"))]
                if below:
                    nested = rng.choice(below)
            stem = "zq%d" % j
            text = import_text(rng, *rec)
            if nested is None:
                t.add(os.path.join(edir, stem + ".incn"), "def main() -> None:\n    pass\n", [text])
                idir = edir
            else:
                nstem = "zn%d" % j
                relsegs = [c for c in nested[len(edir):].split("/") if c] + [nstem]
                t.add(os.path.join(nested, nstem + ".incn"), "pub def zz() -> int:\n    return 1\n", [text])
                t.add(os.path.join(edir, stem + ".incn"), "def main() -> None:\n    pass\n",
                      ["from " + ".".join(relsegs) + " import zz"])
                idir = nested
            # how the entry is spelled on the command line
            comps = [c for c in edir.split("/") if c]
            sp = rng.random()
            if sp < 0.5:
                cwd_rel, ab = None, True
            else:
                cut = rng.randrange(len(comps) + 1)
                cwd_rel, ab = "/".join(comps[:cut]), False
            cases.append({"tree": t, "rec": rec, "text": text, "edir": edir, "idir": idir, "stem": stem,
                          "nested": nested is not None, "cwd_rel": cwd_rel, "ab": ab,
                          "nstem": None if nested is None else "zn%d" % j})
    for t in trees:
        t.write()
    # --- real code
    lines = []
    for c in cases:
        t = c["tree"]
        entry_abs = os.path.join(t.root, c["edir"], c["stem"] + ".incn")
        if c["ab"]:
            cwd, entry = "", entry_abs
        else:
            cwd = os.path.normpath(os.path.join(t.root, c["cwd_rel"]))
            entry = os.path.relpath(entry_abs, cwd)
        c["cwd"], c["entry"] = cwd, entry
        lines.append("imp\t" + c["text"])
        lines.append("rip\t%s\t%s" % (os.path.normpath(os.path.join(t.root, c["idir"])), c["text"]))
        lines.append("cli\t%s\t%s" % (cwd, entry))
        lines.append("mr\t%s\t%s" % (cwd, entry))
    out = run_lines(chk, binary, scratch, lines)
    # --- model
    defs = "\n".join("Definition fs_%s : fsys := %s." % (t.name, t.fs_term()) for t in trees)
    terms = []
    for c in cases:
        t = c["tree"]
        if c["ab"]:
            cwdl, b = [], t.absdir(c["edir"])
        else:
            cwdl = t.absdir(c["cwd_rel"])
            b = [code(x) for x in os.path.dirname(c["entry"]).split("/") if x]
        terms.append("run_resolve fs_%s %s %s %s %s %s" % (t.name, zl(cwdl), cb(c["ab"]), zl(b), zl(t.absdir(c["idir"])), imp_term(c["rec"])))
    req = "From Coq Require Import ZArith List Bool.\nImport ListNotations.\nFrom Verif Require Import C14.Model.\nOpen Scope Z_scope."
    model = vlib.coq_eval(req, "(list Z * list Z * list Z * list Z) * list Z", "fun x => x", terms, tag="c14a", extra_defs=defs, shard=120)
    # --- compare
    fails, corr_bad, known_seen = [], [], {}
    dist = {}
    for n, c in enumerate(cases):
        t = c["tree"]
        o_imp, o_rip, o_cli, o_mr = out[4 * n:4 * n + 4]
        rec = c["rec"]
        want_imp = "K %s %d %d %s" % (rec[0], 1 if rec[1] else 0, rec[2], ".".join(rec[3]))
        desc = {"tree": t.name, "import": c["text"], "entry_dir": c["edir"], "import_in_dir": c["idir"],
                "cwd": c["cwd"], "entry": c["entry"], "files": sorted(f for f in t.files if not re.search(r"/?z[qn]\d+\.", f)),
                "cargo": sorted(t.cargo), "dirs": sorted(t.dirs)}
        for tag, o in (("rip", o_rip), ("cli", o_cli), ("mr", o_mr), ("imp", o_imp)):
            if o.startswith(("HANG", "DIED", "PANIC")):
                fails.append(dict(desc, why="%s: the real code did not return normally: %s" % (tag, o)))
        if any(o.startswith(("HANG", "DIED", "PANIC")) for o in (o_imp, o_rip, o_cli, o_mr)):
            continue
        if o_imp.rstrip() != want_imp.rstrip():
            fails.append(dict(desc, why="spelling parsed to %r, expected %r (equivalent spellings must denote the same import)" % (o_imp, want_imp)))
            continue
        r_rip = parse_path_result(t, o_rip)

        def dep_of(o):
            m = parse_modules(t, o)
            if m[0] != 0:
                return ("err", m[1])
            mods = m[1]
            entry_r = t.rendered(os.path.join(c["edir"], c["stem"] + ".incn"))
            others = [x for x in mods if x[0] != entry_r]
            if c["nested"]:
                nr = t.rendered(os.path.join(c["idir"], c["nstem"] + ".incn"))
                if not any(x[0] == nr for x in others):
                    return ("err", "the nested importer was not loaded: " + o)
                others = [x for x in others if x[0] != nr]
            if len(others) > 1:
                return ("err", "more than one file loaded for one import: " + o)
            return [1] + others[0][0] if others else []
        r_cli, r_mr = dep_of(o_cli), dep_of(o_mr)
        m_cli, m_rip, m_mr, m_spec, flags = model[n]
        m_cli, m_rip, m_mr, m_spec = list(m_cli), list(m_rip), list(m_mr), list(m_spec)
        f_multi, f_modonly, f_under, f_nested, f_mronly = [bool(x) for x in flags]
        key = "%s abs=%d lv=%d n=%d nested=%d rel=%d" % (rec[0], rec[1], rec[2], len(rec[3]), c["nested"], not c["ab"])
        dist[key] = dist.get(key, 0) + 1
        chk.count_case((t.name, c["text"], c["edir"], c["idir"], c["cwd"]), nontrivial=bool(r_rip or (isinstance(r_cli, list) and r_cli)))
        # nested cases: the ModuleResolver/CLI resolve the entry's own import first; when the nested
        # importer cannot be reached by them the case says nothing about the inner import
        for tag, real, mod in (("resolve_import_path", r_rip, m_rip), ("collect_modules", r_cli, m_cli), ("ModuleResolver", r_mr, m_mr)):
            if isinstance(real, tuple):
                if c["nested"] and "nested importer was not loaded" in real[1]:
                    continue
                corr_bad.append(dict(desc, which=tag, impl=real[1], model=mod))
            elif real != mod:
                corr_bad.append(dict(desc, which=tag, impl=real, model=mod))
        if isinstance(r_cli, tuple) or isinstance(r_mr, tuple):
            continue
        # oracle: the real resolvers against each other
        if r_cli != r_rip:
            cls = [n_ for n_, f in (("import-last-segment", f_multi), ("mod-file-cli", f_modonly), ("relative-entry-underflow", f_under),
                                    ("nested-base", f_nested)) if f]
            listed = [x for x in cls if any(f["id"] == x and f.get("status") == "known" for f in chk.findings)]
            if listed:
                for x in listed:
                    known_seen[x] = known_seen.get(x, 0) + 1
            else:
                fails.append(dict(desc, why="CLI and LSP resolve this import to different files", cli=r_cli, lsp=r_rip, classes=cls))
        if r_mr != r_cli:
            if f_mronly and any(f["id"] == "module-resolver-candidates" and f.get("status") == "known" for f in chk.findings):
                known_seen["module-resolver-candidates"] = known_seen.get("module-resolver-candidates", 0) + 1
            else:
                fails.append(dict(desc, why="ModuleResolver and the CLI resolve this import to different files", cli=r_cli, module_resolver=r_mr))
    chk.coverage["A_distribution"] = dist
    chk.coverage["A_cases"] = len(cases)
    chk.coverage["A_known_class_hits"] = known_seen
    for c in cases[:4]:
        chk.sample("%s | entry dir %r | cwd %r" % (c["text"], c["edir"], c["cwd"]))
    return fails, corr_bad, len(cases) * 3



# ----------------------------------------------------------------------------- part B: collectors

def tbl_term(t):
    rows = []
    for rp in sorted(t.files):
        recs = t.imports.get(rp, [])
        rows.append("(%s, [%s])" % (t.mpath(rp), "; ".join(imp_term(r) for r in recs)))
    return "[" + "; ".join(rows) + "]"


def rel_segs(frm_dir, to_file):
    """import record that reaches to_file from directory frm_dir (both relative to the tree root) under
    the documented rule, or None"""
    fd = [c for c in frm_dir.split("/") if c]
    td, f = os.path.split(to_file)
    tdc = [c for c in td.split("/") if c]
    stem = f.rsplit(".", 1)[0]
    k = 0
    while k < len(fd) and k < len(tdc) and fd[k] == tdc[k]:
        k += 1
    lv = len(fd) - k
    segs = tdc[k:] + ([stem] if stem != "mod" or not tdc[k:] else [])
    if lv > 3 or not segs:
        return None
    return (lv, segs)


def gen_tree_B(rng, scratch, k):
    t = Tree(scratch, "w%d" % k)
    dirs = [""]
    for d1 in SEGN:
        if rng.random() < 0.5:
            dirs.append(d1)
            for d2 in SEGN[:2]:
                if rng.random() < 0.4:
                    dirs.append(d1 + "/" + d2)
    if rng.random() < 0.15:
        dirs.append("src")
    files = []
    for d in dirs:
        for stem in SEGN + ["mod"]:
            if rng.random() < (0.45 if stem != "mod" else 0.2):
                e = "incan" if rng.random() < 0.12 else "incn"
                files.append(os.path.join(d, stem + "." + e))
    edir = rng.choice(dirs)
    entry = os.path.join(edir, "main.incn")
    files.append(entry)
    if rng.random() < 0.1:
        t.cargo.add(rng.choice(dirs))
    for rp in files:
        d = os.path.dirname(rp)
        recs, texts = [], []
        for _ in range(rng.choice([0, 1, 1, 2, 2, 3]) if rp != entry else rng.choice([1, 2, 3, 4])):
            r = rng.random()
            rec = None
            if r < 0.75 and files:
                target = rng.choice(files)
                base = d if rng.random() < 0.5 else edir      # LSP-style or CLI-style base
                rs = rel_segs(base, target)
                if rs:
                    kd = rng.choice("FFM")
                    segs = rs[1] + (["zz"] if kd == "M" and rng.random() < 0.7 else [])
                    rec = (kd, False, rs[0], segs)
            if rec is None:
                rec = gen_import(rng)
            recs.append(rec)
            texts.append(import_text(rng, *rec))
        t.imports[rp] = recs
        body = "pub def zz() -> int:\n    return 1\n" if rp != entry else "def main() -> None:\n    pass\n"
        t.add(rp, body, texts)
    return t, edir


def part_B(chk, binary, scratch, res_broken):
    rng = chk.rng
    n = 150 if chk.tier == "quick" else 1500
    projs = []
    for k in range(n):
        t, edir = gen_tree_B(rng, scratch, k)
        t.write()
        comps = [c for c in edir.split("/") if c]
        if rng.random() < 0.6:
            ab, cwd_rel = True, None
        else:
            ab, cwd_rel = False, "/".join(comps[:rng.randrange(len(comps) + 1)])
        projs.append({"tree": t, "edir": edir, "ab": ab, "cwd_rel": cwd_rel})
    lines = []
    for p in projs:
        t = p["tree"]
        entry_abs = os.path.join(t.root, p["edir"], "main.incn")
        if p["ab"]:
            cwd, entry = "", entry_abs
        else:
            cwd = os.path.normpath(os.path.join(t.root, p["cwd_rel"]))
            entry = os.path.relpath(entry_abs, cwd)
        p["cwd"], p["entry"] = cwd, entry
        lines += ["cli\t%s\t%s" % (cwd, entry), "mr\t%s\t%s" % (cwd, entry), "lsp\t%s" % entry_abs,
                  "mc\t\t%s" % entry_abs, "check\t%s\t%s" % (cwd, entry)]
    out = run_lines(chk, binary, scratch, lines)
    defs, terms = [], []
    for p in projs:
        t = p["tree"]
        defs.append("Definition fs_%s : fsys := %s.\nDefinition tbl_%s := %s." % (t.name, t.fs_term(), t.name, tbl_term(t)))
        if p["ab"]:
            cwdl, b = [], t.absdir(p["edir"])
        else:
            cwdl = t.absdir(p["cwd_rel"])
            b = [code(x) for x in os.path.dirname(p["entry"]).split("/") if x]
        terms.append("run_collect fs_%s tbl_%s %s %s %s %d Incn" % (t.name, t.name, zl(cwdl), cb(p["ab"]), zl(b), code("main")))
    req = "From Coq Require Import ZArith List Bool.\nImport ListNotations.\nFrom Verif Require Import C14.Model.\nOpen Scope Z_scope."
    ty = "(Z * list (list Z * list Z)) * (Z * list (list Z * list Z)) * (Z * list (list Z)) * (Z * list (list Z)) * bool"
    model = vlib.coq_eval(req, ty, "fun x => x", terms, tag="c14b", extra_defs="\n".join(defs), shard=40)
    fails, corr_bad = [], []
    hits = {}
    dist = {"cli_modules": {}, "cycle_reported_by_ModuleCollector": 0, "cli_lsp_sets_differ": 0}
    for n_, p in enumerate(projs):
        t = p["tree"]
        o_cli, o_mr, o_lsp, o_mc, o_chk = out[5 * n_:5 * n_ + 5]
        desc = {"tree": t.name, "entry": p["entry"], "cwd": p["cwd"],
                "files": {rp: [import_text(None, *r, style=1) for r in t.imports.get(rp, [])] for rp in sorted(t.files)},
                "cargo": sorted(t.cargo)}
        bad = False
        for tag, o in (("collect_modules", o_cli), ("ModuleResolver", o_mr), ("LSP", o_lsp), ("ModuleCollector", o_mc), ("check", o_chk)):
            if o.startswith(("HANG", "DIED", "PANIC")):
                bad = True
                fails.append(dict(desc, why="%s did not return normally on this project (hang/crash): %s" % (tag, o[:300])))
        if bad:
            continue
        (mc_code, mc_items), (mm_code, mm_items), (ml_code, ml_paths), (mk_code, mk_paths), m_flag = _unflatten_B(model[n_])
        entry_r = t.rendered(os.path.join(p["edir"], "main.incn"))
        # cli / mr
        for tag, o, mcode, mitems in (("collect_modules", o_cli, mc_code, mc_items), ("ModuleResolver", o_mr, mm_code, mm_items)):
            r = parse_modules(t, o)
            if r[0] != 0:
                corr_bad.append(dict(desc, which=tag, impl=r[1], model=[mcode, mitems]))
                continue
            impl = [[list(a), list(b)] for a, b in r[1]]
            mod = [[list(a), list(b)] for a, b in mitems]
            if mcode != 0 or impl != mod:
                corr_bad.append(dict(desc, which=tag, impl=impl, model=[mcode, mod]))
        r_cli = parse_modules(t, o_cli)
        cli_set = sorted(tuple(a) for a, _ in r_cli[1]) if r_cli[0] == 0 else None
        # lsp
        m = re.match(r"OK deps=(.*?) self=(\d+) diags=(.*)$", o_lsp)
        if not m:
            corr_bad.append(dict(desc, which="LSP", impl=o_lsp, model=[ml_code, ml_paths]))
            lsp_set = None
        else:
            deps = [x for x in m.group(1).split(";") if x]
            lsp_set = sorted(tuple(t.rendered(d[len(t.name) + 1:])) if d.startswith(t.name + "/") else ("outside", d) for d in deps)
            if int(m.group(2)) > 0:
                lsp_set = sorted(lsp_set + [tuple(entry_r)])
            if ml_code != 0 or sorted(tuple(x) for x in ml_paths) != lsp_set:
                corr_bad.append(dict(desc, which="LSP", impl=lsp_set, model=[ml_code, ml_paths]))
        # ModuleCollector
        if o_mc.startswith("OK"):
            ids = [x for x in o_mc[3:].split(";") if x]
            impl = sorted(tuple(t.rendered(i)) for i in ids)
            mod = sorted(tuple(x) for x in mk_paths if list(x) != entry_r)
            if mk_code != 0 or impl != mod:
                corr_bad.append(dict(desc, which="ModuleCollector", impl=impl, model=[mk_code, mk_paths]))
        else:
            mm = re.search(r"Circular import detected: (\S+)", o_mc)
            pth = mm.group(1) if mm else ""
            pre = t.root + "/"
            impl = t.rendered(pth[len(pre):]) if pth.startswith(pre) else ["?", o_mc[:200]]
            dist["cycle_reported_by_ModuleCollector"] += 1
            if mk_code != 2 or [list(x) for x in mk_paths] != [impl]:
                corr_bad.append(dict(desc, which="ModuleCollector", impl=["circular", impl], model=[mk_code, mk_paths]))
        if cli_set is not None:
            kk = str(min(len(cli_set), 8))
            dist["cli_modules"][kk] = dist["cli_modules"].get(kk, 0) + 1
        chk.count_case((t.name, "collect"), nontrivial=bool(cli_set and len(cli_set) > 1))
        # oracle: CLI and LSP load the same dependency files
        if cli_set is not None and lsp_set is not None:
            cli_deps = [x for x in cli_set if list(x) != entry_r]
            lsp_deps = [x for x in lsp_set if list(x) != entry_r]
            if cli_deps != lsp_deps or (tuple(entry_r) in lsp_set):
                dist["cli_lsp_sets_differ"] += 1
                listed = all(any(f["id"] == x and f.get("status") == "known" for f in chk.findings)
                             for x in ("import-last-segment", "mod-file-cli", "relative-entry-underflow", "nested-base", "lsp-entry-not-seen"))
                if m_flag and listed:
                    hits["collect-sets-differ (explained by a flagged import)"] = hits.get("collect-sets-differ (explained by a flagged import)", 0) + 1
                else:
                    fails.append(dict(desc, why="CLI and LSP load different dependency files and no import of a loaded file is in a listed class",
                                      cli=cli_deps, lsp=lsp_deps))
    chk.coverage["B_projects"] = len(projs)
    chk.coverage["B_distribution"] = dist
    chk.coverage["B_known_class_hits"] = hits
    return fails, corr_bad, len(projs) * 4


def _unflatten_B(v):
    # Coq prints ((a,b),(c,d),(e,f),(g,h),flag) left-nested: (a, b, (c, d), (e, f), (g, h), flag)
    a, b, c, d, e, flag = v
    return (a, b), c, d, e, flag


# ----------------------------------------------------------------------------- driver

def load_findings(chk):
    # TEMPORARY FALLBACK (lead: drop after merging build/kf-C14.json into known_findings.json)
    if not chk.findings:
        p = os.path.join(vlib.VERIF, "build", "kf-C14.json")
        if os.path.exists(p):
            chk.findings = json.load(open(p))


def run(chk):
    load_findings(chk)
    chk.trusted = [
        "Coq 8.16.1 kernel (coqc; vm_compute for closed witnesses and for evaluating the model); no native_compute",
        "hand-written model coq/C14/Model.v of the three resolvers, the four collectors and the visibility rules (tied by correspondence on generated trees only)",
        "file-system abstraction: a finite set of source files / Cargo.toml / directories; no symlinks, no directory named *.incn|*.incan, no file named src, nothing above the case root has Cargo.toml or src, entry paths without . or .. components",
        "vharness c14 adapter (identifies the file the real code opened by the `# F` marker in the returned source; in-process tower-lsp service for the LSP side) and this script's differ",
        "module names (segments joined by `_`) are modelled injectively as segment lists: generated names contain no `_`",
    ]
    chk.assumptions = [
        "theorems are about the model; the real resolvers are compared with it on generated trees (nesting <= 3, both extensions, mod/__init__ files, Cargo.toml/src markers, relative and absolute entry spellings)",
    ]
    res = chk.proof_stage("C14", allow_axioms=(), rs2v_units=None)
    binary = os.environ.get("VERIF_C14_BIN") or vlib.build_harness("debug")  # env override: development only
    ok, log = vlib.coq_build(["C14/Model.vo"])
    if not ok:
        chk.violation("proof-broken", {"theorem_or_tie": "C14/Model.v does not build", "log": log[-1500:]}, no_input=True)
        return
    scratch = os.path.join(vlib.BUILD, "c14-%d" % os.getpid())
    shutil.rmtree(scratch, ignore_errors=True)
    os.makedirs(scratch)
    for anc in _ancestors(scratch):
        if os.path.exists(os.path.join(anc, "Cargo.toml")) or os.path.exists(os.path.join(anc, "src")):
            raise vlib.Infra("an ancestor of the scratch directory carries Cargo.toml/src: " + anc)
    try:
        fails, corr_bad, validated = [], [], 0
        f, cb_, v = part_A(chk, binary, scratch, res)
        fails += f
        corr_bad += cb_
        validated += v
    finally:
        shutil.rmtree(scratch, ignore_errors=True)
    chk.coverage["rule"] = ("seeded random directory trees (nesting <= 3, .incn/.incan, mod/__init__ files, Cargo.toml and src markers) x random imports in "
                            "every spelling; a case is non-trivial when some resolver found a file; distinct by (tree, import, dirs, cwd)")
    chk.coverage["traces_validated_against_impl"] = validated
    chk.coverage["correspondence_mismatches"] = len(corr_bad)
    for f in fails[:20]:
        chk.violation("failing-input", f)
    if not fails:
        if corr_bad:
            chk.violation("correspondence-broken", {"theorem_or_tie": "C14 model/implementation correspondence", "cases": corr_bad[:10]}, no_input=True)
        if not res["proofs_ok"] or not res["tie_ok"]:
            chk.violation("proof-broken", {"theorem_or_tie": res["broken"]}, no_input=True)


def _ancestors(p):
    out = []
    while True:
        out.append(p)
        q = os.path.dirname(p)
        if q == p:
            return out
        p = q


def replay(path):
    data = json.load(open(path))
    for v in data["violations"]:
        print(json.dumps(v["detail"], indent=1))
    return 0
